//! `Capture`: a schema-directed `DeserializeSeed` that drives the deserializer with the hint
//! appropriate to each node and records exactly what it is shown, in the exchange format of values:
//!   {"t":"long","v":[4 limbs]}, {"t":"str","v":[bytes]}, {"t":"bool","i":1}, {"t":"enum","i":2},
//!   {"t":"arr","es":[..]}, {"t":"rec","es":[..]}, {"t":"map","kv":[[key,value]..]}, {"t":"un","b":1,"x":..}
//! Sub-trees whose path is in `ignore` are skipped with `IgnoredAny` and recorded as {"t":"ignored"}.

use crate::schema_io::{branch_type_name, bytes_json, eff, Eff};
use serde::de::{self, DeserializeSeed, Deserializer, EnumAccess, IgnoredAny, MapAccess, SeqAccess, VariantAccess, Visitor};
use serde_avro_fast::schema::*;
use serde_json::{json, Value as J};
use std::cell::RefCell;
use std::fmt;

#[derive(Default, Debug)]
pub struct Stats {
	pub borrowed_in_input: usize,
	pub borrowed_outside: usize,
	pub copied: usize,
}

pub struct Ctx<'g> {
	pub g: &'g SchemaMut,
	/// address range of the input slice (0,0 when reading from a reader)
	pub input: (usize, usize),
	pub ignore: Vec<Vec<usize>>,
	/// how duration nodes are read: "bytes" | "map" | "seq"
	pub duration_mode: &'static str,
	/// how enum nodes are read: "str" | "u64"
	pub enum_mode: &'static str,
	/// how decimal nodes are read: "str" (deserialize_any) | "u64" | "i64" | "u128" | "i128" (the integer hints of a typed target)
	pub decimal_mode: &'static str,
	/// which family of serde hints the target uses:
	///  "default": the natural hint per node (unions as enums, records as structs, arrays as seqs);
	///  "alt": what derived Rust types use otherwise - tuples of the known length for arrays, maps for records,
	///         Option for [null, T] unions, owned string / byte_buf, enums read through `deserialize_enum` with a
	///         variant list in REVERSED schema order (so that an index-based answer is observable);
	///  "any": everything through `deserialize_any` (self-describing targets); unions are then transparent.
	pub hints: &'static str,
	/// expected value (when known): gives typed targets such as tuples their length
	pub shape: Option<J>,
	pub stats: RefCell<Stats>,
}

impl<'g> Ctx<'g> {
	pub fn new(g: &'g SchemaMut) -> Self {
		Ctx { g, input: (0, 0), ignore: vec![], duration_mode: "bytes", enum_mode: "str", decimal_mode: "str", hints: "default", shape: None, stats: RefCell::new(Stats::default()) }
	}
	fn note_borrowed(&self, ptr: *const u8, len: usize) {
		let a = ptr as usize;
		let mut s = self.stats.borrow_mut();
		if self.input.1 > 0 && a >= self.input.0 && a + len <= self.input.1 {
			s.borrowed_in_input += 1;
		} else {
			s.borrowed_outside += 1;
		}
	}
	fn note_copied(&self) {
		self.stats.borrow_mut().copied += 1;
	}
}

pub fn limbs_i64(x: i64) -> J {
	let u = x as u64;
	json!([u & 0xffff, (u >> 16) & 0xffff, (u >> 32) & 0xffff, (u >> 48) & 0xffff])
}

pub struct Cap<'c, 'g> {
	pub ctx: &'c Ctx<'g>,
	pub key: usize,
	pub path: Vec<usize>,
	/// the part of the expected value that corresponds to this node, if known
	pub shape: Option<&'c J>,
	/// directly inside `Option<_>` over a union of several branches: there an enum hint means "the union as an enum" (the variant
	/// identifier is the branch's type name), so an Avro enum branch is read by its symbol, not through a Rust enum
	pub no_enum_hint: bool,
	/// "alt2" targets: 0 = fresh node, 1 = already unwrapped from `Option<_>`, 2 = inside the enum named after the node's type
	pub stage: u8,
}

impl<'c, 'g> Cap<'c, 'g> {
	pub fn root(ctx: &'c Ctx<'g>) -> Self {
		Cap { ctx, key: 0, path: vec![], shape: ctx.shape.as_ref(), no_enum_hint: false, stage: 0 }
	}
	fn child(&self, key: SchemaKey, step: usize) -> Cap<'c, 'g> {
		self.child_shaped(key, step, None)
	}
	fn child_shaped(&self, key: SchemaKey, step: usize, shape: Option<&'c J>) -> Cap<'c, 'g> {
		let mut path = self.path.clone();
		path.push(step);
		Cap { ctx: self.ctx, key: key.idx(), path, shape, no_enum_hint: false, stage: 0 }
	}
	fn shape_elems(&self) -> Option<&'c Vec<J>> {
		self.shape.and_then(|s| s.get("es")).and_then(|e| e.as_array())
	}
	fn node(&self) -> Result<&'g SchemaNode, String> {
		self.ctx.g.nodes().get(self.key).ok_or_else(|| format!("capture: key {} out of range", self.key))
	}
}

fn de_err<E: de::Error>(msg: impl fmt::Display) -> E {
	E::custom(format!("CAPTURE-MISMATCH: {msg}"))
}

impl<'de, 'c, 'g> DeserializeSeed<'de> for Cap<'c, 'g> {
	type Value = J;
	fn deserialize<D: Deserializer<'de>>(self, d: D) -> Result<J, D::Error> {
		if self.ctx.ignore.iter().any(|p| *p == self.path) {
			<IgnoredAny as de::Deserialize>::deserialize(d)?;
			return Ok(json!({"t": "ignored"}));
		}
		let node = self.node().map_err(de_err)?;
		let hints = self.ctx.hints;
		if hints == "any" {
			// self-describing target: the schema is not consulted at all
			return d.deserialize_any(AnyV { ctx: self.ctx });
		}
		let alt = hints == "alt";
		if hints == "alt2" {
			// a third family of typed targets, entry points the other two do not use:
			//  Option<T> over a node that is not a union (Some(T); None for null);
			//  a Rust enum whose variant is named after the node's type, over boolean / float / double / array / map / record / null;
			//  String-like targets over bytes and fixed that hold valid UTF-8; a sequence target over duration; a tuple struct over arrays
			let e = eff(node);
			if self.stage == 0 && e != Eff::Union {
				return d.deserialize_option(SomeWrapV { cap: &self });
			}
			if self.stage == 1 && matches!(e, Eff::Null | Eff::Boolean | Eff::Float | Eff::Double | Eff::Array | Eff::Map | Eff::Record) {
				return d.deserialize_enum("E", &[], TypeNameEnumV { cap: &self });
			}
			let utf8 = || self.shape.and_then(|s| s.get("v")).and_then(|v| v.as_array())
				.map(|a| std::str::from_utf8(&a.iter().map(|x| x.as_u64().unwrap_or(255) as u8).collect::<Vec<u8>>()).is_ok()).unwrap_or(false);
			match e {
				Eff::Bytes if utf8() => return d.deserialize_str(ScalarV { want: "bytes", cap: &self }),
				Eff::Fixed if utf8() => return d.deserialize_string(ScalarV { want: "fix", cap: &self }),
				Eff::Duration => return d.deserialize_seq(DurationV { cap: &self }),
				Eff::Array => {
					return match self.shape_elems() {
						Some(es) => d.deserialize_tuple_struct("T", es.len(), ArrayV { cap: &self, exactly: Some(es.len()) }),
						None => d.deserialize_seq(ArrayV { cap: &self, exactly: None }),
					}
				}
				_ => {}
			}
		}
		match eff(node) {
			Eff::Null => d.deserialize_unit(ScalarV { want: "unit", cap: &self }),
			Eff::Boolean => d.deserialize_bool(ScalarV { want: "bool", cap: &self }),
			Eff::IntLike => d.deserialize_i32(ScalarV { want: "i32", cap: &self }),
			Eff::LongLike => d.deserialize_i64(ScalarV { want: "i64", cap: &self }),
			Eff::Float => d.deserialize_f32(ScalarV { want: "f32", cap: &self }),
			Eff::Double => d.deserialize_f64(ScalarV { want: "f64", cap: &self }),
			Eff::Bytes if alt => d.deserialize_byte_buf(ScalarV { want: "bytes", cap: &self }),
			Eff::Bytes => d.deserialize_bytes(ScalarV { want: "bytes", cap: &self }),
			Eff::StringLike if alt => d.deserialize_string(ScalarV { want: "str", cap: &self }),
			Eff::StringLike => d.deserialize_str(ScalarV { want: "str", cap: &self }),
			Eff::Fixed if alt => d.deserialize_bytes(ScalarV { want: "fix", cap: &self }),
			Eff::Fixed => d.deserialize_any(ScalarV { want: "fix", cap: &self }),
			Eff::Duration if alt => d.deserialize_tuple(3, DurationV { cap: &self }),
			Eff::Duration => match self.ctx.duration_mode {
				"map" => d.deserialize_map(DurationV { cap: &self }),
				"seq" => d.deserialize_tuple(3, DurationV { cap: &self }),
				_ => d.deserialize_bytes(ScalarV { want: "dur", cap: &self }),
			},
			Eff::Enum if alt && !self.no_enum_hint => d.deserialize_enum("E", &[], RustEnumV { cap: &self }),
			Eff::Enum => match self.ctx.enum_mode {
				"u64" => d.deserialize_u64(ScalarV { want: "enum_u64", cap: &self }),
				_ => d.deserialize_any(ScalarV { want: "enum", cap: &self }),
			},
			Eff::DecimalBytes | Eff::DecimalFixed | Eff::BigDecimal => match self.ctx.decimal_mode {
				"u64" => d.deserialize_u64(ScalarV { want: "dec_int", cap: &self }),
				"i64" => d.deserialize_i64(ScalarV { want: "dec_int", cap: &self }),
				"u128" => d.deserialize_u128(ScalarV { want: "dec_int", cap: &self }),
				"i128" => d.deserialize_i128(ScalarV { want: "dec_int", cap: &self }),
				_ => d.deserialize_any(ScalarV { want: "dec", cap: &self }),
			},
			Eff::Array if alt => match self.shape_elems() {
				Some(es) => d.deserialize_tuple(es.len(), ArrayV { cap: &self, exactly: Some(es.len()) }),
				None => d.deserialize_seq(ArrayV { cap: &self, exactly: None }),
			},
			Eff::Array => d.deserialize_seq(ArrayV { cap: &self, exactly: None }),
			Eff::Map => d.deserialize_map(MapV { cap: &self }),
			Eff::Record if alt => d.deserialize_map(RecordV { cap: &self }),
			Eff::Record => d.deserialize_struct("", &[], RecordV { cap: &self }),
			Eff::Union if alt && self.is_option_union() => d.deserialize_option(OptionV { cap: &self }),
			// `Option<T>` over a union of null and SEVERAL other branches, T being the type that fits the branch the value is
			// expected in (known from the expected value)
			Eff::Union if alt && self.multi_option_branch().is_some() => d.deserialize_option(OptionMultiV { cap: &self }),
			Eff::Union => d.deserialize_enum("", &[], UnionV { cap: &self }),
		}
	}
}

impl<'c, 'g> Cap<'c, 'g> {
	/// a union of exactly two branches one of which is null: what `Option<T>` is used for
	fn is_option_union(&self) -> bool {
		match self.node().map(|n| &n.type_) {
			Ok(RegularType::Union(u)) if u.variants.len() == 2 => u
				.variants
				.iter()
				.filter(|k| self.ctx.g.nodes().get(k.idx()).map_or(false, |n| eff(n) == Eff::Null))
				.count() == 1,
			_ => false,
		}
	}
}

impl<'c, 'g> Cap<'c, 'g> {
	/// a union of null and at least two other branches, and the expected value says which branch it is in
	fn multi_option_branch(&self) -> Option<(usize, usize)> {
		let variants = match self.node().map(|n| &n.type_) {
			Ok(RegularType::Union(u)) if u.variants.len() >= 3 => &u.variants,
			_ => return None,
		};
		let is_null = |k: &SchemaKey| self.ctx.g.nodes().get(k.idx()).map_or(false, |n| eff(n) == Eff::Null);
		let null_idx = variants.iter().position(is_null)?;
		let b = self.shape.and_then(|s| s.get("b")).and_then(|b| b.as_u64())? as usize;
		if b < variants.len() {
			Some((null_idx, b))
		} else {
			None
		}
	}
}

/// "alt2": `Option<T>` over a node that is not a union
struct SomeWrapV<'a, 'c, 'g> {
	cap: &'a Cap<'c, 'g>,
}
impl<'de, 'a, 'c, 'g> Visitor<'de> for SomeWrapV<'a, 'c, 'g> {
	type Value = J;
	fn expecting(&self, f: &mut fmt::Formatter) -> fmt::Result {
		write!(f, "CAPTURE-MISMATCH: an option over a plain node")
	}
	fn visit_none<E: de::Error>(self) -> Result<J, E> {
		match self.cap.node().map(eff) {
			Ok(Eff::Null) => Ok(json!({"t": "null"})),
			_ => Err(de_err("CAPTURE-MISMATCH: None for a node that is not null")),
		}
	}
	fn visit_unit<E: de::Error>(self) -> Result<J, E> {
		self.visit_none()
	}
	fn visit_some<D: Deserializer<'de>>(self, d: D) -> Result<J, D::Error> {
		let inner = Cap { ctx: self.cap.ctx, key: self.cap.key, path: self.cap.path.clone(), shape: self.cap.shape, no_enum_hint: self.cap.no_enum_hint, stage: 1 };
		inner.deserialize(d)
	}
}

/// "alt2": a Rust enum with one newtype variant named after the node's type (`enum E { Double(f64) }` over "double")
struct TypeNameEnumV<'a, 'c, 'g> {
	cap: &'a Cap<'c, 'g>,
}
impl<'de, 'a, 'c, 'g> Visitor<'de> for TypeNameEnumV<'a, 'c, 'g> {
	type Value = J;
	fn expecting(&self, f: &mut fmt::Formatter) -> fmt::Result {
		write!(f, "CAPTURE-MISMATCH: an enum named after the type")
	}
	fn visit_enum<A: EnumAccess<'de>>(self, a: A) -> Result<J, A::Error> {
		let node = self.cap.node().map_err(de_err)?;
		let (name, access): (String, A::Variant) = a.variant()?;
		let want = branch_type_name(node);
		if name != want {
			return Err(de_err(format!("CAPTURE-MISMATCH: the variant is announced as {name:?}, the type's name is {want:?}")));
		}
		let inner = Cap { ctx: self.cap.ctx, key: self.cap.key, path: self.cap.path.clone(), shape: self.cap.shape, no_enum_hint: self.cap.no_enum_hint, stage: 2 };
		access.newtype_variant_seed(inner)
	}
}

/// `Option<T>` over [null, A, B, ...]: T is the target for the expected branch
struct OptionMultiV<'a, 'c, 'g> {
	cap: &'a Cap<'c, 'g>,
}
impl<'de, 'a, 'c, 'g> Visitor<'de> for OptionMultiV<'a, 'c, 'g> {
	type Value = J;
	fn expecting(&self, f: &mut fmt::Formatter) -> fmt::Result {
		write!(f, "CAPTURE-MISMATCH: an option over a union of several branches")
	}
	fn visit_none<E: de::Error>(self) -> Result<J, E> {
		let (null_idx, _) = self.cap.multi_option_branch().ok_or_else(|| de_err("no expected branch"))?;
		Ok(json!({"t": "un", "b": null_idx, "x": {"t": "null"}}))
	}
	fn visit_unit<E: de::Error>(self) -> Result<J, E> {
		self.visit_none()
	}
	fn visit_some<D: Deserializer<'de>>(self, d: D) -> Result<J, D::Error> {
		let (null_idx, b) = self.cap.multi_option_branch().ok_or_else(|| de_err("no expected branch"))?;
		if b == null_idx {
			return Err(de_err("CAPTURE-MISMATCH: Some(..) where the expected value is in the null branch"));
		}
		let key = match &self.cap.node().map_err(de_err)?.type_ {
			RegularType::Union(u) => u.variants[b],
			_ => return Err(de_err("option capture on non-union")),
		};
		let shape = self.cap.shape.and_then(|s| s.get("x"));
		let mut child = self.cap.child_shaped(key, b, shape);
		child.no_enum_hint = true;
		let v = child.deserialize(d)?;
		Ok(json!({"t": "un", "b": b, "x": v}))
	}
}

/// `Option<T>` for a [null, T] / [T, null] union
struct OptionV<'a, 'c, 'g> {
	cap: &'a Cap<'c, 'g>,
}
impl<'de, 'a, 'c, 'g> Visitor<'de> for OptionV<'a, 'c, 'g> {
	type Value = J;
	fn expecting(&self, f: &mut fmt::Formatter) -> fmt::Result {
		write!(f, "CAPTURE-MISMATCH: an option")
	}
	fn visit_none<E: de::Error>(self) -> Result<J, E> {
		let (null_idx, _) = self.branches().map_err(de_err)?;
		Ok(json!({"t": "un", "b": null_idx, "x": {"t": "null"}}))
	}
	fn visit_unit<E: de::Error>(self) -> Result<J, E> {
		self.visit_none()
	}
	fn visit_some<D: Deserializer<'de>>(self, d: D) -> Result<J, D::Error> {
		let (_, (other_idx, other_key)) = self.branches().map_err(de_err)?;
		let shape = self.cap.shape.and_then(|s| s.get("x"));
		let v = self.cap.child_shaped(other_key, other_idx, shape).deserialize(d)?;
		Ok(json!({"t": "un", "b": other_idx, "x": v}))
	}
}
impl<'a, 'c, 'g> OptionV<'a, 'c, 'g> {
	fn branches(&self) -> Result<(usize, (usize, SchemaKey)), String> {
		let node = self.cap.node()?;
		let variants = match &node.type_ {
			RegularType::Union(u) => &u.variants,
			_ => return Err("option capture on non-union".into()),
		};
		let is_null = |k: &SchemaKey| self.cap.ctx.g.nodes().get(k.idx()).map_or(false, |n| eff(n) == Eff::Null);
		let null_idx = variants.iter().position(is_null).ok_or("no null branch")?;
		let other_idx = 1 - null_idx;
		Ok((null_idx, (other_idx, variants[other_idx])))
	}
}

/// a Rust unit-only enum whose variants are declared in REVERSED schema order, read the way serde-derived
/// enums are: the variant identifier may arrive as a string (matched by name) or as an index (declaration order).
struct RustEnumV<'a, 'c, 'g> {
	cap: &'a Cap<'c, 'g>,
}
impl<'de, 'a, 'c, 'g> Visitor<'de> for RustEnumV<'a, 'c, 'g> {
	type Value = J;
	fn expecting(&self, f: &mut fmt::Formatter) -> fmt::Result {
		write!(f, "CAPTURE-MISMATCH: an enum")
	}
	fn visit_enum<A: EnumAccess<'de>>(self, a: A) -> Result<J, A::Error> {
		let node = self.cap.node().map_err(de_err)?;
		let symbols = match &node.type_ {
			RegularType::Enum(e) => &e.symbols,
			_ => return Err(de_err("enum capture on non-enum")),
		};
		struct Ident<'s>(&'s [String]);
		impl<'de, 's> DeserializeSeed<'de> for Ident<'s> {
			type Value = usize;
			fn deserialize<D: Deserializer<'de>>(self, d: D) -> Result<usize, D::Error> {
				struct IV<'s>(&'s [String]);
				impl<'de, 's> Visitor<'de> for IV<'s> {
					type Value = usize;
					fn expecting(&self, f: &mut fmt::Formatter) -> fmt::Result {
						write!(f, "CAPTURE-MISMATCH: variant identifier")
					}
					fn visit_str<E: de::Error>(self, v: &str) -> Result<usize, E> {
						self.0.iter().position(|s| s == v).ok_or_else(|| de_err(format!("unknown variant {v:?}")))
					}
					fn visit_bytes<E: de::Error>(self, v: &[u8]) -> Result<usize, E> {
						self.0.iter().position(|s| s.as_bytes() == v).ok_or_else(|| de_err("unknown variant (bytes)"))
					}
					fn visit_u64<E: de::Error>(self, v: u64) -> Result<usize, E> {
						// declaration order is the reverse of the schema order
						let n = self.0.len() as u64;
						if v < n {
							Ok((n - 1 - v) as usize)
						} else {
							Err(de_err(format!("variant index {v} out of range")))
						}
					}
				}
				d.deserialize_identifier(IV(self.0))
			}
		}
		let (idx, access) = a.variant_seed(Ident(symbols))?;
		access.unit_variant()?;
		Ok(json!({"t": "enum", "i": idx}))
	}
}

struct ScalarV<'a, 'c, 'g> {
	want: &'static str,
	cap: &'a Cap<'c, 'g>,
}

/// what a decimal was shown as under an integer hint: the visit call, the 128-bit two's complement value as 8 limbs of 16 bits
/// (least significant first), or the text
fn dshown(via: &str, bits: u128, txt: &str) -> J {
	let w: Vec<u64> = (0..8).map(|i| ((bits >> (16 * i)) & 0xffff) as u64).collect();
	json!({"t": "dshown", "via": via, "w": w, "txt": bytes_json(txt.as_bytes())})
}

fn parse_decimal_text<E: de::Error>(s: &str) -> Result<J, E> {
	// "-123.450" -> unscaled -123450, scale 3
	let (neg, body) = match s.strip_prefix('-') {
		Some(rest) => (true, rest),
		None => (false, s),
	};
	let (int_part, frac_part) = match body.split_once('.') {
		Some((a, b)) => (a, b),
		None => (body, ""),
	};
	let digits: String = format!("{int_part}{frac_part}");
	if digits.is_empty() || !digits.bytes().all(|c| c.is_ascii_digit()) {
		return Err(de_err(format!("decimal text {s:?} not understood")));
	}
	let mag: i128 = digits.parse().map_err(|_| de_err::<E>(format!("decimal text {s:?} too large")))?;
	let val = if neg { -mag } else { mag };
	Ok(json!({"t": "dec", "v": bytes_json(&val.to_be_bytes()), "s": frac_part.len()}))
}

impl<'de, 'a, 'c, 'g> Visitor<'de> for ScalarV<'a, 'c, 'g> {
	type Value = J;
	fn expecting(&self, f: &mut fmt::Formatter) -> fmt::Result {
		write!(f, "CAPTURE-MISMATCH: a value shown as {}", self.want)
	}
	fn visit_unit<E: de::Error>(self) -> Result<J, E> {
		match self.want {
			"unit" => Ok(json!({"t": "null"})),
			w => Err(de_err(format!("got unit, wanted {w}"))),
		}
	}
	fn visit_bool<E: de::Error>(self, v: bool) -> Result<J, E> {
		match self.want {
			"bool" => Ok(json!({"t": "bool", "i": v as u8})),
			w => Err(de_err(format!("got bool, wanted {w}"))),
		}
	}
	fn visit_i32<E: de::Error>(self, v: i32) -> Result<J, E> {
		match self.want {
			"i32" => Ok(json!({"t": "int", "v": limbs_i64(v as i64)})),
			w => Err(de_err(format!("got i32, wanted {w}"))),
		}
	}
	fn visit_i64<E: de::Error>(self, v: i64) -> Result<J, E> {
		match self.want {
			"i64" => Ok(json!({"t": "long", "v": limbs_i64(v)})),
			"dec_int" => Ok(dshown("i64", v as i128 as u128, "")),
			w => Err(de_err(format!("got i64, wanted {w}"))),
		}
	}
	fn visit_i128<E: de::Error>(self, v: i128) -> Result<J, E> {
		match self.want {
			"dec_int" => Ok(dshown("i128", v as u128, "")),
			w => Err(de_err(format!("got i128, wanted {w}"))),
		}
	}
	fn visit_u128<E: de::Error>(self, v: u128) -> Result<J, E> {
		match self.want {
			"dec_int" => Ok(dshown("u128", v, "")),
			w => Err(de_err(format!("got u128, wanted {w}"))),
		}
	}
	fn visit_u64<E: de::Error>(self, v: u64) -> Result<J, E> {
		match self.want {
			"dec_int" => Ok(dshown("u64", v as u128, "")),
			"enum_u64" => Ok(json!({"t": "enum", "i": v})),
			w => Err(de_err(format!("got u64, wanted {w}"))),
		}
	}
	fn visit_f32<E: de::Error>(self, v: f32) -> Result<J, E> {
		match self.want {
			"f32" => Ok(json!({"t": "f32", "v": bytes_json(&v.to_le_bytes())})),
			w => Err(de_err(format!("got f32, wanted {w}"))),
		}
	}
	fn visit_f64<E: de::Error>(self, v: f64) -> Result<J, E> {
		match self.want {
			"f64" => Ok(json!({"t": "f64", "v": bytes_json(&v.to_le_bytes())})),
			w => Err(de_err(format!("got f64, wanted {w}"))),
		}
	}
	fn visit_str<E: de::Error>(self, v: &str) -> Result<J, E> {
		match self.want {
			"str" => {
				self.cap.ctx.note_copied();
				Ok(json!({"t": "str", "v": bytes_json(v.as_bytes())}))
			}
			"enum" => {
				let node = self.cap.node().map_err(de_err)?;
				match &node.type_ {
					RegularType::Enum(e) => match e.symbols.iter().position(|s| s == v) {
						Some(i) => Ok(json!({"t": "enum", "i": i})),
						None => Err(de_err(format!("enum symbol {v:?} not in schema"))),
					},
					_ => Err(de_err("enum capture on non-enum")),
				}
			}
			"dec" => parse_decimal_text(v),
			"dec_int" => Ok(dshown("str", 0, v)),
			"bytes" | "fix" if self.cap.ctx.hints == "alt2" => {
				self.cap.ctx.note_copied();
				Ok(json!({"t": self.want, "v": bytes_json(v.as_bytes())}))
			}
			w => Err(de_err(format!("got str, wanted {w}"))),
		}
	}
	fn visit_borrowed_str<E: de::Error>(self, v: &'de str) -> Result<J, E> {
		match self.want {
			"str" => {
				self.cap.ctx.note_borrowed(v.as_ptr(), v.len());
				Ok(json!({"t": "str", "v": bytes_json(v.as_bytes())}))
			}
			_ => self.visit_str(v),
		}
	}
	fn visit_bytes<E: de::Error>(self, v: &[u8]) -> Result<J, E> {
		match self.want {
			"bytes" | "fix" | "dur" => {
				self.cap.ctx.note_copied();
				Ok(json!({"t": self.want, "v": bytes_json(v)}))
			}
			w => Err(de_err(format!("got bytes, wanted {w}"))),
		}
	}
	fn visit_borrowed_bytes<E: de::Error>(self, v: &'de [u8]) -> Result<J, E> {
		match self.want {
			"bytes" | "fix" | "dur" => {
				self.cap.ctx.note_borrowed(v.as_ptr(), v.len());
				Ok(json!({"t": self.want, "v": bytes_json(v)}))
			}
			w => Err(de_err(format!("got bytes, wanted {w}"))),
		}
	}
}

struct DurationV<'a, 'c, 'g> {
	#[allow(dead_code)]
	cap: &'a Cap<'c, 'g>,
}
impl<'de, 'a, 'c, 'g> Visitor<'de> for DurationV<'a, 'c, 'g> {
	type Value = J;
	fn expecting(&self, f: &mut fmt::Formatter) -> fmt::Result {
		write!(f, "CAPTURE-MISMATCH: a duration as map or seq of three u32")
	}
	fn visit_map<A: MapAccess<'de>>(self, mut m: A) -> Result<J, A::Error> {
		let mut out = Vec::new();
		let names = ["months", "days", "milliseconds"];
		let mut i = 0;
		while let Some(k) = m.next_key::<String>()? {
			if i >= 3 || k != names[i] {
				return Err(de_err(format!("duration key {k:?} at position {i}")));
			}
			let v: u32 = m.next_value()?;
			out.extend_from_slice(&v.to_le_bytes());
			i += 1;
		}
		if i != 3 {
			return Err(de_err("duration map with fewer than 3 entries"));
		}
		Ok(json!({"t": "dur", "v": bytes_json(&out)}))
	}
	fn visit_seq<A: SeqAccess<'de>>(self, mut s: A) -> Result<J, A::Error> {
		let mut out = Vec::new();
		let mut i = 0;
		while let Some(v) = s.next_element::<u32>()? {
			out.extend_from_slice(&v.to_le_bytes());
			i += 1;
		}
		if i != 3 {
			return Err(de_err("duration seq without exactly 3 entries"));
		}
		Ok(json!({"t": "dur", "v": bytes_json(&out)}))
	}
}

struct ArrayV<'a, 'c, 'g> {
	cap: &'a Cap<'c, 'g>,
	/// a tuple-like target (tuples, `[T; N]`, tuple structs): asks for exactly that many elements and never for one more - what serde's own
	/// visitors for those types do
	exactly: Option<usize>,
}
impl<'de, 'a, 'c, 'g> Visitor<'de> for ArrayV<'a, 'c, 'g> {
	type Value = J;
	fn expecting(&self, f: &mut fmt::Formatter) -> fmt::Result {
		write!(f, "CAPTURE-MISMATCH: an array shown as seq")
	}
	fn visit_seq<A: SeqAccess<'de>>(self, mut s: A) -> Result<J, A::Error> {
		let node = self.cap.node().map_err(de_err)?;
		let items = match &node.type_ {
			RegularType::Array(a) => a.items,
			_ => return Err(de_err("array capture on non-array")),
		};
		let mut out = Vec::new();
		// every element takes step 0: ignore paths address "all elements"
		let shapes = self.cap.shape_elems();
		loop {
			if self.exactly == Some(out.len()) {
				break;
			}
			let shape = shapes.and_then(|es| es.get(out.len()));
			match s.next_element_seed(self.cap.child_shaped(items, 0, shape))? {
				Some(v) => out.push(v),
				None if self.exactly.is_some() => return Err(de_err(format!("invalid length {}, expected a tuple of size {}", out.len(), self.exactly.unwrap()))),
				None => break,
			}
		}
		Ok(json!({"t": "arr", "es": out}))
	}
}

struct KeySeed<'c, 'g> {
	ctx: &'c Ctx<'g>,
}
impl<'de, 'c, 'g> DeserializeSeed<'de> for KeySeed<'c, 'g> {
	type Value = J;
	fn deserialize<D: Deserializer<'de>>(self, d: D) -> Result<J, D::Error> {
		struct KV<'c, 'g>(&'c Ctx<'g>);
		impl<'de, 'c, 'g> Visitor<'de> for KV<'c, 'g> {
			type Value = J;
			fn expecting(&self, f: &mut fmt::Formatter) -> fmt::Result {
				write!(f, "CAPTURE-MISMATCH: a map key shown as str")
			}
			fn visit_str<E: de::Error>(self, v: &str) -> Result<J, E> {
				self.0.note_copied();
				Ok(bytes_json(v.as_bytes()))
			}
			fn visit_borrowed_str<E: de::Error>(self, v: &'de str) -> Result<J, E> {
				self.0.note_borrowed(v.as_ptr(), v.len());
				Ok(bytes_json(v.as_bytes()))
			}
		}
		d.deserialize_str(KV(self.ctx))
	}
}

struct MapV<'a, 'c, 'g> {
	cap: &'a Cap<'c, 'g>,
}
impl<'de, 'a, 'c, 'g> Visitor<'de> for MapV<'a, 'c, 'g> {
	type Value = J;
	fn expecting(&self, f: &mut fmt::Formatter) -> fmt::Result {
		write!(f, "CAPTURE-MISMATCH: a map shown as map")
	}
	fn visit_map<A: MapAccess<'de>>(self, mut m: A) -> Result<J, A::Error> {
		let node = self.cap.node().map_err(de_err)?;
		let values = match &node.type_ {
			RegularType::Map(mm) => mm.values,
			_ => return Err(de_err("map capture on non-map")),
		};
		let mut out = Vec::new();
		while let Some(k) = m.next_key_seed(KeySeed { ctx: self.cap.ctx })? {
			let shape = self.cap.shape.and_then(|s| s.get("kv")).and_then(|kv| kv.get(out.len())).and_then(|e| e.get(1));
			let v = m.next_value_seed(self.cap.child_shaped(values, 0, shape))?;
			out.push(json!([k, v]));
		}
		Ok(json!({"t": "map", "kv": out}))
	}
}

struct RecordV<'a, 'c, 'g> {
	cap: &'a Cap<'c, 'g>,
}
impl<'de, 'a, 'c, 'g> Visitor<'de> for RecordV<'a, 'c, 'g> {
	type Value = J;
	fn expecting(&self, f: &mut fmt::Formatter) -> fmt::Result {
		write!(f, "CAPTURE-MISMATCH: a record shown as map")
	}
	fn visit_map<A: MapAccess<'de>>(self, mut m: A) -> Result<J, A::Error> {
		let node = self.cap.node().map_err(de_err)?;
		let fields = match &node.type_ {
			RegularType::Record(r) => &r.fields,
			_ => return Err(de_err("record capture on non-record")),
		};
		let mut out = Vec::new();
		let mut i = 0;
		while let Some(k) = m.next_key::<String>()? {
			let f = fields.get(i).ok_or_else(|| de_err::<A::Error>(format!("extra record field {k:?}")))?;
			if f.name != k {
				return Err(de_err(format!("record field {i} announced as {k:?}, schema says {:?}", f.name)));
			}
			let shape = self.cap.shape_elems().and_then(|es| es.get(i));
			out.push(m.next_value_seed(self.cap.child_shaped(f.type_, i, shape))?);
			i += 1;
		}
		if i != fields.len() {
			return Err(de_err(format!("record gave {i} fields, schema has {}", fields.len())));
		}
		Ok(json!({"t": "rec", "es": out}))
	}
}

struct UnionV<'a, 'c, 'g> {
	cap: &'a Cap<'c, 'g>,
}
impl<'de, 'a, 'c, 'g> Visitor<'de> for UnionV<'a, 'c, 'g> {
	type Value = J;
	fn expecting(&self, f: &mut fmt::Formatter) -> fmt::Result {
		write!(f, "CAPTURE-MISMATCH: a union shown as enum")
	}
	fn visit_enum<A: EnumAccess<'de>>(self, a: A) -> Result<J, A::Error> {
		let node = self.cap.node().map_err(de_err)?;
		let variants = match &node.type_ {
			RegularType::Union(u) => &u.variants,
			_ => return Err(de_err("union capture on non-union")),
		};
		let (name, access): (String, A::Variant) = a.variant()?;
		let g = self.cap.ctx.g;
		let matching: Vec<usize> = variants
			.iter()
			.enumerate()
			.filter(|(_, k)| g.nodes().get(k.idx()).map_or(false, |n| branch_type_name(n) == name))
			.map(|(i, _)| i)
			.collect();
		if matching.len() != 1 {
			return Err(de_err(format!("union branch announced as {name:?} matches {} branches", matching.len())));
		}
		let b = matching[0];
		let shape = self.cap.shape.and_then(|s| s.get("x"));
		let child = self.cap.child_shaped(variants[b], b, shape);
		if self.cap.ctx.ignore.iter().any(|p| *p == child.path) {
			// a unit variant for this branch: the payload is skipped by the deserializer
			access.unit_variant()?;
			return Ok(json!({"t": "un", "b": b, "x": {"t": "ignored"}}));
		}
		let v = access.newtype_variant_seed(child)?;
		Ok(json!({"t": "un", "b": b, "x": v}))
	}
}

/// A self-describing target (what `serde_json::Value`-like types do): records whatever `deserialize_any` shows.
/// Output: null / bool / int (i32) / long (i64) / u32 / u64 / f32 / f64 / str / bytes / arr / map (keys as byte arrays).
pub struct AnyV<'c, 'g> {
	pub ctx: &'c Ctx<'g>,
}
impl<'de, 'c, 'g> DeserializeSeed<'de> for AnyV<'c, 'g> {
	type Value = J;
	fn deserialize<D: Deserializer<'de>>(self, d: D) -> Result<J, D::Error> {
		d.deserialize_any(self)
	}
}
impl<'de, 'c, 'g> Visitor<'de> for AnyV<'c, 'g> {
	type Value = J;
	fn expecting(&self, f: &mut fmt::Formatter) -> fmt::Result {
		write!(f, "CAPTURE-MISMATCH: anything")
	}
	fn visit_unit<E: de::Error>(self) -> Result<J, E> {
		Ok(json!({"t": "null"}))
	}
	fn visit_none<E: de::Error>(self) -> Result<J, E> {
		Ok(json!({"t": "null"}))
	}
	fn visit_bool<E: de::Error>(self, v: bool) -> Result<J, E> {
		Ok(json!({"t": "bool", "i": v as u8}))
	}
	fn visit_i32<E: de::Error>(self, v: i32) -> Result<J, E> {
		Ok(json!({"t": "int", "v": limbs_i64(v as i64)}))
	}
	fn visit_i64<E: de::Error>(self, v: i64) -> Result<J, E> {
		Ok(json!({"t": "long", "v": limbs_i64(v)}))
	}
	fn visit_u32<E: de::Error>(self, v: u32) -> Result<J, E> {
		Ok(json!({"t": "u32", "v": limbs_i64(v as i64)}))
	}
	fn visit_u64<E: de::Error>(self, v: u64) -> Result<J, E> {
		Ok(json!({"t": "u64", "v": limbs_i64(v as i64)}))
	}
	fn visit_f32<E: de::Error>(self, v: f32) -> Result<J, E> {
		Ok(json!({"t": "f32", "v": bytes_json(&v.to_le_bytes())}))
	}
	fn visit_f64<E: de::Error>(self, v: f64) -> Result<J, E> {
		Ok(json!({"t": "f64", "v": bytes_json(&v.to_le_bytes())}))
	}
	fn visit_str<E: de::Error>(self, v: &str) -> Result<J, E> {
		self.ctx.note_copied();
		Ok(json!({"t": "str", "v": bytes_json(v.as_bytes())}))
	}
	fn visit_borrowed_str<E: de::Error>(self, v: &'de str) -> Result<J, E> {
		self.ctx.note_borrowed(v.as_ptr(), v.len());
		Ok(json!({"t": "str", "v": bytes_json(v.as_bytes())}))
	}
	fn visit_bytes<E: de::Error>(self, v: &[u8]) -> Result<J, E> {
		self.ctx.note_copied();
		Ok(json!({"t": "bytes", "v": bytes_json(v)}))
	}
	fn visit_borrowed_bytes<E: de::Error>(self, v: &'de [u8]) -> Result<J, E> {
		self.ctx.note_borrowed(v.as_ptr(), v.len());
		Ok(json!({"t": "bytes", "v": bytes_json(v)}))
	}
	fn visit_seq<A: SeqAccess<'de>>(self, mut s: A) -> Result<J, A::Error> {
		let mut out = Vec::new();
		while let Some(v) = s.next_element_seed(AnyV { ctx: self.ctx })? {
			out.push(v);
		}
		Ok(json!({"t": "arr", "es": out}))
	}
	fn visit_map<A: MapAccess<'de>>(self, mut m: A) -> Result<J, A::Error> {
		let mut out = Vec::new();
		while let Some(k) = m.next_key_seed(KeySeed { ctx: self.ctx })? {
			let v = m.next_value_seed(AnyV { ctx: self.ctx })?;
			out.push(json!([k, v]));
		}
		Ok(json!({"t": "map", "kv": out}))
	}
}

/// A target that keeps nothing: visits everything through `deserialize_any` (sequences and maps element by
/// element) and folds what it sees into a number. It never allocates, so any allocation observed while it is
/// being deserialized was made by the deserializer itself.
pub struct SumSeed;
pub struct Sum(pub u64);
impl<'de> de::Deserialize<'de> for Sum {
	fn deserialize<D: Deserializer<'de>>(d: D) -> Result<Self, D::Error> {
		d.deserialize_any(SumV).map(Sum)
	}
}
impl<'de> DeserializeSeed<'de> for SumSeed {
	type Value = u64;
	fn deserialize<D: Deserializer<'de>>(self, d: D) -> Result<u64, D::Error> {
		d.deserialize_any(SumV)
	}
}
/// `Sum` reached through a particular serde entry point at the top level (what a typed target such as `f64`, `u128`, `String`,
/// `Option<_>` would call); below the top level everything goes through `deserialize_any` again.
pub struct SumTop(pub &'static str);
impl<'de> DeserializeSeed<'de> for SumTop {
	type Value = u64;
	fn deserialize<D: Deserializer<'de>>(self, d: D) -> Result<u64, D::Error> {
		match self.0 {
			"f64" => d.deserialize_f64(SumV),
			"f32" => d.deserialize_f32(SumV),
			"u64" => d.deserialize_u64(SumV),
			"i64" => d.deserialize_i64(SumV),
			"i32" => d.deserialize_i32(SumV),
			"u128" => d.deserialize_u128(SumV),
			"i128" => d.deserialize_i128(SumV),
			"str" => d.deserialize_str(SumV),
			"string" => d.deserialize_string(SumV),
			"bytes" => d.deserialize_bytes(SumV),
			"byte_buf" => d.deserialize_byte_buf(SumV),
			"option" => d.deserialize_option(SumV),
			"seq" => d.deserialize_seq(SumV),
			"map" => d.deserialize_map(SumV),
			"ignored" => d.deserialize_ignored_any(SumV),
			_ => d.deserialize_any(SumV),
		}
	}
}
struct SumV;
impl<'de> Visitor<'de> for SumV {
	type Value = u64;
	fn expecting(&self, f: &mut fmt::Formatter) -> fmt::Result {
		write!(f, "anything")
	}
	fn visit_none<E: de::Error>(self) -> Result<u64, E> {
		Ok(1)
	}
	fn visit_some<D: Deserializer<'de>>(self, d: D) -> Result<u64, D::Error> {
		d.deserialize_any(SumV)
	}
	fn visit_i128<E: de::Error>(self, v: i128) -> Result<u64, E> {
		Ok(v as u64)
	}
	fn visit_u128<E: de::Error>(self, v: u128) -> Result<u64, E> {
		Ok(v as u64)
	}
	fn visit_unit<E: de::Error>(self) -> Result<u64, E> {
		Ok(1)
	}
	fn visit_bool<E: de::Error>(self, v: bool) -> Result<u64, E> {
		Ok(2 + v as u64)
	}
	fn visit_i32<E: de::Error>(self, v: i32) -> Result<u64, E> {
		Ok(v as u64)
	}
	fn visit_i64<E: de::Error>(self, v: i64) -> Result<u64, E> {
		Ok(v as u64)
	}
	fn visit_u32<E: de::Error>(self, v: u32) -> Result<u64, E> {
		Ok(v as u64)
	}
	fn visit_u64<E: de::Error>(self, v: u64) -> Result<u64, E> {
		Ok(v)
	}
	fn visit_f32<E: de::Error>(self, v: f32) -> Result<u64, E> {
		Ok(v.to_bits() as u64)
	}
	fn visit_f64<E: de::Error>(self, v: f64) -> Result<u64, E> {
		Ok(v.to_bits())
	}
	fn visit_str<E: de::Error>(self, v: &str) -> Result<u64, E> {
		Ok(v.len() as u64 * 31)
	}
	fn visit_bytes<E: de::Error>(self, v: &[u8]) -> Result<u64, E> {
		Ok(v.len() as u64 * 37)
	}
	fn visit_seq<A: SeqAccess<'de>>(self, mut s: A) -> Result<u64, A::Error> {
		let mut acc = 7u64;
		while let Some(v) = s.next_element_seed(SumSeed)? {
			acc = acc.wrapping_mul(131).wrapping_add(v);
		}
		Ok(acc)
	}
	fn visit_map<A: MapAccess<'de>>(self, mut m: A) -> Result<u64, A::Error> {
		let mut acc = 11u64;
		while let Some(k) = m.next_key_seed(SumSeed)? {
			let v = m.next_value_seed(SumSeed)?;
			acc = acc.wrapping_mul(137).wrapping_add(k).wrapping_add(v);
		}
		Ok(acc)
	}
}

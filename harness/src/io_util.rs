//! I/O doubles: a `BufRead` with a refill schedule, sinks with a write schedule, a failing writer.

use std::io::{self, BufRead, IoSlice, Read, Write};

/// A `BufRead` over a byte vector that exposes the bytes in chunks following `sched`
/// (the last entry is repeated; an empty schedule means "everything at once").
/// Optionally fails with an `io::Error` at the n-th `fill_buf` call that needs a refill.
pub struct ChunkedReader {
	data: Vec<u8>,
	pos: usize,
	chunk_end: usize,
	sched: Vec<usize>,
	next_sched: usize,
	pub refills: usize,
	pub fill_calls: usize,
	pub fail_at_refill: Option<usize>,
	pub fail_kind: io::ErrorKind,
	pub failed: bool,
}

impl ChunkedReader {
	pub fn new(data: Vec<u8>, sched: Vec<usize>) -> Self {
		ChunkedReader {
			data,
			pos: 0,
			chunk_end: 0,
			sched,
			next_sched: 0,
			refills: 0,
			fill_calls: 0,
			fail_at_refill: None,
			fail_kind: io::ErrorKind::Other,
			failed: false,
		}
	}
	pub fn consumed(&self) -> usize {
		self.pos
	}
	pub fn remaining(&self) -> &[u8] {
		&self.data[self.pos..]
	}
}

impl BufRead for ChunkedReader {
	fn fill_buf(&mut self) -> io::Result<&[u8]> {
		self.fill_calls += 1;
		if self.pos == self.chunk_end && self.pos < self.data.len() {
			if let Some(n) = self.fail_at_refill {
				if self.refills == n && !self.failed {
					self.failed = true;
					return Err(io::Error::new(self.fail_kind, "injected read error"));
				}
			}
			self.refills += 1;
			let size = if self.sched.is_empty() {
				self.data.len()
			} else {
				let s = self.sched[self.next_sched.min(self.sched.len() - 1)];
				self.next_sched += 1;
				s.max(1)
			};
			self.chunk_end = (self.pos + size).min(self.data.len());
		}
		Ok(&self.data[self.pos..self.chunk_end])
	}
	fn consume(&mut self, amt: usize) {
		assert!(self.pos + amt <= self.chunk_end, "consume past the buffer");
		self.pos += amt;
	}
}

impl Read for ChunkedReader {
	fn read(&mut self, buf: &mut [u8]) -> io::Result<usize> {
		let avail = self.fill_buf()?;
		let n = avail.len().min(buf.len());
		buf[..n].copy_from_slice(&avail[..n]);
		self.consume(n);
		Ok(n)
	}
}

/// One step of a sink's schedule.
#[derive(Clone, Debug)]
pub enum SinkStep {
	/// accept at most k bytes of what is offered (k >= 1)
	Accept(usize),
	/// accept only (a prefix of) the first non-empty slice of a vectored write
	AcceptFirstSlice,
	Interrupted,
	/// return Ok(0)
	Zero,
	/// hard error
	Error,
	/// hard errors of other kinds (only `Interrupted` may be retried by a writer)
	ErrorKind(io::ErrorKind),
}

/// A `Write` whose every call follows `sched` (when exhausted: accept everything).
pub struct ScheduledSink {
	pub got: Vec<u8>,
	pub sched: Vec<SinkStep>,
	pub calls: usize,
	/// when the schedule is exhausted: repeat the last step instead of accepting everything
	pub repeat_last: bool,
	pub vectored_calls: usize,
	pub plain_calls: usize,
	pub flushes: usize,
	/// one entry per write call: (vectored?, bytes offered, accepted bytes or -1 interrupted / -2 hard error)
	pub log: Vec<(bool, usize, i64)>,
}

impl ScheduledSink {
	pub fn new(sched: Vec<SinkStep>, repeat_last: bool) -> Self {
		ScheduledSink { got: Vec::new(), sched, calls: 0, repeat_last, vectored_calls: 0, plain_calls: 0, flushes: 0, log: Vec::new() }
	}
	fn step(&mut self) -> SinkStep {
		let i = self.calls;
		self.calls += 1;
		if i < self.sched.len() {
			self.sched[i].clone()
		} else if self.repeat_last && !self.sched.is_empty() {
			self.sched[self.sched.len() - 1].clone()
		} else {
			SinkStep::Accept(usize::MAX)
		}
	}
}

impl Write for ScheduledSink {
	fn write(&mut self, buf: &[u8]) -> io::Result<usize> {
		self.plain_calls += 1;
		if buf.is_empty() {
			return Ok(0);
		}
		let r = match self.step() {
			SinkStep::Accept(k) => {
				let n = k.min(buf.len());
				self.got.extend_from_slice(&buf[..n]);
				Ok(n)
			}
			SinkStep::AcceptFirstSlice => {
				self.got.extend_from_slice(buf);
				Ok(buf.len())
			}
			SinkStep::Interrupted => Err(io::Error::new(io::ErrorKind::Interrupted, "injected interruption")),
			SinkStep::Zero => Ok(0),
			SinkStep::Error => Err(io::Error::new(io::ErrorKind::Other, "injected write error")),
			SinkStep::ErrorKind(k) => Err(io::Error::new(k, "injected write error (kind)")),
		};
		self.log.push((false, buf.len(), outcome_code(&r)));
		r
	}
	fn write_vectored(&mut self, bufs: &[IoSlice<'_>]) -> io::Result<usize> {
		self.vectored_calls += 1;
		let total: usize = bufs.iter().map(|b| b.len()).sum();
		if total == 0 {
			return Ok(0);
		}
		let r = match self.step() {
			SinkStep::Accept(k) => {
				let mut left = k.min(total);
				let n = left;
				for b in bufs {
					let take = left.min(b.len());
					self.got.extend_from_slice(&b[..take]);
					left -= take;
					if left == 0 {
						break;
					}
				}
				Ok(n)
			}
			SinkStep::AcceptFirstSlice => {
				let b = bufs.iter().find(|b| !b.is_empty()).unwrap();
				self.got.extend_from_slice(b);
				Ok(b.len())
			}
			SinkStep::Interrupted => Err(io::Error::new(io::ErrorKind::Interrupted, "injected interruption")),
			SinkStep::Zero => Ok(0),
			SinkStep::Error => Err(io::Error::new(io::ErrorKind::Other, "injected write error")),
			SinkStep::ErrorKind(k) => Err(io::Error::new(k, "injected write error (kind)")),
		};
		self.log.push((true, total, outcome_code(&r)));
		r
	}
	fn flush(&mut self) -> io::Result<()> {
		self.flushes += 1;
		Ok(())
	}
}

fn outcome_code(r: &io::Result<usize>) -> i64 {
	match r {
		Ok(n) => *n as i64,
		Err(e) if e.kind() == io::ErrorKind::Interrupted => -1,
		Err(_) => -2,
	}
}

/// Accepts `budget` bytes in total, then fails every call.
pub struct FailAfter {
	pub got: Vec<u8>,
	pub budget: usize,
}
impl Write for FailAfter {
	fn write(&mut self, buf: &[u8]) -> io::Result<usize> {
		if buf.is_empty() {
			return Ok(0);
		}
		if self.budget == 0 {
			return Err(io::Error::new(io::ErrorKind::Other, "injected write error (budget exhausted)"));
		}
		let n = self.budget.min(buf.len());
		self.got.extend_from_slice(&buf[..n]);
		self.budget -= n;
		Ok(n)
	}
	fn flush(&mut self) -> io::Result<()> {
		Ok(())
	}
}

//! Command dispatch.

use crate::capture::{Cap, Ctx};
use crate::io_util::{ChunkedReader, FailAfter};
use crate::presented::P;
use crate::schema_io::{bytes_json, bytes_of, schema_mut_from_json, schema_mut_to_json};
use serde::de::DeserializeSeed;
use serde_avro_fast::schema::{Schema, SchemaMut};
use serde_avro_fast::ser::SerializerConfig;
use serde_json::{json, Value as J};
use std::cell::RefCell;
use std::collections::HashMap;
use std::panic::{catch_unwind, AssertUnwindSafe};

thread_local! {
	pub static LAST_PANIC: RefCell<String> = RefCell::new(String::new());
}

pub struct Built {
	pub graph: SchemaMut,
	pub schema: Schema,
}

#[derive(Default)]
pub struct Session {
	schemas: HashMap<String, Result<&'static Built, String>>,
	configs: HashMap<String, SerializerConfig<'static>>,
}

impl Session {
	/// `spec` is either {"nodes":[...]} (builder path) or {"text":"..."} (parser path).
	pub fn schema(&mut self, spec: &J) -> Result<&'static Built, String> {
		let key = spec.to_string();
		if let Some(r) = self.schemas.get(&key) {
			return r.clone();
		}
		let built = build_schema(spec).map(|b| &*Box::leak(Box::new(b)));
		self.schemas.insert(key, built.clone());
		built
	}
}

fn build_schema(spec: &J) -> Result<Built, String> {
	if let Some(text) = spec.get("text").and_then(|t| t.as_str()) {
		let graph: SchemaMut = text.parse().map_err(|e| format!("parse: {e}"))?;
		let schema: Schema = graph.clone().freeze().map_err(|e| format!("freeze: {e}"))?;
		Ok(Built { graph, schema })
	} else {
		let mut graph = schema_mut_from_json(&spec["nodes"])?;
		if spec.get("via_edit").and_then(|b| b.as_bool()).unwrap_or(false) {
			// reach the same graph through a history: a different graph first (one field renamed), its fingerprint and JSON
			// asked for, then the edit through nodes_mut() that makes it the wanted graph, then freeze
			let at = graph.nodes().iter().position(|n| matches!(&n.type_, serde_avro_fast::schema::RegularType::Record(r) if !r.fields.is_empty()));
			if let Some(at) = at {
				let original = match &graph.nodes()[at].type_ {
					serde_avro_fast::schema::RegularType::Record(r) => r.fields[0].name.clone(),
					_ => unreachable!(),
				};
				if let serde_avro_fast::schema::RegularType::Record(r) = &mut graph.nodes_mut()[at].type_ {
					r.fields[0].name = format!("{original}_before_edit");
				}
				let _ = graph.canonical_form_rabin_fingerprint();
				// ... and through its own JSON text, so that the SchemaMut is a PARSED one (it then carries the text it was parsed from)
				if let Ok(text) = serde_json::to_string(&graph) {
					if let Ok(parsed) = text.parse::<SchemaMut>() {
						if parsed.nodes().len() == graph.nodes().len() {
							let _ = parsed.canonical_form_rabin_fingerprint();
							graph = parsed;
						}
					}
				}
				let at = graph.nodes().iter().position(|n| matches!(&n.type_, serde_avro_fast::schema::RegularType::Record(r) if !r.fields.is_empty() && r.fields[0].name.ends_with("_before_edit")));
				if let Some(at) = at {
					if let serde_avro_fast::schema::RegularType::Record(r) = &mut graph.nodes_mut()[at].type_ {
						r.fields[0].name = original;
					}
				}
			}
		}
		let schema = graph.clone().freeze().map_err(|e| format!("freeze: {e}"))?;
		Ok(Built { graph, schema })
	}
}

pub fn run(session: &mut Session, cmd: &J) -> J {
	let id = cmd.get("id").cloned().unwrap_or(J::Null);
	let res = catch_unwind(AssertUnwindSafe(|| dispatch(session, cmd)));
	let mut obs = match res {
		Ok(Ok(o)) => o,
		Ok(Err(e)) => json!({"res": "tool_error", "msg": e}),
		Err(_) => {
			let msg = LAST_PANIC.with(|c| c.borrow().clone());
			json!({"res": "panic", "msg": msg})
		}
	};
	obs["id"] = id;
	obs
}

fn dispatch(session: &mut Session, cmd: &J) -> Result<J, String> {
	match cmd["op"].as_str().ok_or("command without op")? {
		"ser" => op_ser(session, cmd),
		"de" => op_de(session, cmd),
		"ser_de" => op_ser_de(session, cmd),
		"de_sum" => op_de_sum(session, cmd),
		"writer" => crate::container::op_writer(session, cmd),
		"write_all" => crate::container::op_write_all(session, cmd),
		"walk" => crate::container::op_walk(cmd),
		"assemble" => crate::container::op_assemble(cmd),
		"reader" => crate::container::op_reader(cmd),
		"big_roundtrip" => crate::container::op_big_roundtrip(cmd),
		"rabin" => op_rabin(cmd),
		"schema_parse" => op_schema_parse(cmd),
		"schema_build" => op_schema_build(cmd),
		"so_ser" => op_so_ser(session, cmd),
		"so_de" => op_so_de(session, cmd),
		"schema_graph" => {
			let b = session.schema(&cmd["schema"]);
			Ok(match b {
				Ok(b) => json!({"res": "ok", "nodes": schema_mut_to_json(&b.graph)}),
				Err(e) => json!({"res": "err", "msg": e}),
			})
		}
		other => Err(format!("unknown op {other}")),
	}
}

fn ser_with(schema: &'static Built, cmd: &J, session: &mut Session) -> Result<J, String> {
	let pres = P::from_json(&cmd["pres"])?;
	let slow = cmd.get("slow_seq").and_then(|b| b.as_bool()).unwrap_or(false);
	let fail_after = cmd.get("fail_after").and_then(|n| n.as_u64());
	let cfg_name = cmd.get("cfg").and_then(|c| c.as_str());
	let mut fresh;
	let config: &mut SerializerConfig<'static> = match cfg_name {
		Some(name) => session.configs.entry(name.to_owned()).or_insert_with(|| SerializerConfig::new(&schema.schema)),
		None => {
			fresh = SerializerConfig::new(&schema.schema);
			&mut fresh
		}
	};
	if slow {
		config.allow_slow_sequence_to_bytes();
	}
	// the public entry point used (all three are the same serializer behind): to_datum (default), to_datum_vec,
	// SerializerState::with_owned_config + serializer() (an owned configuration: fresh configurations only)
	let via = cmd.get("via").and_then(|v| v.as_str()).unwrap_or("to_datum");
	if via == "owned" && cfg_name.is_none() && fail_after.is_none() {
		let mut owned = SerializerConfig::new(&schema.schema);
		if slow {
			owned.allow_slow_sequence_to_bytes();
		}
		let mut state = serde_avro_fast::ser::SerializerState::with_owned_config(Vec::new(), owned);
		let r = serde::Serialize::serialize(&pres, state.serializer());
		let w = state.into_writer();
		return Ok(match r {
			Ok(()) => json!({"res": "ok", "bytes": bytes_json(&w)}),
			Err(e) => json!({"res": "err", "msg": e.to_string()}),
		});
	}
	#[allow(unused_mut)]
	let mut out = match fail_after {
		None if via == "to_datum_vec" => match serde_avro_fast::to_datum_vec(&pres, config) {
			Ok(bytes) => json!({"res": "ok", "bytes": bytes_json(&bytes)}),
			Err(e) => json!({"res": "err", "msg": e.to_string()}),
		},
		None => match serde_avro_fast::to_datum(&pres, Vec::new(), config) {
			Ok(bytes) => json!({"res": "ok", "bytes": bytes_json(&bytes)}),
			Err(e) => json!({"res": "err", "msg": e.to_string()}),
		},
		Some(budget) => {
			let mut state = serde_avro_fast::ser::SerializerState::from_writer(
				FailAfter { got: Vec::new(), budget: budget as usize },
				config,
			);
			let r = serde::Serialize::serialize(&pres, state.serializer());
			let sink = state.into_writer();
			match r {
				Ok(()) => json!({"res": "ok", "bytes": bytes_json(&sink.got)}),
				Err(e) => json!({"res": "err", "msg": e.to_string(), "partial": bytes_json(&sink.got)}),
			}
		}
	};
	// hook: what the configuration keeps pooled after the call (lengths of the pooled buffers)
	#[cfg(ten0_serde_avro_fast_verif)]
	{
		let (a, b) = config.verif_pool_lens();
		out["pool"] = json!(a.into_iter().chain(b).collect::<Vec<usize>>());
	}
	Ok(out)
}

fn op_ser(session: &mut Session, cmd: &J) -> Result<J, String> {
	let schema = match session.schema(&cmd["schema"]) {
		Ok(s) => s,
		Err(e) => return Ok(json!({"res": "schema_err", "msg": e})),
	};
	ser_with(schema, cmd, session)
}

struct DeOpts {
	depth: Option<usize>,
	max_seq: Option<usize>,
	max_alloc: Option<usize>,
	ignore: Vec<Vec<usize>>,
	duration_mode: &'static str,
	enum_mode: &'static str,
	decimal_mode: &'static str,
	hints: &'static str,
	shape: Option<J>,
}

fn de_opts(cmd: &J) -> DeOpts {
	let lim = &cmd["limits"];
	let get = |k: &str| lim.get(k).and_then(|v| v.as_u64()).map(|v| v as usize);
	let ignore = cmd
		.get("ignore")
		.and_then(|i| i.as_array())
		.map(|paths| {
			paths
				.iter()
				.map(|p| p.as_array().map(|a| a.iter().map(|x| x.as_u64().unwrap_or(0) as usize).collect()).unwrap_or_default())
				.collect()
		})
		.unwrap_or_default();
	DeOpts {
		depth: get("depth"),
		max_seq: get("max_seq"),
		max_alloc: get("max_alloc"),
		ignore,
		duration_mode: match cmd.get("duration_mode").and_then(|m| m.as_str()) {
			Some("map") => "map",
			Some("seq") => "seq",
			_ => "bytes",
		},
		decimal_mode: match cmd.get("decimal_mode").and_then(|m| m.as_str()) {
			Some("u64") => "u64",
			Some("i64") => "i64",
			Some("u128") => "u128",
			Some("i128") => "i128",
			_ => "str",
		},
		enum_mode: match cmd.get("enum_mode").and_then(|m| m.as_str()) {
			Some("u64") => "u64",
			_ => "str",
		},
		hints: match cmd.get("hints").and_then(|m| m.as_str()) {
			Some("alt") => "alt",
			Some("alt2") => "alt2",
			Some("any") => "any",
			_ => "default",
		},
		shape: cmd.get("shape").cloned(),
	}
}

/// Decode `bytes` under `schema` through the reader described by cmd["reader"]; returns the observation.
fn de_bytes(schema: &'static Built, bytes: &[u8], cmd: &J) -> Result<J, String> {
	use serde_avro_fast::de::{read::ReaderRead, DeserializerConfig, DeserializerState};
	let opts = de_opts(cmd);
	let mut config = DeserializerConfig::new(&schema.schema);
	if let Some(d) = opts.depth {
		config.allowed_depth = d;
	}
	if let Some(m) = opts.max_seq {
		config.max_seq_size = m;
	}
	let reader = &cmd["reader"];
	let kind = reader.get("kind").and_then(|k| k.as_str()).unwrap_or("slice");
	let mut ctx = Ctx::new(&schema.graph);
	ctx.ignore = opts.ignore.clone();
	ctx.duration_mode = opts.duration_mode;
	ctx.enum_mode = opts.enum_mode;
	ctx.decimal_mode = opts.decimal_mode;
	ctx.hints = opts.hints;
	ctx.shape = opts.shape.clone();
	match kind {
		"slice" => {
			ctx.input = (bytes.as_ptr() as usize, bytes.as_ptr() as usize + bytes.len());
			let mut state = DeserializerState::with_config(serde_avro_fast::de::read::SliceRead::new(bytes), config);
			let r = Cap::root(&ctx).deserialize(state.deserializer());
			let rest = {
				use std::io::BufRead;
				let mut rd = state.into_reader();
				rd.fill_buf().map(|b| b.len()).unwrap_or(0)
			};
			let st = ctx.stats.borrow();
			Ok(match r {
				Ok(v) => json!({"res": "ok", "value": v, "consumed": bytes.len() - rest,
					"borrowed_in_input": st.borrowed_in_input, "borrowed_outside": st.borrowed_outside, "copied": st.copied}),
				Err(e) => de_err_obs(e.to_string()),
			})
		}
		"chunks" => {
			let sched: Vec<usize> = reader
				.get("sched")
				.and_then(|s| s.as_array())
				.map(|a| a.iter().map(|x| x.as_u64().unwrap_or(1) as usize).collect())
				.unwrap_or_default();
			let mut cr = ChunkedReader::new(bytes.to_vec(), sched);
			cr.fail_at_refill = reader.get("fail_at_refill").and_then(|x| x.as_u64()).map(|x| x as usize);
			let mut rr = ReaderRead::new(cr);
			if let Some(m) = opts.max_alloc {
				rr.max_alloc_size = m;
			}
			let mut state = DeserializerState::with_config(rr, config);
			let r = Cap::root(&ctx).deserialize(state.deserializer());
			let cr = state.into_reader().into_inner();
			let st = ctx.stats.borrow();
			Ok(match r {
				Ok(v) => json!({"res": "ok", "value": v, "consumed": cr.consumed(), "refills": cr.refills, "fill_calls": cr.fill_calls,
					"borrowed_in_input": st.borrowed_in_input, "borrowed_outside": st.borrowed_outside, "copied": st.copied}),
				Err(e) => {
					let mut o = de_err_obs(e.to_string());
					o["refills"] = json!(cr.refills);
					o["fill_calls"] = json!(cr.fill_calls);
					o
				}
			})
		}
		other => Err(format!("unknown reader kind {other}")),
	}
}

fn de_err_obs(msg: String) -> J {
	if msg.contains("CAPTURE-MISMATCH") {
		// the deserializer showed the target something the schema-directed capture did not expect:
		// reported as its own class so that it is never mistaken for a decoding error
		json!({"res": "mismatch", "msg": msg})
	} else {
		json!({"res": "err", "msg": msg})
	}
}

fn op_de(session: &mut Session, cmd: &J) -> Result<J, String> {
	let schema = match session.schema(&cmd["schema"]) {
		Ok(s) => s,
		Err(e) => return Ok(json!({"res": "schema_err", "msg": e})),
	};
	let bytes = bytes_of(&cmd["bytes"])?;
	de_bytes(schema, &bytes, cmd)
}

/// Serialize a presentation, then (if Ok) decode the produced bytes (followed by an optional sentinel
/// suffix) with the requested reader: one event of the C01 round-trip traces.
fn op_ser_de(session: &mut Session, cmd: &J) -> Result<J, String> {
	let schema = match session.schema(&cmd["schema"]) {
		Ok(s) => s,
		Err(e) => return Ok(json!({"res": "schema_err", "msg": e})),
	};
	let ser = ser_with(schema, cmd, session)?;
	if ser["res"] != "ok" {
		return Ok(json!({"res": ser["res"], "ser": ser}));
	}
	let mut bytes = bytes_of(&ser["bytes"])?;
	let suffix = cmd.get("suffix").map(bytes_of).transpose()?.unwrap_or_default();
	bytes.extend_from_slice(&suffix);
	let de = de_bytes(schema, &bytes, cmd)?;
	Ok(json!({"res": "ok", "bytes": ser["bytes"], "de": de}))
}

// ---------------------------------------------------------------------------------------------
// single-object encoding
// ---------------------------------------------------------------------------------------------
fn op_so_ser(session: &mut Session, cmd: &J) -> Result<J, String> {
	let schema = match session.schema(&cmd["schema"]) {
		Ok(s) => s,
		Err(e) => return Ok(json!({"res": "schema_err", "msg": e})),
	};
	let pres = P::from_json(&cmd["pres"])?;
	let mut config = SerializerConfig::new(&schema.schema);
	let via_writer = cmd.get("via_writer").and_then(|b| b.as_bool()).unwrap_or(false);
	let r = if let Some(sched) = cmd.get("sink") {
		// a sink that accepts what its schedule says (partial writes, interruptions): the bytes it got are what was written
		let mut sink = crate::io_util::ScheduledSink::new(crate::container::sink_steps(sched)?, cmd.get("repeat_last").and_then(|b| b.as_bool()).unwrap_or(false));
		let r = serde_avro_fast::to_single_object(&pres, &mut sink, &mut config).map(|_| ());
		if let Err(e) = &r {
			// what the sink had received when the call failed, and how many calls it saw
			return Ok(json!({"res": "err", "msg": e.to_string(), "got": bytes_json(&sink.got), "calls": sink.calls}));
		}
		r.map(|_| sink.got)
	} else if via_writer {
		serde_avro_fast::to_single_object(&pres, Vec::new(), &mut config)
	} else {
		serde_avro_fast::to_single_object_vec(&pres, &mut config)
	};
	Ok(match r {
		Ok(bytes) => json!({"res": "ok", "bytes": bytes_json(&bytes), "fp": bytes_json(schema.schema.rabin_fingerprint())}),
		Err(e) => json!({"res": "err", "msg": e.to_string()}),
	})
}

thread_local! {
	static CAPTURE_CTX: RefCell<Option<*const Ctx<'static>>> = RefCell::new(None);
}

/// A `Deserialize` type for APIs that take `T: Deserialize` rather than a seed: captures through the context
/// installed in `CAPTURE_CTX` for the duration of the call.
pub(crate) struct Captured(pub J);
impl<'de> serde::Deserialize<'de> for Captured {
	fn deserialize<D: serde::Deserializer<'de>>(d: D) -> Result<Self, D::Error> {
		let ptr = CAPTURE_CTX.with(|c| *c.borrow()).expect("capture context not installed");
		// SAFETY: the pointer is installed by `with_capture_ctx` below for a context that outlives the call
		let ctx: &Ctx<'_> = unsafe { &*ptr };
		Cap::root(ctx).deserialize(d).map(Captured)
	}
}

pub(crate) fn with_capture_ctx<T>(ctx: &Ctx<'_>, f: impl FnOnce() -> T) -> T {
	CAPTURE_CTX.with(|c| *c.borrow_mut() = Some(ctx as *const Ctx<'_> as *const Ctx<'static>));
	let r = f();
	CAPTURE_CTX.with(|c| *c.borrow_mut() = None);
	r
}

fn op_so_de(session: &mut Session, cmd: &J) -> Result<J, String> {
	let schema = match session.schema(&cmd["schema"]) {
		Ok(s) => s,
		Err(e) => return Ok(json!({"res": "schema_err", "msg": e})),
	};
	let bytes = bytes_of(&cmd["bytes"])?;
	let opts = de_opts(cmd);
	let mut ctx = Ctx::new(&schema.graph);
	ctx.hints = opts.hints;
	ctx.shape = opts.shape.clone();
	let reader = &cmd["reader"];
	let kind = reader.get("kind").and_then(|k| k.as_str()).unwrap_or("slice");
	Ok(match kind {
		"slice" => {
			ctx.input = (bytes.as_ptr() as usize, bytes.as_ptr() as usize + bytes.len());
			let r = with_capture_ctx(&ctx, || serde_avro_fast::from_single_object_slice::<Captured>(&bytes, &schema.schema));
			match r {
				Ok(v) => json!({"res": "ok", "value": v.0, "borrowed_outside": ctx.stats.borrow().borrowed_outside}),
				Err(e) => de_err_obs(e.to_string()),
			}
		}
		_ => {
			let sched: Vec<usize> = reader
				.get("sched")
				.and_then(|s| s.as_array())
				.map(|a| a.iter().map(|x| x.as_u64().unwrap_or(1) as usize).collect())
				.unwrap_or_default();
			let mut cr = ChunkedReader::new(bytes.clone(), sched);
			let r = with_capture_ctx(&ctx, || serde_avro_fast::from_single_object_reader::<_, CapturedOwned>(&mut cr, &schema.schema));
			match r {
				Ok(v) => json!({"res": "ok", "value": v.0, "consumed": cr.consumed()}),
				Err(e) => de_err_obs(e.to_string()),
			}
		}
	})
}

/// same, for `DeserializeOwned` bounds
pub(crate) struct CapturedOwned(pub J);
impl<'de> serde::Deserialize<'de> for CapturedOwned {
	fn deserialize<D: serde::Deserializer<'de>>(d: D) -> Result<Self, D::Error> {
		Captured::deserialize(d).map(|c| CapturedOwned(c.0))
	}
}

// ---------------------------------------------------------------------------------------------
// schemas: parsing, building, fingerprints, JSON regeneration
// ---------------------------------------------------------------------------------------------
fn pcf_of(g: &SchemaMut) -> J {
	#[cfg(ten0_serde_avro_fast_verif)]
	{
		match g.verif_canonical_form() {
			Ok(t) => json!({"has": true, "pcf": bytes_json(t.as_bytes())}),
			Err(_) => json!({"has": false, "pcf": []}),
		}
	}
	#[cfg(not(ten0_serde_avro_fast_verif))]
	{
		let _ = g;
		json!({"has": false, "pcf": []})
	}
}

fn op_schema_parse(cmd: &J) -> Result<J, String> {
	let text = cmd["text"].as_str().ok_or("schema_parse needs text")?;
	let graph: SchemaMut = match text.parse() {
		Ok(g) => g,
		Err(e) => return Ok(json!({"res": "err", "stage": "parse", "msg": e.to_string()})),
	};
	let fp_mut = graph.canonical_form_rabin_fingerprint().map_err(|e| format!("fingerprint of a parsed schema failed: {e}"));
	let pcf = pcf_of(&graph);
	let nodes = schema_mut_to_json(&graph);
	let schema: Schema = match graph.freeze() {
		Ok(s) => s,
		Err(e) => return Ok(json!({"res": "err", "stage": "freeze", "msg": e.to_string()})),
	};
	let json_text = schema.json().to_owned();
	let json_nodes = match json_text.parse::<SchemaMut>() {
		Ok(g) => schema_mut_to_json(&g),
		Err(e) => json!({"reparse_err": e.to_string()}),
	};
	// the same document through `Schema: FromStr`
	let direct: Result<Schema, _> = text.parse::<Schema>();
	Ok(json!({"res": "ok", "nodes": nodes, "fp": bytes_json(schema.rabin_fingerprint()),
		"fp_mut": fp_mut.map(|f| bytes_json(&f)).unwrap_or(J::Null), "has_pcf": pcf["has"], "pcf": pcf["pcf"],
		"json": json_text, "json_nodes": json_nodes,
		"direct_json_same": direct.as_ref().map(|s| s.json() == json_text).unwrap_or(false),
		"direct_fp": direct.map(|s| bytes_json(s.rabin_fingerprint())).unwrap_or(J::Null)}))
}

fn op_schema_build(cmd: &J) -> Result<J, String> {
	let mut out = json!({"res": "ok"});
	let graph = match cmd.get("text").and_then(|t| t.as_str()) {
		None => schema_mut_from_json(&cmd["nodes"])?,
		Some(text) => {
			// a parsed schema, then edited through nodes_mut()
			let mut g: SchemaMut = text.parse().map_err(|e| format!("edit scenario: the document does not parse: {e}"))?;
			let edit = cmd.get("edit").and_then(|e| e.as_str()).unwrap_or("touch");
			if cmd.get("fingerprint_first").and_then(|b| b.as_bool()).unwrap_or(false) {
				let _ = g.canonical_form_rabin_fingerprint();
			}
			{
				use serde_avro_fast::schema::RegularType;
				let nodes = g.nodes_mut();
				match edit {
					"rename_field" => {
						for n in nodes.iter_mut() {
							if let serde_avro_fast::schema::RegularType::Record(r) = &mut n.type_ {
								if let Some(f) = r.fields.first_mut() {
									f.name.push_str("_renamed");
									break;
								}
							}
						}
					}
					"add_symbol" => {
						for n in nodes.iter_mut() {
							if let RegularType::Enum(e) = &mut n.type_ {
								e.symbols.push("ADDED".to_owned());
								break;
							}
						}
					}
					"swap_fields" => {
						for n in nodes.iter_mut() {
							if let serde_avro_fast::schema::RegularType::Record(r) = &mut n.type_ {
								if r.fields.len() >= 2 {
									r.fields.swap(0, 1);
									break;
								}
							}
						}
					}
					_ => {}
				}
			}
			out["nodes_after"] = schema_mut_to_json(&g);
			g
		}
	};
	let what = cmd.get("what").and_then(|w| w.as_str()).unwrap_or("all");
	if what == "all" || what == "fp" {
		match graph.canonical_form_rabin_fingerprint() {
			Ok(f) => {
				out["fp_res"] = json!("ok");
				out["fp"] = bytes_json(&f);
			}
			Err(_) => {
				out["fp_res"] = json!("err");
				out["fp"] = json!([]);
			}
		}
	}
	if what == "all" || what == "json" {
		match serde_json::to_string(&graph) {
			Ok(t) => {
				out["json_res"] = json!("ok");
				out["json"] = json!(t);
			}
			Err(_) => out["json_res"] = json!("err"),
		}
	}
	if what == "all" || what == "freeze" {
		// the accessors of every name in the graph (whatever text it was built from) must return
		let mut name_probes = 0usize;
		for node in graph.nodes() {
			use serde_avro_fast::schema::RegularType as RT;
			let name = match &node.type_ {
				RT::Record(r) => Some(&r.name),
				RT::Enum(e) => Some(&e.name),
				RT::Fixed(f) => Some(&f.name),
				_ => None,
			};
			if let Some(n) = name {
				name_probes += n.name().len() + n.namespace().map_or(0, str::len) + n.fully_qualified_name().len() + format!("{:?}", n).len();
			}
		}
		out["name_probes"] = json!(name_probes);
		match graph.clone().freeze() {
			Err(_) => {
				out["freeze"] = json!("err");
			}
			Ok(schema) => {
				out["freeze"] = json!("ok");
				out["frozen_fp"] = bytes_json(schema.rabin_fingerprint());
				let text = schema.json().to_owned();
				match text.parse::<SchemaMut>() {
					Ok(g2) => {
						out["reparse"] = json!("ok");
						out["json_nodes"] = schema_mut_to_json(&g2);
						out["json_fp"] = match g2.canonical_form_rabin_fingerprint() {
							Ok(f) => bytes_json(&f),
							Err(_) => json!([]),
						};
					}
					Err(e) => {
						out["reparse"] = json!("err");
						out["reparse_msg"] = json!(e.to_string());
					}
				}
				out["frozen_json"] = json!(text);
				// the frozen schema must be usable: Debug, a serialization attempt, decoding attempts on short inputs
				let _ = format!("{:?}", schema);
				let mut cfg = SerializerConfig::new(&schema);
				let _ = serde_avro_fast::to_datum(&P::Unit, Vec::new(), &mut cfg);
				let _ = serde_avro_fast::to_datum(&P::I64(1), Vec::new(), &mut cfg);
				// records: struct presentations over the schema's own field names in several orders, also with a name given twice
				// (a record whose schema itself repeats a field name can be built and frozen)
				for node in graph.nodes() {
					if let serde_avro_fast::schema::RegularType::Record(rec) = &node.type_ {
						let names: Vec<&'static str> = rec.fields.iter().map(|f| &*Box::leak(f.name.clone().into_boxed_str())).collect();
						if names.is_empty() || names.len() > 6 {
							continue;
						}
						let mut orders: Vec<Vec<&'static str>> = vec![names.clone(), names.iter().rev().copied().collect()];
						let mut dup = vec![names[0]];
						dup.extend(names.iter().copied());
						orders.push(dup);
						let mut dup2: Vec<&'static str> = names.iter().copied().collect();
						dup2.insert(1.min(dup2.len()), names[names.len() - 1]);
						orders.push(dup2);
						let mut dedup: Vec<&'static str> = Vec::new();
						for n in &names {
							if !dedup.contains(n) {
								dedup.push(*n);
							}
						}
						orders.push(dedup);
						for o in orders {
							for val in [P::I64(1), P::Unit] {
								let p = P::Struct("Probe", o.len(), o.iter().map(|n| (*n, val.clone())).collect());
								let _ = serde_avro_fast::to_datum(&p, Vec::new(), &mut cfg);
							}
						}
					}
				}
				let mut probes = 0;
				for input in [&[][..], &[0][..], &[2, 2, 2, 2, 2, 2, 2, 2][..], &[1, 1, 1, 1][..], &[0, 0, 0, 0, 0, 0][..], &[4, 0, 2, 0, 2, 0, 0][..]] {
					let mut dcfg = serde_avro_fast::de::DeserializerConfig::new(&schema);
					dcfg.max_seq_size = 100;
					let mut st = serde_avro_fast::de::DeserializerState::with_config(serde_avro_fast::de::read::SliceRead::new(input), dcfg);
					let _: Result<serde::de::IgnoredAny, _> = serde::Deserialize::deserialize(st.deserializer());
					let r: Result<serde_json::Value, _> = serde_avro_fast::from_datum_slice(input, &schema);
					drop(r);
					probes += 1;
				}
				out["probes"] = json!(probes);
			}
		}
	}
	Ok(out)
}

fn op_rabin(cmd: &J) -> Result<J, String> {
	#[cfg(ten0_serde_avro_fast_verif)]
	{
		let limbs = cmd["state"].as_array().ok_or("rabin state")?;
		let mut st: u64 = 0;
		for (i, l) in limbs.iter().enumerate() {
			st |= l.as_u64().ok_or("limb")? << (16 * i);
		}
		let bytes = bytes_of(&cmd["bytes"])?;
		let r = serde_avro_fast::schema::verif_rabin_update(st, &bytes);
		Ok(json!({"res": "ok", "state": [r & 0xffff, (r >> 16) & 0xffff, (r >> 32) & 0xffff, (r >> 48) & 0xffff]}))
	}
	#[cfg(not(ten0_serde_avro_fast_verif))]
	{
		let _ = cmd;
		Ok(json!({"res": "unavailable"}))
	}
}

/// Decode with the non-allocating `Sum` target, measuring allocations, buffer refills and wall time.
fn op_de_sum(session: &mut Session, cmd: &J) -> Result<J, String> {
	use crate::capture::SumTop;
	use serde_avro_fast::de::{read::ReaderRead, DeserializerConfig, DeserializerState};
	use std::sync::atomic::Ordering;
	// "top_hint": the serde entry point used for the top-level value (default: deserialize_any)
	const TOPS: [&str; 16] = ["any", "f64", "f32", "u64", "i64", "i32", "u128", "i128", "str", "string", "bytes", "byte_buf", "option", "seq", "map", "ignored"];
	let top: &'static str = cmd.get("top_hint").and_then(|t| t.as_str()).and_then(|t| TOPS.iter().find(|x| **x == t).copied()).unwrap_or("any");
	let schema = match session.schema(&cmd["schema"]) {
		Ok(s) => s,
		Err(e) => return Ok(json!({"res": "schema_err", "msg": e})),
	};
	let bytes = bytes_of(&cmd["bytes"])?;
	let opts = de_opts(cmd);
	let mut config = DeserializerConfig::new(&schema.schema);
	if let Some(d) = opts.depth {
		config.allowed_depth = d;
	}
	if let Some(m) = opts.max_seq {
		config.max_seq_size = m;
	}
	let reader = &cmd["reader"];
	let kind = reader.get("kind").and_then(|k| k.as_str()).unwrap_or("slice");
	let mut prebuilt = if kind != "slice" {
		let sched: Vec<usize> = reader
			.get("sched")
			.and_then(|s| s.as_array())
			.map(|a| a.iter().map(|x| x.as_u64().unwrap_or(1) as usize).collect())
			.unwrap_or_default();
		Some(ChunkedReader::new(bytes.clone(), sched))
	} else {
		None
	};
	let t0 = std::time::Instant::now();
	let (a0, b0) = (crate::ALLOCS.load(Ordering::Relaxed), crate::ALLOC_BYTES.load(Ordering::Relaxed));
	crate::PEAK_BYTES.store(crate::LIVE_BYTES.load(Ordering::Relaxed), Ordering::Relaxed);
	let live0 = crate::LIVE_BYTES.load(Ordering::Relaxed);
	let (res, consumed, fill_calls): (Result<u64, String>, usize, usize) = match kind {
		"slice" => {
			let mut state = DeserializerState::with_config(serde_avro_fast::de::read::SliceRead::new(&bytes), config);
			let r = SumTop(top).deserialize(state.deserializer()).map_err(|e| e.to_string());
			let rest = {
				use std::io::BufRead;
				let mut rd = state.into_reader();
				rd.fill_buf().map(|b| b.len()).unwrap_or(0)
			};
			(r, bytes.len() - rest, 0)
		}
		_ => {
			let cr = prebuilt.take().unwrap();
			let mut rr = ReaderRead::new(cr);
			if let Some(m) = opts.max_alloc {
				rr.max_alloc_size = m;
			}
			let mut state = DeserializerState::with_config(rr, config);
			let r = SumTop(top).deserialize(state.deserializer()).map_err(|e| e.to_string());
			let cr = state.into_reader().into_inner();
			(r, cr.consumed(), cr.fill_calls)
		}
	};
	let (a1, b1) = (crate::ALLOCS.load(Ordering::Relaxed), crate::ALLOC_BYTES.load(Ordering::Relaxed));
	let peak = crate::PEAK_BYTES.load(Ordering::Relaxed).saturating_sub(live0);
	let ms = t0.elapsed().as_millis() as u64;
	// (for the reader kind the clone of the input made above is part of the measured window: subtracted by the driver)
	Ok(match res {
		Ok(sum) => json!({"res": "ok", "sum": sum.to_string(), "consumed": consumed, "allocs": a1 - a0, "alloc_bytes": b1 - b0, "peak": peak, "fill_calls": fill_calls, "ms": ms}),
		Err(e) => json!({"res": "err", "msg": e, "allocs": a1 - a0, "alloc_bytes": b1 - b0, "peak": peak, "fill_calls": fill_calls, "ms": ms}),
	})
}

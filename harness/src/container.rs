//! Object-container-file ops: drive the real Writer / Reader, and project real files into events
//! (walk the blocks, de-frame payloads by calling the codec libraries directly - never through serde_avro_fast).

use crate::capture::{Cap, Ctx};
use crate::io_util::{ChunkedReader, ScheduledSink, SinkStep};
use crate::ops::Session;
use crate::presented::P;
use crate::schema_io::{bytes_json, bytes_of, text_of};
use serde_avro_fast::object_container_file_encoding::{Compression, CompressionLevel, Reader, WriterBuilder};
use serde_avro_fast::schema::SchemaMut;
use serde_avro_fast::ser::SerializerConfig;
use serde_json::{json, Value as J};
use std::collections::BTreeMap;
use std::io::{Read, Write};
use std::panic::{catch_unwind, AssertUnwindSafe};

pub fn compression_of(codec: &str, level: Option<u8>) -> Result<Compression, String> {
	let lvl = match level {
		None => CompressionLevel::default(),
		Some(l) => CompressionLevel::new(l),
	};
	Ok(match codec {
		"null" => Compression::Null,
		"deflate" => Compression::Deflate { level: lvl },
		"bzip2" => Compression::Bzip2 { level: lvl },
		"snappy" => Compression::Snappy,
		"xz" => Compression::Xz { level: lvl },
		"zstandard" => Compression::Zstandard { level: lvl },
		other => return Err(format!("unknown codec {other}")),
	})
}

// ---------------------------------------------------------------------------------------------
// codec libraries, called directly
// ---------------------------------------------------------------------------------------------
pub fn frame(codec: &str, raw: &[u8]) -> Result<Vec<u8>, String> {
	Ok(match codec {
		"null" => raw.to_vec(),
		"deflate" => {
			let mut e = flate2::write::DeflateEncoder::new(Vec::new(), flate2::Compression::default());
			e.write_all(raw).map_err(|e| e.to_string())?;
			e.finish().map_err(|e| e.to_string())?
		}
		"bzip2" => {
			let mut e = bzip2::write::BzEncoder::new(Vec::new(), bzip2::Compression::default());
			e.write_all(raw).map_err(|e| e.to_string())?;
			e.finish().map_err(|e| e.to_string())?
		}
		"snappy" => {
			let mut v = snap::raw::Encoder::new().compress_vec(raw).map_err(|e| e.to_string())?;
			v.extend_from_slice(&crc32fast::hash(raw).to_be_bytes());
			v
		}
		"xz" => {
			let mut e = xz2::write::XzEncoder::new(Vec::new(), 6);
			e.write_all(raw).map_err(|e| e.to_string())?;
			e.finish().map_err(|e| e.to_string())?
		}
		"zstandard" => zstd::encode_all(raw, 0).map_err(|e| e.to_string())?,
		other => return Err(format!("unknown codec {other}")),
	})
}

/// -> (raw, trailer bytes if the codec has one)
pub fn deframe(codec: &str, payload: &[u8]) -> Result<(Vec<u8>, Vec<u8>), String> {
	let mut out = Vec::new();
	match codec {
		"null" => out.extend_from_slice(payload),
		"deflate" => {
			// raw RFC 1951 stream: a zlib or gzip header makes this fail
			let mut d = flate2::read::DeflateDecoder::new(payload);
			d.read_to_end(&mut out).map_err(|e| format!("inflate: {e}"))?;
			if (d.total_in() as usize) != payload.len() {
				return Err(format!("inflate: stream ends after {} of {} bytes", d.total_in(), payload.len()));
			}
		}
		"bzip2" => {
			bzip2::read::BzDecoder::new(payload).read_to_end(&mut out).map_err(|e| format!("bunzip2: {e}"))?;
		}
		"snappy" => {
			if payload.len() < 4 {
				return Err("snappy payload shorter than its CRC".into());
			}
			let (body, trailer) = payload.split_at(payload.len() - 4);
			out = snap::raw::Decoder::new().decompress_vec(body).map_err(|e| format!("unsnap: {e}"))?;
			return Ok((out, trailer.to_vec()));
		}
		"xz" => {
			xz2::read::XzDecoder::new(payload).read_to_end(&mut out).map_err(|e| format!("unxz: {e}"))?;
		}
		"zstandard" => {
			out = zstd::decode_all(payload).map_err(|e| format!("unzstd: {e}"))?;
		}
		other => return Err(format!("unknown codec {other}")),
	}
	Ok((out, Vec::new()))
}

fn read_varint(b: &[u8], pos: &mut usize) -> Option<i64> {
	let mut result: u64 = 0;
	let mut shift = 0;
	loop {
		let byte = *b.get(*pos)?;
		*pos += 1;
		result |= ((byte & 0x7f) as u64) << shift;
		if byte & 0x80 == 0 {
			break;
		}
		shift += 7;
		if shift > 63 {
			return None;
		}
	}
	Some(((result >> 1) as i64) ^ -((result & 1) as i64))
}

fn put_varint(out: &mut Vec<u8>, n: i64) {
	let mut u = ((n << 1) ^ (n >> 63)) as u64;
	while u >= 0x80 {
		out.push((u as u8) | 0x80);
		u >>= 7;
	}
	out.push(u as u8);
}

/// Walk the blocks of `file` starting at `start` (the first byte after the header's sync marker).
/// Returns the projection of each block and the offset where walking stopped (== file.len() when all of it parsed).
pub fn walk_blocks(file: &[u8], start: usize, codec: &str) -> (Vec<J>, usize) {
	let mut blocks = Vec::new();
	let mut pos = start;
	while pos < file.len() {
		let begin = pos;
		let mut p = pos;
		let count = match read_varint(file, &mut p) {
			Some(c) => c,
			None => break,
		};
		let size = match read_varint(file, &mut p) {
			Some(s) if s >= 0 => s as usize,
			_ => break,
		};
		if p + size + 16 > file.len() {
			break;
		}
		let payload = &file[p..p + size];
		let sync = &file[p + size..p + size + 16];
		let mut o = json!({"begin": begin, "end": p + size + 16, "count": count, "size": size, "sync": bytes_json(sync)});
		match deframe(codec, payload) {
			Ok((raw, trailer)) => {
				o["raw"] = bytes_json(&raw);
				o["trailer"] = bytes_json(&trailer);
			}
			Err(e) => {
				o["deframe_err"] = json!(e);
			}
		}
		blocks.push(o);
		pos = p + size + 16;
	}
	(blocks, pos)
}

// ---------------------------------------------------------------------------------------------
// writer
// ---------------------------------------------------------------------------------------------
pub fn sink_steps(j: &J) -> Result<Vec<SinkStep>, String> {
	let mut v = Vec::new();
	for s in j.as_array().ok_or("sink steps must be an array")? {
		v.push(match s {
			J::String(t) => match t.as_str() {
				"interrupted" => SinkStep::Interrupted,
				"zero" => SinkStep::Zero,
				"error" => SinkStep::Error,
				"would_block" => SinkStep::ErrorKind(std::io::ErrorKind::WouldBlock),
				"timed_out" => SinkStep::ErrorKind(std::io::ErrorKind::TimedOut),
				"broken_pipe" => SinkStep::ErrorKind(std::io::ErrorKind::BrokenPipe),
				"unexpected_eof" => SinkStep::ErrorKind(std::io::ErrorKind::UnexpectedEof),
				"first_slice" => SinkStep::AcceptFirstSlice,
				other => return Err(format!("unknown sink step {other}")),
			},
			J::Number(n) => SinkStep::Accept(n.as_u64().ok_or("accept k")? as usize),
			other => return Err(format!("bad sink step {other}")),
		});
	}
	Ok(v)
}

/// `write_all`: the one-call entry point (default block size, a random sync marker): the whole file
pub fn op_write_all(session: &mut Session, cmd: &J) -> Result<J, String> {
	let schema = match session.schema(&cmd["schema"]) {
		Ok(s) => s,
		Err(e) => return Ok(json!({"res": "schema_err", "msg": e})),
	};
	let codec = cmd["codec"].as_str().unwrap_or("null");
	let level = cmd.get("level").and_then(|l| l.as_u64()).map(|l| l as u8);
	let compression = compression_of(codec, level)?;
	let ps: Vec<P> = cmd["pres_list"].as_array().ok_or("pres_list")?.iter().map(P::from_json).collect::<Result<_, _>>()?;
	let r = catch_unwind(AssertUnwindSafe(|| {
		serde_avro_fast::object_container_file_encoding::write_all(&schema.schema, compression, Vec::new(), ps.iter())
	}));
	Ok(match r {
		Err(_) => json!({"res": "panic", "msg": crate::ops::LAST_PANIC.with(|c| c.borrow().clone())}),
		Ok(Err(e)) => json!({"res": "err", "msg": e.to_string()}),
		Ok(Ok(sink)) => json!({"res": "ok", "sink": bytes_json(&sink)}),
	})
}

pub fn op_writer(session: &mut Session, cmd: &J) -> Result<J, String> {
	let schema = match session.schema(&cmd["schema"]) {
		Ok(s) => s,
		Err(e) => return Ok(json!({"res": "schema_err", "msg": e})),
	};
	let codec = cmd["codec"].as_str().unwrap_or("null");
	let level = cmd.get("level").and_then(|l| l.as_u64()).map(|l| l as u8);
	let compression = compression_of(codec, level)?;
	let approx = cmd.get("approx").and_then(|a| a.as_u64()).unwrap_or(64 * 1024) as u32;
	let sync: [u8; 16] = match cmd.get("sync") {
		Some(s) => bytes_of(s)?.try_into().map_err(|_| "sync must be 16 bytes")?,
		None => [7; 16],
	};
	let mut meta: BTreeMap<String, serde_bytes::ByteBuf> = BTreeMap::new();
	if let Some(m) = cmd.get("meta").and_then(|m| m.as_array()) {
		for kv in m {
			meta.insert(text_of(&kv[0])?, serde_bytes::ByteBuf::from(bytes_of(&kv[1])?));
		}
	}
	let (steps, repeat_last) = match cmd.get("sink") {
		Some(s) if s.get("kind").and_then(|k| k.as_str()) == Some("sched") => {
			(sink_steps(&s["steps"])?, s.get("repeat_last").and_then(|b| b.as_bool()).unwrap_or(false))
		}
		_ => (vec![], false),
	};
	let mut sink = ScheduledSink::new(steps, repeat_last);
	let mut config = SerializerConfig::new(&schema.schema);
	let mut out_steps: Vec<J> = Vec::new();
	let build_res;
	{
		// "owned_config": WriterBuilder::with_owned_config (the writer owns its configuration) instead of borrowing one
		let builder = if cmd.get("owned_config").and_then(|b| b.as_bool()).unwrap_or(false) {
			WriterBuilder::with_owned_config(SerializerConfig::new(&schema.schema))
		} else {
			WriterBuilder::new(&mut config)
		};
		let builder = builder.compression(compression).approx_block_size(approx);
		// "random_sync": the marker is left to the library (randomly generated, the default)
		let builder = if cmd.get("random_sync").and_then(|b| b.as_bool()).unwrap_or(false) { builder } else { builder.sync_marker(sync) };
		let built = catch_unwind(AssertUnwindSafe(|| {
			if meta.is_empty() {
				builder.build(&mut sink)
			} else {
				builder.build_with_user_metadata(&mut sink, &meta)
			}
		}));
		let mut writer = match built {
			Err(_) => {
				return Ok(json!({"res": "ok", "build": {"res": "panic", "msg": crate::ops::LAST_PANIC.with(|c| c.borrow().clone())}, "steps": []}))
			}
			Ok(Err(e)) => {
				drop(e.to_string());
				None
			}
			Ok(Ok(w)) => Some(w),
		};
		build_res = match &writer {
			Some(w) => json!({"res": "ok", "sink_len": w.inner().got.len()}),
			None => json!({"res": "err"}),
		};
		let mut last_len = writer.as_ref().map(|w| w.inner().got.len()).unwrap_or(0);
		if writer.is_some() {
			for op in cmd["ops"].as_array().ok_or("ops must be an array")? {
				let kind = op["op"].as_str().ok_or("op.op")?;
				if writer.is_none() {
					out_steps.push(json!({"res": "skipped"}));
					continue;
				}
				let r = catch_unwind(AssertUnwindSafe(|| -> Result<Result<Option<usize>, String>, String> {
					match kind {
						"serialize" => {
							let p = P::from_json(&op["pres"])?;
							Ok(writer.as_mut().unwrap().serialize(&p).map(|_| None).map_err(|e| e.to_string()))
						}
						"push" => {
							let b = bytes_of(&op["bytes"])?;
							let n = op["n"].as_u64().ok_or("push n")?;
							Ok(writer.as_mut().unwrap().push_serialized(&b, n).map(|_| None).map_err(|e| e.to_string()))
						}
						"serialize_all" => {
							let ps: Vec<P> = op["pres_list"].as_array().ok_or("pres_list")?.iter().map(P::from_json).collect::<Result<_, _>>()?;
							Ok(writer.as_mut().unwrap().serialize_all(ps.iter()).map(|_| None).map_err(|e| e.to_string()))
						}
						"finish" => Ok(writer.as_mut().unwrap().finish_block().map(|_| None).map_err(|e| e.to_string())),
						"into_inner" => {
							let w = writer.take().unwrap();
							Ok(w.into_inner().map(|s| Some(s.got.len())).map_err(|e| e.to_string()))
						}
						"drop" => {
							drop(writer.take());
							Ok(Ok(Some(usize::MAX)))
						}
						// the writer is dropped by an unwinding panic (the sink outlives it): Drop must still deliver the open block
						"drop_panicking" => {
							let w = writer.take().unwrap();
							let _ = catch_unwind(AssertUnwindSafe(move || {
								let _w = w;
								panic!("unwinding with a live writer");
							}));
							Ok(Ok(Some(usize::MAX)))
						}
						other => Err(format!("unknown writer op {other}")),
					}
				}));
				let (res, msg, closed_len) = match r {
					Err(_) => {
						// a panic (possibly in Drop while unwinding the writer): the writer is gone
						let _ = catch_unwind(AssertUnwindSafe(|| drop(writer.take())));
						("panic", crate::ops::LAST_PANIC.with(|c| c.borrow().clone()), None)
					}
					Ok(Err(tool)) => return Err(tool),
					Ok(Ok(Err(e))) => ("err", e, None),
					Ok(Ok(Ok(cl))) => ("ok", String::new(), cl),
				};
				let len_now = match (&writer, closed_len) {
					(Some(w), _) => w.inner().got.len(),
					(None, _) => usize::MAX, // filled in below from the sink itself
				};
				#[allow(unused_mut)]
				let mut step = json!({"res": res, "msg": msg, "sink_len": if len_now == usize::MAX { J::Null } else { json!(len_now) }});
				// hook: the writer's own view after the call (objects in the open block, a finished block awaiting its flush, bytes buffered)
				#[cfg(ten0_serde_avro_fast_verif)]
				if let Some(w) = &writer {
					let (n, pending, buf) = w.verif_state();
					step["hs"] = json!([n, pending as u8, buf]);
				}
				out_steps.push(step);
				if len_now != usize::MAX {
					last_len = len_now;
				}
			}
		}
		let _ = last_len;
		// dropping a still-open writer at the end of the scenario is part of the scenario ("drop")
		let r = catch_unwind(AssertUnwindSafe(|| drop(writer.take())));
		if r.is_err() {
			out_steps.push(json!({"res": "panic", "msg": crate::ops::LAST_PANIC.with(|c| c.borrow().clone()), "implicit_drop": true}));
		}
	}
	// steps that closed the writer: their sink length is the final one
	let final_len = sink.got.len();
	for s in out_steps.iter_mut() {
		if s["sink_len"].is_null() && s["res"] != "skipped" {
			s["sink_len"] = json!(final_len);
		}
	}
	// the graph the schema's own JSON text denotes (what a reader of the file will work with)
	let json_nodes = match schema.schema.json().parse::<SchemaMut>() {
		Ok(g) => crate::schema_io::schema_mut_to_json(&g),
		Err(_) => J::Array(vec![]),
	};
	Ok(json!({"res": "ok", "build": build_res, "steps": out_steps, "sink": bytes_json(&sink.got),
		"schema_json": bytes_json(schema.schema.json().as_bytes()), "schema_json_nodes": json_nodes,
		"sink_calls": sink.calls, "vectored_calls": sink.vectored_calls, "plain_calls": sink.plain_calls,
		"sink_log": sink.log.iter().map(|(v, o, k)| json!([*v as u8, o, k])).collect::<Vec<_>>()}))
}

/// Project a container file: header bytes are left to TLC (ParseHeader); blocks are walked and de-framed here.
pub fn op_walk(cmd: &J) -> Result<J, String> {
	let file = bytes_of(&cmd["bytes"])?;
	let start = cmd["start"].as_u64().ok_or("walk start")? as usize;
	let codec = cmd["codec"].as_str().unwrap_or("null");
	let (blocks, stop) = walk_blocks(&file, start, codec);
	Ok(json!({"res": "ok", "blocks": blocks, "stop": stop, "len": file.len()}))
}

/// Assemble a file: header bytes (from the specification's BuildFile) + framed blocks.
pub fn op_assemble(cmd: &J) -> Result<J, String> {
	let mut out = bytes_of(&cmd["header"])?;
	let sync = bytes_of(&cmd["sync"])?;
	let codec = cmd["codec"].as_str().unwrap_or("null");
	for b in cmd["blocks"].as_array().ok_or("blocks")? {
		let raw = bytes_of(&b["raw"])?;
		let framed = frame(codec, &raw)?;
		put_varint(&mut out, b["count"].as_i64().ok_or("count")?);
		put_varint(&mut out, framed.len() as i64);
		out.extend_from_slice(&framed);
		out.extend_from_slice(&sync);
	}
	Ok(json!({"res": "ok", "bytes": bytes_json(&out)}))
}

// ---------------------------------------------------------------------------------------------
// reader
// ---------------------------------------------------------------------------------------------
type UserMeta = BTreeMap<String, serde_bytes::ByteBuf>;

fn meta_json(m: &UserMeta) -> J {
	J::Array(m.iter().map(|(k, v)| json!([bytes_json(k.as_bytes()), bytes_json(v)])).collect())
}

fn run_reader<'de, R>(
	reader: Result<(Reader<R>, UserMeta), serde_avro_fast::object_container_file_encoding::FailedToInitializeReader>,
	n_calls: usize,
	hints: &'static str,
	input_range: (usize, usize),
	api: &str,
) -> J
where
	R: serde_avro_fast::de::read::take::Take + serde_avro_fast::de::read::ReadSlice<'de> + std::io::BufRead,
	<R as serde_avro_fast::de::read::take::Take>::Take: serde_avro_fast::de::read::ReadSlice<'de> + std::io::BufRead,
{
	let (mut reader, meta) = match reader {
		Ok(x) => x,
		Err(e) => return json!({"res": "ok", "init": "err", "msg": e.to_string(), "results": []}),
	};
	let schema_json = reader.schema().json().to_owned();
	let graph: SchemaMut = match schema_json.parse() {
		Ok(g) => g,
		Err(e) => return json!({"res": "tool_error", "msg": format!("reader accepted a schema that does not parse again: {e}")}),
	};
	let mut ctx = Ctx::new(&graph);
	ctx.hints = hints;
	ctx.input = input_range;
	let mut results = Vec::new();
	if api == "iter" {
		// the iterator API (`Reader::deserialize`): items until it ends; the hook state cannot be looked at while it borrows the reader
		let items: Vec<Result<crate::ops::CapturedOwned, serde_avro_fast::de::DeError>> =
			crate::ops::with_capture_ctx(&ctx, || reader.deserialize::<crate::ops::CapturedOwned>().take(n_calls).collect());
		let ended = items.len() < n_calls;
		for r in items {
			match r {
				Ok(v) => results.push(json!({"r": "some", "value": v.0, "st": "unknown", "left": -1, "latch": -1})),
				Err(e) => results.push(json!({"r": "err", "io": e.io_error().is_some(), "msg": e.to_string(), "st": "unknown", "left": -1, "latch": -1})),
			}
		}
		if ended {
			results.push(json!({"r": "none", "st": "unknown", "left": -1, "latch": -1}));
		}
	}
	for _ in 0..(if api == "iter" { 0 } else { n_calls }) {
		let r = if api == "typed" {
			// `deserialize_next::<T>` with a DeserializeOwned target
			crate::ops::with_capture_ctx(&ctx, || reader.deserialize_next::<crate::ops::CapturedOwned>()).map(|o| o.map(|c| c.0))
		} else {
			reader.deserialize_seed_next(Cap::root(&ctx))
		};
		#[cfg(ten0_serde_avro_fast_verif)]
		let (st, left, latch) = {
			let (a, b, c) = reader.verif_state();
			(a, b as i64, c as i64)
		};
		#[cfg(not(ten0_serde_avro_fast_verif))]
		let (st, left, latch) = ("unknown", -1i64, -1i64);
		match r {
			Ok(Some(v)) => results.push(json!({"r": "some", "value": v, "st": st, "left": left, "latch": latch})),
			Ok(None) => results.push(json!({"r": "none", "st": st, "left": left, "latch": latch})),
			Err(e) => results.push(json!({"r": "err", "io": e.io_error().is_some(), "msg": e.to_string(), "st": st, "left": left, "latch": latch})),
		}
	}
	let st = ctx.stats.borrow();
	json!({"res": "ok", "init": "ok", "meta": meta_json(&meta), "schema_json": bytes_json(schema_json.as_bytes()), "results": results,
		"borrowed_outside": st.borrowed_outside, "borrowed_in_input": st.borrowed_in_input})
}

pub fn op_reader(cmd: &J) -> Result<J, String> {
	let file = bytes_of(&cmd["bytes"])?;
	let n_calls = cmd.get("calls").and_then(|c| c.as_u64()).unwrap_or(8) as usize;
	let hints: &'static str = match cmd.get("hints").and_then(|m| m.as_str()) {
		Some("alt") => "alt",
		Some("any") => "any",
		_ => "default",
	};
	let rd = &cmd["reader"];
	let kind = rd.get("kind").and_then(|k| k.as_str()).unwrap_or("slice");
	let api = rd.get("api").and_then(|k| k.as_str()).unwrap_or("seed");
	Ok(match kind {
		"slice" if api == "borrowed" || api == "borrowed_iter" => {
			// the entry points only a slice reader has: deserialize_next_borrowed::<T>() and deserialize_borrowed::<T>()
			let mut reader = match Reader::from_slice(&file) {
				Ok(r) => r,
				Err(e) => return Ok(json!({"res": "ok", "init": "err", "msg": e.to_string(), "results": []})),
			};
			let schema_json = reader.schema().json().to_owned();
			let graph: SchemaMut = schema_json.parse().map_err(|e| format!("reader accepted a schema that does not parse again: {e}"))?;
			let mut ctx = Ctx::new(&graph);
			ctx.hints = hints;
			let mut results = Vec::new();
			if api == "borrowed_iter" {
				let items: Vec<Result<crate::ops::CapturedOwned, serde_avro_fast::de::DeError>> =
					crate::ops::with_capture_ctx(&ctx, || reader.deserialize_borrowed::<crate::ops::CapturedOwned>().take(n_calls).collect());
				let ended = items.len() < n_calls;
				for r in items {
					match r {
						Ok(v) => results.push(json!({"r": "some", "value": v.0, "st": "unknown", "left": -1, "latch": -1})),
						Err(e) => results.push(json!({"r": "err", "io": e.io_error().is_some(), "msg": e.to_string(), "st": "unknown", "left": -1, "latch": -1})),
					}
				}
				if ended {
					results.push(json!({"r": "none", "st": "unknown", "left": -1, "latch": -1}));
				}
			} else {
				for _ in 0..n_calls {
					let r = crate::ops::with_capture_ctx(&ctx, || reader.deserialize_next_borrowed::<crate::ops::CapturedOwned>()).map(|o| o.map(|c| c.0));
					#[cfg(ten0_serde_avro_fast_verif)]
					let (st, left, latch) = {
						let (a, b, c) = reader.verif_state();
						(a, b as i64, c as i64)
					};
					#[cfg(not(ten0_serde_avro_fast_verif))]
					let (st, left, latch) = ("unknown", -1i64, -1i64);
					match r {
						Ok(Some(v)) => results.push(json!({"r": "some", "value": v, "st": st, "left": left, "latch": latch})),
						Ok(None) => results.push(json!({"r": "none", "st": st, "left": left, "latch": latch})),
						Err(e) => results.push(json!({"r": "err", "io": e.io_error().is_some(), "msg": e.to_string(), "st": st, "left": left, "latch": latch})),
					}
				}
			}
			json!({"res": "ok", "init": "ok", "meta": [], "schema_json": bytes_json(schema_json.as_bytes()), "results": results})
		}
		"slice" => {
			let range = (file.as_ptr() as usize, file.as_ptr() as usize + file.len());
			let r = Reader::new_and_metadata::<UserMeta>(serde_avro_fast::de::read::SliceRead::new(&file));
			run_reader(r, n_calls, hints, range, api)
		}
		"chunks" => {
			let sched: Vec<usize> = rd
				.get("sched")
				.and_then(|s| s.as_array())
				.map(|a| a.iter().map(|x| x.as_u64().unwrap_or(1) as usize).collect())
				.unwrap_or_default();
			let mut cr = ChunkedReader::new(file.clone(), sched);
			cr.fail_at_refill = rd.get("fail_at_refill").and_then(|x| x.as_u64()).map(|x| x as usize);
			cr.fail_kind = match rd.get("fail_kind").and_then(|x| x.as_str()) {
				Some("interrupted") => std::io::ErrorKind::Interrupted,
				Some("connection_reset") => std::io::ErrorKind::ConnectionReset,
				Some("would_block") => std::io::ErrorKind::WouldBlock,
				Some("unexpected_eof") => std::io::ErrorKind::UnexpectedEof,
				_ => std::io::ErrorKind::Other,
			};
			let r = Reader::new_and_metadata::<UserMeta>(serde_avro_fast::de::read::ReaderRead::new(cr));
			run_reader(r, n_calls, hints, (0, 0), api)
		}
		"bufreader" => {
			let cap = rd.get("cap").and_then(|c| c.as_u64()).unwrap_or(8192) as usize;
			let br = std::io::BufReader::with_capacity(cap.max(1), std::io::Cursor::new(file.clone()));
			let r = Reader::new_and_metadata::<UserMeta>(serde_avro_fast::de::read::ReaderRead::new(br));
			run_reader(r, n_calls, hints, (0, 0), api)
		}
		other => return Err(format!("unknown reader kind {other}")),
	})
}

// ---------------------------------------------------------------------------------------------
// large blocks: content generated here from a seed, compared here, reported as item positions
// ---------------------------------------------------------------------------------------------
fn gen_payload(kind: &str, size: usize, seed: u64) -> Vec<u8> {
	let mut x = seed.wrapping_mul(0x9E3779B97F4A7C15) | 1;
	let mut next = move || {
		x ^= x << 13;
		x ^= x >> 7;
		x ^= x << 17;
		x
	};
	match kind {
		"zeros" => vec![0u8; size],
		"text" => (0..size).map(|i| b"the quick brown fox jumps over the lazy dog "[(i + seed as usize) % 44]).collect(),
		_ => (0..size).map(|_| next() as u8).collect(),
	}
}

/// schema "bytes": write items of the given sizes (optionally finish_block after some), read the file back with the
/// requested reader, report per result the position of the written item it equals (0 if none).
pub fn op_big_roundtrip(cmd: &J) -> Result<J, String> {
	let codec = cmd["codec"].as_str().unwrap_or("null");
	let level = cmd.get("level").and_then(|l| l.as_u64()).map(|l| l as u8);
	let compression = compression_of(codec, level)?;
	let approx = cmd.get("approx").and_then(|a| a.as_u64()).unwrap_or(64 * 1024) as u32;
	let seed = cmd.get("seed").and_then(|a| a.as_u64()).unwrap_or(1);
	let schema: serde_avro_fast::Schema = r#""bytes""#.parse().map_err(|e| format!("{e}"))?;
	let mut items: Vec<Vec<u8>> = Vec::new();
	let mut flush_after: Vec<bool> = Vec::new();
	for (i, it) in cmd["items"].as_array().ok_or("items")?.iter().enumerate() {
		items.push(gen_payload(it["kind"].as_str().unwrap_or("rand"), it["size"].as_u64().ok_or("size")? as usize, seed + i as u64));
		flush_after.push(it.get("flush").and_then(|f| f.as_bool()).unwrap_or(false));
	}
	let mut config = SerializerConfig::new(&schema);
	let mut write_results = Vec::new();
	let mut sink = Vec::new();
	let wr = catch_unwind(AssertUnwindSafe(|| -> Result<(), String> {
		let mut w = WriterBuilder::new(&mut config)
			.compression(compression)
			.approx_block_size(approx)
			.sync_marker([9; 16])
			.build(&mut sink)
			.map_err(|e| format!("build: {e}"))?;
		for (it, fl) in items.iter().zip(&flush_after) {
			match w.serialize(serde_bytes::Bytes::new(it)) {
				Ok(()) => write_results.push(json!("ok")),
				Err(e) => write_results.push(json!(format!("err: {e}"))),
			}
			if *fl {
				match w.finish_block() {
					Ok(()) => write_results.push(json!("ok")),
					Err(e) => write_results.push(json!(format!("err: {e}"))),
				}
			}
		}
		match w.into_inner() {
			Ok(_) => write_results.push(json!("ok")),
			Err(e) => write_results.push(json!(format!("err: {e}"))),
		}
		Ok(())
	}));
	let write_status = match wr {
		Err(_) => json!({"res": "panic", "msg": crate::ops::LAST_PANIC.with(|c| c.borrow().clone())}),
		Ok(Err(e)) => json!({"res": "err", "msg": e}),
		Ok(Ok(())) => json!({"res": "ok"}),
	};
	// project the blocks (count, payload size)
	let mut blocks = Vec::new();
	if let Some(hdr_end) = find_header_end(&sink) {
		let (bl, stop) = walk_blocks(&sink, hdr_end, codec);
		for b in &bl {
			blocks.push(json!({"count": b["count"], "size": b["size"], "raw_len": b.get("raw").and_then(|r| r.as_array()).map(|a| a.len()),
				"deframe_err": b.get("deframe_err")}));
		}
		blocks.push(json!({"stop": stop, "len": sink.len()}));
	}
	// read back
	let n_calls = items.len() + 3;
	let rd = &cmd["reader"];
	let kind = rd.get("kind").and_then(|k| k.as_str()).unwrap_or("slice");
	let read = catch_unwind(AssertUnwindSafe(|| -> J {
		fn drive<'de, R>(
			r: Result<Reader<R>, serde_avro_fast::object_container_file_encoding::FailedToInitializeReader>,
			n_calls: usize,
			items: &[Vec<u8>],
		) -> J
		where
			R: serde_avro_fast::de::read::take::Take + serde_avro_fast::de::read::ReadSlice<'de> + std::io::BufRead,
			<R as serde_avro_fast::de::read::take::Take>::Take: serde_avro_fast::de::read::ReadSlice<'de> + std::io::BufRead,
		{
			let mut reader = match r {
				Ok(r) => r,
				Err(e) => return json!({"init": "err", "msg": e.to_string(), "results": []}),
			};
			let mut results = Vec::new();
			let mut k = 0usize;
			for _ in 0..n_calls {
				match reader.deserialize_next::<serde_bytes::ByteBuf>() {
					Ok(Some(v)) => {
						k += 1;
						let item = if k <= items.len() && items[k - 1] == v.as_slice() { k } else { 0 };
						results.push(json!({"r": "some", "item": item, "io": false, "st": "unknown"}));
					}
					Ok(None) => results.push(json!({"r": "none", "item": 0, "io": false, "st": "unknown"})),
					Err(e) => results.push(json!({"r": "err", "item": 0, "io": e.io_error().is_some(), "st": "unknown", "msg": e.to_string()})),
				}
			}
			json!({"init": "ok", "results": results})
		}
		match kind {
			"slice" => drive(Reader::from_slice(&sink), n_calls, &items),
			"bufreader" => {
				let cap = rd.get("cap").and_then(|c| c.as_u64()).unwrap_or(8192) as usize;
				drive(Reader::from_reader(std::io::BufReader::with_capacity(cap.max(1), std::io::Cursor::new(sink.clone()))), n_calls, &items)
			}
			_ => {
				let sched: Vec<usize> = rd.get("sched").and_then(|s| s.as_array()).map(|a| a.iter().map(|x| x.as_u64().unwrap_or(1) as usize).collect()).unwrap_or_default();
				drive(Reader::from_reader(ChunkedReader::new(sink.clone(), sched)), n_calls, &items)
			}
		}
	}));
	let read = match read {
		Ok(j) => j,
		Err(_) => json!({"init": "panic", "msg": crate::ops::LAST_PANIC.with(|c| c.borrow().clone()), "results": []}),
	};
	Ok(json!({"res": "ok", "write": write_status, "write_results": write_results, "file_len": sink.len(), "blocks": blocks, "read": read, "n": items.len()}))
}

/// end of the header (first byte after the sync marker) of a file produced by the writer, by parsing the metadata map
fn find_header_end(file: &[u8]) -> Option<usize> {
	if file.len() < 4 {
		return None;
	}
	let mut pos = 4;
	loop {
		let mut count = read_varint(file, &mut pos)?;
		if count == 0 {
			break;
		}
		if count < 0 {
			count = -count;
			read_varint(file, &mut pos)?;
		}
		for _ in 0..count {
			let kl = read_varint(file, &mut pos)?;
			pos += kl as usize;
			let vl = read_varint(file, &mut pos)?;
			pos += vl as usize;
		}
	}
	if pos + 16 <= file.len() {
		Some(pos + 16)
	} else {
		None
	}
}

//! `Presented`: a value whose `Serialize` impl calls exactly the serde method named in the scenario.
//!
//! Exchange format (the presentations of SerdeModel.tla): {"p": <call>, ...}; integers carry `v` as 16-bit limbs,
//! least significant first (4 limbs for widths <= 64, 8 limbs for 128-bit), texts are arrays of UTF-8 byte codes;
//! payload fields: `i` (bool / char code point), `v` (numbers, floats as LE bytes, str, bytes), `x` (one nested
//! presentation), `es` (list), `kv` (list of [key, value]), `fs` (list of [field name, value]).

use crate::schema_io::{bytes_of, text_of};
use serde::ser::{
	Error as _, Serialize, SerializeMap, SerializeSeq, SerializeStruct, SerializeStructVariant, SerializeTuple,
	SerializeTupleStruct, SerializeTupleVariant, Serializer,
};
use serde_json::Value as J;
use std::{collections::HashMap, sync::Mutex};

/// serde wants `&'static str` for names: intern (leak) them.
pub fn intern(s: &str) -> &'static str {
	static TABLE: Mutex<Option<HashMap<String, &'static str>>> = Mutex::new(None);
	let mut guard = TABLE.lock().unwrap();
	let table = guard.get_or_insert_with(HashMap::new);
	if let Some(&r) = table.get(s) {
		return r;
	}
	let leaked: &'static str = Box::leak(s.to_owned().into_boxed_str());
	table.insert(s.to_owned(), leaked);
	leaked
}

#[derive(Debug, Clone)]
pub enum P {
	Unit,
	None,
	Some(Box<P>),
	Bool(bool),
	I8(i8),
	I16(i16),
	I32(i32),
	I64(i64),
	I128(i128),
	U8(u8),
	U16(u16),
	U32(u32),
	U64(u64),
	U128(u128),
	F32(f32),
	F64(f64),
	Char(char),
	Str(String),
	Bytes(Vec<u8>),
	UnitStruct(&'static str),
	UnitVariant(&'static str, u32, &'static str),
	NewtypeStruct(&'static str, Box<P>),
	NewtypeVariant(&'static str, u32, &'static str, Box<P>),
	Seq(Option<usize>, Vec<P>),
	Tuple(Vec<P>),
	TupleStruct(&'static str, Vec<P>),
	TupleVariant(&'static str, u32, &'static str, Vec<P>),
	/// (advertised len, use serialize_entry?, entries)
	Map(Option<usize>, bool, Vec<(P, P)>),
	/// (name, advertised len, fields)
	Struct(&'static str, usize, Vec<(&'static str, P)>),
	StructVariant(&'static str, u32, &'static str, usize, Vec<(&'static str, P)>),
	/// returns a custom error when serialized
	Fail,
}

fn limbs_u128(j: &J) -> Result<u128, String> {
	let arr = j.as_array().ok_or("int limbs must be an array")?;
	let mut v: u128 = 0;
	for (i, l) in arr.iter().enumerate() {
		let l = l.as_u64().ok_or("limb must be a number")? as u128;
		if i < 8 {
			v |= l << (16 * i);
		}
	}
	if arr.len() == 4 {
		// sign-extend the 64-bit word
		let w = v as u64 as i64;
		Ok(w as i128 as u128)
	} else {
		Ok(v)
	}
}

fn name_of(j: &J, key: &str) -> Result<&'static str, String> {
	match j.get(key) {
		None | Some(J::Null) => Ok(""),
		Some(t) => Ok(intern(&text_of(t)?)),
	}
}

fn list_of(j: &J) -> Result<Vec<P>, String> {
	j["es"].as_array().ok_or("es must be an array")?.iter().map(P::from_json).collect()
}

fn fields_of(j: &J) -> Result<Vec<(&'static str, P)>, String> {
	let mut out = Vec::new();
	for f in j["fs"].as_array().ok_or("struct fs must be an array")? {
		let pair = f.as_array().ok_or("struct field must be a pair")?;
		out.push((intern(&text_of(&pair[0])?), P::from_json(&pair[1])?));
	}
	Ok(out)
}

impl P {
	pub fn from_json(j: &J) -> Result<P, String> {
		let p = j["p"].as_str().ok_or_else(|| format!("presentation without p: {j}"))?;
		let int = || limbs_u128(&j["v"]);
		let idx = || j.get("idx").and_then(|x| x.as_u64()).unwrap_or(0) as u32;
		Ok(match p {
			"unit" => P::Unit,
			"none" => P::None,
			"some" => P::Some(Box::new(P::from_json(&j["x"])?)),
			"bool" => P::Bool(j["i"].as_u64().map(|x| x != 0).or(j["i"].as_bool()).ok_or("bool i")?),
			"i8" => P::I8(int()? as i8),
			"i16" => P::I16(int()? as i16),
			"i32" => P::I32(int()? as i32),
			"i64" => P::I64(int()? as i64),
			"i128" => P::I128(int()? as i128),
			"u8" => P::U8(int()? as u8),
			"u16" => P::U16(int()? as u16),
			"u32" => P::U32(int()? as u32),
			"u64" => P::U64(int()? as u64),
			"u128" => P::U128(int()?),
			"f32" => {
				let b = bytes_of(&j["v"])?;
				P::F32(f32::from_le_bytes(b.as_slice().try_into().map_err(|_| "f32 needs 4 bytes")?))
			}
			"f64" => {
				let b = bytes_of(&j["v"])?;
				P::F64(f64::from_le_bytes(b.as_slice().try_into().map_err(|_| "f64 needs 8 bytes")?))
			}
			"char" => P::Char(char::from_u32(j["i"].as_u64().ok_or("char i")? as u32).ok_or("bad char")?),
			"str" => P::Str(text_of(&j["v"])?),
			"bytes" => P::Bytes(bytes_of(&j["v"])?),
			"unit_struct" => P::UnitStruct(name_of(j, "name")?),
			"unit_variant" => P::UnitVariant(name_of(j, "name")?, idx(), name_of(j, "variant")?),
			"newtype_struct" => P::NewtypeStruct(name_of(j, "name")?, Box::new(P::from_json(&j["x"])?)),
			"newtype_variant" => {
				P::NewtypeVariant(name_of(j, "name")?, idx(), name_of(j, "variant")?, Box::new(P::from_json(&j["x"])?))
			}
			"seq" => P::Seq(j["len"].as_i64().filter(|&l| l >= 0).map(|l| l as usize), list_of(j)?),
			"tuple" => P::Tuple(list_of(j)?),
			"tuple_struct" => P::TupleStruct(name_of(j, "name")?, list_of(j)?),
			"tuple_variant" => P::TupleVariant(name_of(j, "name")?, idx(), name_of(j, "variant")?, list_of(j)?),
			"map" => {
				let mut entries = Vec::new();
				for e in j["kv"].as_array().ok_or("map kv")? {
					let pair = e.as_array().ok_or("map entry must be a pair")?;
					entries.push((P::from_json(&pair[0])?, P::from_json(&pair[1])?));
				}
				P::Map(
					j["len"].as_i64().filter(|&l| l >= 0).map(|l| l as usize),
					j["mode"].as_str().unwrap_or("entry") == "entry",
					entries,
				)
			}
			"struct" => {
				let fields = fields_of(j)?;
				let len = j.get("len").and_then(|l| l.as_u64()).map(|l| l as usize).unwrap_or(fields.len());
				P::Struct(name_of(j, "name")?, len, fields)
			}
			"struct_variant" => {
				let fields = fields_of(j)?;
				let len = j.get("len").and_then(|l| l.as_u64()).map(|l| l as usize).unwrap_or(fields.len());
				P::StructVariant(name_of(j, "name")?, idx(), name_of(j, "variant")?, len, fields)
			}
			"fail" => P::Fail,
			other => return Err(format!("unknown presentation {other}")),
		})
	}
}

impl Serialize for P {
	fn serialize<S: Serializer>(&self, s: S) -> Result<S::Ok, S::Error> {
		match self {
			P::Unit => s.serialize_unit(),
			P::None => s.serialize_none(),
			P::Some(v) => s.serialize_some(&**v),
			P::Bool(v) => s.serialize_bool(*v),
			P::I8(v) => s.serialize_i8(*v),
			P::I16(v) => s.serialize_i16(*v),
			P::I32(v) => s.serialize_i32(*v),
			P::I64(v) => s.serialize_i64(*v),
			P::I128(v) => s.serialize_i128(*v),
			P::U8(v) => s.serialize_u8(*v),
			P::U16(v) => s.serialize_u16(*v),
			P::U32(v) => s.serialize_u32(*v),
			P::U64(v) => s.serialize_u64(*v),
			P::U128(v) => s.serialize_u128(*v),
			P::F32(v) => s.serialize_f32(*v),
			P::F64(v) => s.serialize_f64(*v),
			P::Char(v) => s.serialize_char(*v),
			P::Str(v) => s.serialize_str(v),
			P::Bytes(v) => s.serialize_bytes(v),
			P::UnitStruct(n) => s.serialize_unit_struct(n),
			P::UnitVariant(n, i, v) => s.serialize_unit_variant(n, *i, v),
			P::NewtypeStruct(n, v) => s.serialize_newtype_struct(n, &**v),
			P::NewtypeVariant(n, i, var, v) => s.serialize_newtype_variant(n, *i, var, &**v),
			P::Seq(len, items) => {
				let mut seq = s.serialize_seq(*len)?;
				for it in items {
					seq.serialize_element(it)?;
				}
				seq.end()
			}
			P::Tuple(items) => {
				let mut t = s.serialize_tuple(items.len())?;
				for it in items {
					t.serialize_element(it)?;
				}
				t.end()
			}
			P::TupleStruct(n, items) => {
				let mut t = s.serialize_tuple_struct(n, items.len())?;
				for it in items {
					t.serialize_field(it)?;
				}
				t.end()
			}
			P::TupleVariant(n, i, var, items) => {
				let mut t = s.serialize_tuple_variant(n, *i, var, items.len())?;
				for it in items {
					t.serialize_field(it)?;
				}
				t.end()
			}
			P::Map(len, entry_mode, entries) => {
				let mut m = s.serialize_map(*len)?;
				for (k, v) in entries {
					if *entry_mode {
						m.serialize_entry(k, v)?;
					} else {
						m.serialize_key(k)?;
						m.serialize_value(v)?;
					}
				}
				m.end()
			}
			P::Struct(n, len, fields) => {
				let mut st = s.serialize_struct(n, *len)?;
				for (k, v) in fields {
					st.serialize_field(k, v)?;
				}
				st.end()
			}
			P::StructVariant(n, i, var, len, fields) => {
				let mut st = s.serialize_struct_variant(n, *i, var, *len)?;
				for (k, v) in fields {
					st.serialize_field(k, v)?;
				}
				st.end()
			}
			P::Fail => Err(S::Error::custom("presented failure")),
		}
	}
}

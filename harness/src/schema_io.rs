//! Schema graphs in the exchange format <-> `SchemaMut`.
//!
//! Exchange format (one node per entry, keys are 1-based, node 1 is the root):
//!   {"k":"record","lt":"none","name":[bytes],"fields":[{"n":[bytes],"t":2}]}
//! Texts are arrays of UTF-8 byte codes.

use serde_avro_fast::schema::*;
use serde_json::{json, Value as J};

pub fn text_of(j: &J) -> Result<String, String> {
	let arr = j.as_array().ok_or_else(|| format!("text must be an array, got {j}"))?;
	let mut v = Vec::with_capacity(arr.len());
	for b in arr {
		v.push(b.as_u64().ok_or("text byte must be a number")? as u8);
	}
	String::from_utf8(v).map_err(|e| format!("text not utf8: {e}"))
}

pub fn bytes_of(j: &J) -> Result<Vec<u8>, String> {
	let arr = j.as_array().ok_or_else(|| format!("bytes must be an array, got {j}"))?;
	let mut v = Vec::with_capacity(arr.len());
	for b in arr {
		v.push(b.as_u64().ok_or("byte must be a number")? as u8);
	}
	Ok(v)
}

pub fn bytes_json(b: &[u8]) -> J {
	J::Array(b.iter().map(|&x| J::from(x)).collect())
}

pub fn text_json(s: &str) -> J {
	bytes_json(s.as_bytes())
}

fn key_of(j: &J) -> Result<SchemaKey, String> {
	let k = j.as_u64().ok_or("key must be a number")?;
	// keys are 1-based in the exchange format; 0 is mapped to a huge (dangling) key
	Ok(SchemaKey::from_idx(if k == 0 { usize::MAX } else { (k - 1) as usize }))
}

pub fn node_from_json(n: &J) -> Result<SchemaNode, String> {
	let k = n["k"].as_str().ok_or("node.k missing")?;
	let name = || -> Result<Name, String> { Ok(Name::from_fully_qualified_name(text_of(&n["name"])?)) };
	let ty = match k {
		"null" => RegularType::Null,
		"boolean" => RegularType::Boolean,
		"int" => RegularType::Int,
		"long" => RegularType::Long,
		"float" => RegularType::Float,
		"double" => RegularType::Double,
		"bytes" => RegularType::Bytes,
		"string" => RegularType::String,
		"array" => RegularType::Array(Array::new(key_of(&n["items"])?)),
		"map" => RegularType::Map(Map::new(key_of(&n["values"])?)),
		"union" => {
			let mut v = Vec::new();
			for x in n["variants"].as_array().ok_or("variants")? {
				v.push(key_of(x)?);
			}
			RegularType::Union(Union::new(v))
		}
		"record" => {
			let mut fields = Vec::new();
			for f in n["fields"].as_array().ok_or("fields")? {
				fields.push(RecordField::new(text_of(&f["n"])?, key_of(&f["t"])?));
			}
			RegularType::Record(Record::new(name()?, fields))
		}
		"enum" => {
			let mut symbols = Vec::new();
			for s in n["symbols"].as_array().ok_or("symbols")? {
				symbols.push(text_of(s)?);
			}
			RegularType::Enum(Enum::new(name()?, symbols))
		}
		"fixed" => RegularType::Fixed(Fixed::new(name()?, n["size"].as_u64().ok_or("size")? as usize)),
		other => return Err(format!("unknown node kind {other}")),
	};
	let lt = n["lt"].as_str().unwrap_or("none");
	let logical = match lt {
		"none" => None,
		"decimal" => Some(LogicalType::Decimal(Decimal::new(
			n["scale"].as_u64().ok_or("scale")? as u32,
			n["prec"].as_u64().unwrap_or(0) as usize,
		))),
		"uuid" => Some(LogicalType::Uuid),
		"date" => Some(LogicalType::Date),
		"time-millis" => Some(LogicalType::TimeMillis),
		"time-micros" => Some(LogicalType::TimeMicros),
		"timestamp-millis" => Some(LogicalType::TimestampMillis),
		"timestamp-micros" => Some(LogicalType::TimestampMicros),
		"duration" => Some(LogicalType::Duration),
		"big-decimal" => Some(LogicalType::BigDecimal),
		other => Some(LogicalType::Unknown(UnknownLogicalType::new(other.to_owned()))),
	};
	Ok(match logical {
		None => SchemaNode::new(ty),
		Some(l) => SchemaNode::with_logical_type(ty, l),
	})
}

pub fn schema_mut_from_json(nodes: &J) -> Result<SchemaMut, String> {
	let arr = nodes.as_array().ok_or("nodes must be an array")?;
	let mut v = Vec::with_capacity(arr.len());
	for n in arr {
		v.push(node_from_json(n)?);
	}
	Ok(SchemaMut::from_nodes(v))
}

/// Project a `SchemaMut` back to the exchange format (1-based keys).
pub fn schema_mut_to_json(s: &SchemaMut) -> J {
	let key = |k: SchemaKey| J::from(k.idx() as u64 + 1);
	let mut out = Vec::new();
	for n in s.nodes() {
		let mut o = serde_json::Map::new();
		match &n.type_ {
			RegularType::Null => {
				o.insert("k".into(), "null".into());
			}
			RegularType::Boolean => {
				o.insert("k".into(), "boolean".into());
			}
			RegularType::Int => {
				o.insert("k".into(), "int".into());
			}
			RegularType::Long => {
				o.insert("k".into(), "long".into());
			}
			RegularType::Float => {
				o.insert("k".into(), "float".into());
			}
			RegularType::Double => {
				o.insert("k".into(), "double".into());
			}
			RegularType::Bytes => {
				o.insert("k".into(), "bytes".into());
			}
			RegularType::String => {
				o.insert("k".into(), "string".into());
			}
			RegularType::Array(a) => {
				o.insert("k".into(), "array".into());
				o.insert("items".into(), key(a.items));
			}
			RegularType::Map(m) => {
				o.insert("k".into(), "map".into());
				o.insert("values".into(), key(m.values));
			}
			RegularType::Union(u) => {
				o.insert("k".into(), "union".into());
				o.insert("variants".into(), J::Array(u.variants.iter().map(|&k| key(k)).collect()));
			}
			RegularType::Record(r) => {
				o.insert("k".into(), "record".into());
				o.insert("name".into(), text_json(r.name.fully_qualified_name()));
				o.insert(
					"fields".into(),
					J::Array(
						r.fields
							.iter()
							.map(|f| json!({"n": text_json(&f.name), "t": key(f.type_)}))
							.collect(),
					),
				);
			}
			RegularType::Enum(e) => {
				o.insert("k".into(), "enum".into());
				o.insert("name".into(), text_json(e.name.fully_qualified_name()));
				o.insert("symbols".into(), J::Array(e.symbols.iter().map(|s| text_json(s)).collect()));
			}
			RegularType::Fixed(f) => {
				o.insert("k".into(), "fixed".into());
				o.insert("name".into(), text_json(f.name.fully_qualified_name()));
				o.insert("size".into(), J::from(f.size as u64));
			}
		}
		match &n.logical_type {
			None => {
				o.insert("lt".into(), "none".into());
			}
			Some(LogicalType::Decimal(d)) => {
				o.insert("lt".into(), "decimal".into());
				o.insert("scale".into(), J::from(d.scale));
				o.insert("prec".into(), J::from(d.precision as u64));
			}
			Some(other) => {
				o.insert("lt".into(), other.as_str().into());
			}
		}
		out.push(J::Object(o));
	}
	J::Array(out)
}

/// The *effective* kind of a node, as the specification's `Eff` defines it.
#[derive(Clone, Copy, PartialEq, Eq, Debug)]
pub enum Eff {
	Null,
	Boolean,
	IntLike,
	LongLike,
	Float,
	Double,
	Bytes,
	StringLike,
	Array,
	Map,
	Union,
	Record,
	Enum,
	Fixed,
	DecimalBytes,
	DecimalFixed,
	BigDecimal,
	Duration,
}

pub fn eff(n: &SchemaNode) -> Eff {
	match (&n.type_, &n.logical_type) {
		(RegularType::Bytes, Some(LogicalType::Decimal(_))) => Eff::DecimalBytes,
		(RegularType::Fixed(_), Some(LogicalType::Decimal(_))) => Eff::DecimalFixed,
		(RegularType::Bytes, Some(LogicalType::BigDecimal)) => Eff::BigDecimal,
		(RegularType::Fixed(f), Some(LogicalType::Duration)) if f.size == 12 => Eff::Duration,
		(t, _) => match t {
			RegularType::Null => Eff::Null,
			RegularType::Boolean => Eff::Boolean,
			RegularType::Int => Eff::IntLike,
			RegularType::Long => Eff::LongLike,
			RegularType::Float => Eff::Float,
			RegularType::Double => Eff::Double,
			RegularType::Bytes => Eff::Bytes,
			RegularType::String => Eff::StringLike,
			RegularType::Array(_) => Eff::Array,
			RegularType::Map(_) => Eff::Map,
			RegularType::Union(_) => Eff::Union,
			RegularType::Record(_) => Eff::Record,
			RegularType::Enum(_) => Eff::Enum,
			RegularType::Fixed(_) => Eff::Fixed,
		},
	}
}

/// Name under which the deserializer announces a union branch when the target asks for an enum
/// (the name a Rust enum variant must carry to receive that branch).
pub fn branch_type_name(n: &SchemaNode) -> String {
	match (&n.type_, &n.logical_type) {
		(RegularType::Bytes, Some(LogicalType::Decimal(_))) => "Decimal".into(),
		(RegularType::Fixed(f), Some(LogicalType::Decimal(_))) => f.name.fully_qualified_name().into(),
		(RegularType::Bytes, Some(LogicalType::BigDecimal)) => "BigDecimal".into(),
		(RegularType::String, Some(LogicalType::Uuid)) => "Uuid".into(),
		(RegularType::Int, Some(LogicalType::Date)) => "Date".into(),
		(RegularType::Int, Some(LogicalType::TimeMillis)) => "TimeMillis".into(),
		(RegularType::Long, Some(LogicalType::TimeMicros)) => "TimeMicros".into(),
		(RegularType::Long, Some(LogicalType::TimestampMillis)) => "TimestampMillis".into(),
		(RegularType::Long, Some(LogicalType::TimestampMicros)) => "TimestampMicros".into(),
		(RegularType::Fixed(f), Some(LogicalType::Duration)) if f.size == 12 => "Duration".into(),
		(t, _) => match t {
			RegularType::Null => "Null".into(),
			RegularType::Boolean => "Boolean".into(),
			RegularType::Int => "Int".into(),
			RegularType::Long => "Long".into(),
			RegularType::Float => "Float".into(),
			RegularType::Double => "Double".into(),
			RegularType::Bytes => "Bytes".into(),
			RegularType::String => "String".into(),
			RegularType::Array(_) => "Array".into(),
			RegularType::Map(_) => "Map".into(),
			RegularType::Union(_) => "Union".into(),
			RegularType::Record(r) => r.name.fully_qualified_name().into(),
			RegularType::Enum(e) => e.name.fully_qualified_name().into(),
			RegularType::Fixed(f) => f.name.fully_qualified_name().into(),
		},
	}
}

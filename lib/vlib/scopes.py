"""Schema scopes: the finite families of schema graphs over which TLC enumerates values.
Schemas are written as small trees and flattened to the exchange format (node vector, 1-based keys,
texts as UTF-8 byte arrays)."""
import itertools


def T(s):
    return list(s.encode("utf8"))


def prim(k, lt="none", **kw):
    d = {"k": k, "lt": lt}
    d.update(kw)
    return d


def arr(x):
    return {"k": "array", "lt": "none", "items": x}


def mp(x):
    return {"k": "map", "lt": "none", "values": x}


def un(*xs):
    return {"k": "union", "lt": "none", "variants": list(xs)}


def rec(name, fields):
    return {"k": "record", "lt": "none", "name": name, "fields": [{"n": n, "t": t} for n, t in fields]}


def enum(name, symbols):
    return {"k": "enum", "lt": "none", "name": name, "symbols": list(symbols)}


def fixed(name, size, lt="none", **kw):
    d = {"k": "fixed", "lt": lt, "name": name, "size": size}
    d.update(kw)
    return d


def ref(name):
    return {"ref": name}


def flatten(tree):
    """tree -> {"nodes": [...]} with 1-based keys; named types are registered by name and `ref`s resolve
    to the key of the (unique) definition."""
    nodes = []
    named = {}
    pending_refs = []

    def place(t):
        if "ref" in t:
            # resolved after the whole tree has been placed
            idx = len(pending_refs)
            pending_refs.append(t["ref"])
            return ("ref", idx)
        key = len(nodes) + 1
        nodes.append(None)
        n = {"k": t["k"], "lt": t.get("lt", "none")}
        if t["k"] in ("record", "enum", "fixed"):
            n["name"] = T(t["name"])
            named[t["name"]] = key
        for extra in ("prec", "scale", "size"):
            if extra in t:
                n[extra] = t[extra]
        nodes[key - 1] = n
        if t["k"] == "array":
            n["items"] = place(t["items"])
        elif t["k"] == "map":
            n["values"] = place(t["values"])
        elif t["k"] == "union":
            n["variants"] = [place(x) for x in t["variants"]]
        elif t["k"] == "record":
            n["fields"] = [{"n": T(f["n"]), "t": place(f["t"])} for f in t["fields"]]
        elif t["k"] == "enum":
            n["symbols"] = [T(s) for s in t["symbols"]]
        return key

    place(tree)

    def res(x):
        if isinstance(x, tuple):
            return named[pending_refs[x[1]]]
        return x

    for n in nodes:
        if "items" in n:
            n["items"] = res(n["items"])
        if "values" in n:
            n["values"] = res(n["values"])
        if "variants" in n:
            n["variants"] = [res(v) for v in n["variants"]]
        if "fields" in n:
            for f in n["fields"]:
                f["t"] = res(f["t"])
    return {"nodes": nodes}


class Namer:
    def __init__(self):
        self.i = 0

    def __call__(self, prefix):
        self.i += 1
        return f"{prefix}{self.i}"


def leaves(nm):
    """one instance of every non-container effective kind (fresh names for named types)"""
    return [
        ("null", prim("null")),
        ("boolean", prim("boolean")),
        ("int", prim("int")),
        ("long", prim("long")),
        ("float", prim("float")),
        ("double", prim("double")),
        ("bytes", prim("bytes")),
        ("string", prim("string")),
        ("enum", enum(nm("ns.E"), ["A", "B", "C"])),
        ("fixed", fixed(nm("F"), 3)),
        ("decimal_bytes", prim("bytes", "decimal", prec=28, scale=2)),
        ("decimal_fixed", fixed(nm("D"), 16, "decimal", prec=28, scale=3)),
        ("decimal_fixed2", fixed(nm("D"), 2, "decimal", prec=4, scale=0)),
        ("bigdecimal", prim("bytes", "big-decimal")),
        ("uuid", prim("string", "uuid")),
        ("date", prim("int", "date")),
        ("time-millis", prim("int", "time-millis")),
        ("time-micros", prim("long", "time-micros")),
        ("timestamp-millis", prim("long", "timestamp-millis")),
        ("timestamp-micros", prim("long", "timestamp-micros")),
        ("duration", fixed(nm("Dur"), 12, "duration")),
        ("unknown_lt", prim("long", "my-logical-type")),
        ("fixed0", fixed(nm("Z"), 0)),
    ]


def codec_scope(tier):
    """schemas for C01/C03/C12/C11 enumeration: every effective kind alone, under each container, pairs of
    containers, plus named-type references, sharing and recursion."""
    nm = Namer()
    out = []

    def add(name, tree):
        g = flatten(tree)
        out.append({"sid": name, "nodes": g["nodes"]})

    for name, t in leaves(nm):
        add(f"leaf_{name}", t)
    for name, t in leaves(nm):
        add(f"array_{name}", arr(t))
    for name, t in leaves(nm):
        add(f"map_{name}", mp(t))
    for name, t in leaves(nm):
        if name != "null":
            add(f"opt_{name}", un(prim("null"), t))
    for i, (name, t) in enumerate(leaves(nm)):
        if name != "null" and i % 2 == 0:
            add(f"optrev_{name}", un(t, prim("null")))
    ls = leaves(nm)
    for i in range(0, len(ls)):
        a, b = ls[i], ls[(i + 7) % len(ls)]
        add(f"rec_{a[0]}_{b[0]}", rec(nm("a.b.R"), [("x", a[1]), ("y", b[1])]))
    # depth 2: container pairs with a rotating leaf
    conts = {
        "array": arr,
        "map": mp,
        "opt": lambda x: un(prim("null"), x),
        "rec": lambda x: rec(nm("R"), [("f", x), ("g", prim("long"))]),
    }
    rot = itertools.cycle([l for l in leaves(nm) if l[0] != "null"])
    reps = 1 if tier == "quick" else 4
    for (on, oc), (inn, ic) in itertools.product(conts.items(), conts.items()):
        if on == "opt" and inn == "opt":
            continue  # a union may not immediately contain a union
        for _ in range(reps):
            ln, lt_ = next(rot)
            lt_ = dict(lt_)
            if "name" in lt_:
                lt_["name"] = nm(lt_["name"].rstrip("0123456789"))
            add(f"{on}_{inn}_{ln}", oc(ic(lt_)))
    # specials
    add("big_union", un(prim("null"), prim("boolean"), prim("long"), prim("double"), prim("bytes"), prim("string"),
                        arr(prim("long")), mp(prim("string")),
                        rec(nm("u.R"), [("a", prim("int"))]), enum(nm("u.E"), ["X", "Y"]), fixed(nm("u.F"), 2)))
    add("int_long_union", un(prim("int"), prim("long"), prim("float"), prim("double")))
    add("rec_list", rec("ns.Node", [("v", prim("long")), ("next", un(prim("null"), ref("ns.Node")))]))
    add("rec_tree", rec("Tree", [("v", prim("int")), ("kids", arr(ref("Tree")))]))
    add("shared_named", rec(nm("S"), [("a", fixed("sh.F", 2)), ("b", ref("sh.F")), ("c", arr(ref("sh.F"))),
                                      ("e", enum("sh.E", ["P", "Q"])), ("e2", un(prim("null"), ref("sh.E")))]))
    add("rec_all", rec(nm("All"), [(f"f{i}", t) for i, (n, t) in enumerate(leaves(nm)) if n != "fixed0"]))
    add("rec_empty", rec(nm("Empty"), []))
    add("arr_rec_empty", arr(rec(nm("Empty"), [])))
    add("map_rec_opt", mp(rec(nm("MR"), [("o", un(prim("null"), prim("string"))), ("l", arr(prim("boolean")))])))
    add("rec_two_names", un(rec("n1.Same", [("a", prim("int"))]), rec("n2.Same", [("a", prim("string"))])))
    if tier != "quick":
        add("deep_arr3", arr(arr(arr(prim("int")))))
        add("rec_in_rec", rec(nm("O"), [("i", rec(nm("I"), [("x", prim("string")), ("y", un(prim("null"), prim("long")))])),
                                        ("z", prim("boolean"))]))
    return out


def matrix_scope(tier):
    """schemas of the C02 (node kind x presentation) matrix: every effective kind at the root, the record / enum /
    fixed shapes the presentations of SerdePres.tla aim at, and small unions exercising the union rule."""
    out = []

    def add(name, tree):
        out.append({"sid": name, "nodes": flatten(tree)["nodes"]})

    R = lambda: rec("ns.R", [("a", prim("int")), ("b", un(prim("null"), prim("string")))])  # noqa: E731
    E = lambda: enum("ns.E", ["A", "B"])  # noqa: E731
    F2 = lambda: fixed("F", 2)  # noqa: E731
    DUR = lambda: fixed("Du", 12, "duration")  # noqa: E731
    for k in ["null", "boolean", "int", "long", "float", "double", "bytes", "string"]:
        add(f"m_{k}", prim(k))
    for k, lt in [("int", "date"), ("int", "time-millis"), ("long", "time-micros"), ("long", "timestamp-millis"),
                  ("long", "timestamp-micros"), ("string", "uuid"), ("bytes", "big-decimal"), ("int", "weird-unknown")]:
        add(f"m_{lt}", prim(k, lt))
    add("m_enum", E())
    add("m_fixed2", F2())
    add("m_fixed0", fixed("F0", 0))
    add("m_fixed12", fixed("F12", 12))
    add("m_duration", DUR())
    add("m_dec_bytes0", prim("bytes", "decimal", prec=10, scale=0))
    add("m_dec_bytes2", prim("bytes", "decimal", prec=10, scale=2))
    add("m_dec_bytes28", prim("bytes", "decimal", prec=29, scale=28))
    for size in [1, 2, 8, 16, 17]:
        add(f"m_dec_fixed{size}", fixed(f"DF{size}", size, "decimal", prec=3, scale=0))
    add("m_dec_fixed2s1", fixed("DFs", 2, "decimal", prec=4, scale=1))
    add("m_record", R())
    add("m_record_req", rec("ns.R", [("a", prim("int")), ("b", prim("string"))]))
    add("m_record_null", rec("ns.R", [("a", prim("int")), ("b", prim("null"))]))
    add("m_record_rev", rec("ns.R", [("a", prim("int")), ("b", un(prim("string"), prim("null")))]))
    add("m_array_int", arr(prim("int")))
    add("m_array_bytes", arr(prim("bytes")))
    add("m_map_int", mp(prim("int")))
    add("m_map_optstr", mp(un(prim("null"), prim("string"))))
    # unions
    add("u_null_int", un(prim("null"), prim("int")))
    add("u_int_null", un(prim("int"), prim("null")))
    add("u_int_long", un(prim("int"), prim("long")))
    add("u_long_float_double", un(prim("long"), prim("float"), prim("double")))
    add("u_null_string_bytes", un(prim("null"), prim("string"), prim("bytes")))
    add("u_int_enum", un(prim("int"), E()))
    add("u_string_enum", un(prim("string"), E()))
    add("u_null_enum", un(prim("null"), E()))
    add("u_null_int_enum", un(prim("null"), prim("int"), E()))
    add("u_bytes_fixed", un(prim("bytes"), F2()))
    add("u_string_fixed", un(prim("string"), F2()))
    add("u_null_record", un(prim("null"), R()))
    add("u_record_map", un(R(), mp(prim("int"))))
    add("u_two_records", un(R(), rec("other.R", [("a", prim("int")), ("b", prim("int"))])))
    add("u_array_bytes", un(arr(prim("int")), prim("bytes")))
    add("u_string_uuid", un(prim("string"), prim("string", "uuid")))
    add("u_null_decimal", un(prim("null"), prim("bytes", "decimal", prec=10, scale=1)))
    add("u_int_decimal", un(prim("int"), prim("bytes", "decimal", prec=10, scale=0)))
    add("u_bytes_duration", un(prim("bytes"), DUR()))
    add("u_string_duration", un(prim("string"), DUR()))
    add("u_null_duration", un(prim("null"), DUR()))
    add("u_date_long", un(prim("int", "date"), prim("long")))
    add("u_bool_double", un(prim("boolean"), prim("double")))
    return out


def record_scope(tier):
    """record schemas for C13/C14: 3 (quick) or 4 (thorough) fields drawn from required scalar, null, [null,T], [T,null],
    nested record, array of records - every field kind in every position at least once."""
    out = []
    n = [0]

    def nm(p):
        n[0] += 1
        return f"{p}{n[0]}"

    def inner():
        return rec(nm("In"), [("x", prim("long")), ("y", un(prim("null"), prim("string")))])

    kinds = {
        "req": lambda: prim("long"),
        "str": lambda: prim("string"),
        "null": lambda: prim("null"),
        "opt": lambda: un(prim("null"), prim("string")),
        "optrev": lambda: un(prim("long"), prim("null")),
        "rec": inner,
        "arr": lambda: arr(inner()),
        "optrec": lambda: un(prim("null"), inner()),
        "byt": lambda: prim("bytes"),
    }
    combos3 = [("req", "opt", "null"), ("opt", "req", "str"), ("rec", "req", "opt"), ("req", "rec", "optrev"),
               ("null", "optrec", "req"), ("arr", "opt", "req"), ("optrev", "null", "rec"), ("str", "arr", "opt"),
               ("byt", "req", "byt"), ("opt", "byt", "rec")]
    combos4 = [("req", "opt", "rec", "null"), ("rec", "rec", "opt", "req"), ("opt", "optrev", "null", "opt"),
               ("arr", "req", "optrec", "str")]
    for cb in combos3 + (combos4 if tier != "quick" else []):
        fields = [(chr(97 + i), kinds[k]()) for i, k in enumerate(cb)]
        out.append({"sid": "rec_" + "_".join(cb), "nodes": flatten(rec(nm("ns.Rec"), fields))["nodes"]})
    return out

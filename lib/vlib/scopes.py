"""Schema scopes: the finite families of schema graphs over which TLC enumerates values.
Schemas are written as small trees and flattened to the exchange format (node vector, 1-based keys,
texts as UTF-8 byte arrays)."""
import itertools


def T(s):
    return list(s.encode("utf8"))


def prim(k, lt="none", **kw):
    d = {"k": k, "lt": lt}
    d.update(kw)
    return d


def arr(x):
    return {"k": "array", "lt": "none", "items": x}


def mp(x):
    return {"k": "map", "lt": "none", "values": x}


def un(*xs):
    return {"k": "union", "lt": "none", "variants": list(xs)}


def rec(name, fields):
    return {"k": "record", "lt": "none", "name": name, "fields": [{"n": n, "t": t} for n, t in fields]}


def enum(name, symbols):
    return {"k": "enum", "lt": "none", "name": name, "symbols": list(symbols)}


def fixed(name, size, lt="none", **kw):
    d = {"k": "fixed", "lt": lt, "name": name, "size": size}
    d.update(kw)
    return d


def ref(name):
    return {"ref": name}


def flatten(tree):
    """tree -> {"nodes": [...]} with 1-based keys; named types are registered by name and `ref`s resolve
    to the key of the (unique) definition."""
    nodes = []
    named = {}
    pending_refs = []

    def place(t):
        if "ref" in t:
            # resolved after the whole tree has been placed
            idx = len(pending_refs)
            pending_refs.append(t["ref"])
            return ("ref", idx)
        key = len(nodes) + 1
        nodes.append(None)
        n = {"k": t["k"], "lt": t.get("lt", "none")}
        if t["k"] in ("record", "enum", "fixed"):
            n["name"] = T(t["name"])
            named[t["name"]] = key
        for extra in ("prec", "scale", "size"):
            if extra in t:
                n[extra] = t[extra]
        nodes[key - 1] = n
        if t["k"] == "array":
            n["items"] = place(t["items"])
        elif t["k"] == "map":
            n["values"] = place(t["values"])
        elif t["k"] == "union":
            n["variants"] = [place(x) for x in t["variants"]]
        elif t["k"] == "record":
            n["fields"] = [{"n": T(f["n"]), "t": place(f["t"])} for f in t["fields"]]
        elif t["k"] == "enum":
            n["symbols"] = [T(s) for s in t["symbols"]]
        return key

    place(tree)

    def res(x):
        if isinstance(x, tuple):
            return named[pending_refs[x[1]]]
        return x

    for n in nodes:
        if "items" in n:
            n["items"] = res(n["items"])
        if "values" in n:
            n["values"] = res(n["values"])
        if "variants" in n:
            n["variants"] = [res(v) for v in n["variants"]]
        if "fields" in n:
            for f in n["fields"]:
                f["t"] = res(f["t"])
    return {"nodes": nodes}


class Namer:
    def __init__(self):
        self.i = 0

    def __call__(self, prefix):
        self.i += 1
        return f"{prefix}{self.i}"


def leaves(nm):
    """one instance of every non-container effective kind (fresh names for named types)"""
    return [
        ("null", prim("null")),
        ("boolean", prim("boolean")),
        ("int", prim("int")),
        ("long", prim("long")),
        ("float", prim("float")),
        ("double", prim("double")),
        ("bytes", prim("bytes")),
        ("string", prim("string")),
        ("enum", enum(nm("ns.E"), ["A", "B", "C"])),
        ("fixed", fixed(nm("F"), 3)),
        ("decimal_bytes", prim("bytes", "decimal", prec=28, scale=2)),
        ("decimal_fixed", fixed(nm("D"), 16, "decimal", prec=28, scale=3)),
        ("decimal_fixed2", fixed(nm("D"), 2, "decimal", prec=4, scale=0)),
        ("bigdecimal", prim("bytes", "big-decimal")),
        ("uuid", prim("string", "uuid")),
        ("date", prim("int", "date")),
        ("time-millis", prim("int", "time-millis")),
        ("time-micros", prim("long", "time-micros")),
        ("timestamp-millis", prim("long", "timestamp-millis")),
        ("timestamp-micros", prim("long", "timestamp-micros")),
        ("duration", fixed(nm("Dur"), 12, "duration")),
        ("unknown_lt", prim("long", "my-logical-type")),
        ("fixed0", fixed(nm("Z"), 0)),
    ]


def codec_scope(tier):
    """schemas for C01/C03/C12/C11 enumeration: every effective kind alone, under each container, pairs of
    containers, plus named-type references, sharing and recursion."""
    nm = Namer()
    out = []

    def add(name, tree):
        g = flatten(tree)
        out.append({"sid": name, "nodes": g["nodes"]})

    for name, t in leaves(nm):
        add(f"leaf_{name}", t)
    for name, t in leaves(nm):
        add(f"array_{name}", arr(t))
    for name, t in leaves(nm):
        add(f"map_{name}", mp(t))
    for name, t in leaves(nm):
        if name != "null":
            add(f"opt_{name}", un(prim("null"), t))
    for i, (name, t) in enumerate(leaves(nm)):
        if name != "null" and i % 2 == 0:
            add(f"optrev_{name}", un(t, prim("null")))
    ls = leaves(nm)
    for i in range(0, len(ls)):
        a, b = ls[i], ls[(i + 7) % len(ls)]
        add(f"rec_{a[0]}_{b[0]}", rec(nm("a.b.R"), [("x", a[1]), ("y", b[1])]))
    # depth 2: container pairs with a rotating leaf
    conts = {
        "array": arr,
        "map": mp,
        "opt": lambda x: un(prim("null"), x),
        "rec": lambda x: rec(nm("R"), [("f", x), ("g", prim("long"))]),
    }
    rot = itertools.cycle([l for l in leaves(nm) if l[0] != "null"])
    reps = 1 if tier == "quick" else 4
    for (on, oc), (inn, ic) in itertools.product(conts.items(), conts.items()):
        if on == "opt" and inn == "opt":
            continue  # a union may not immediately contain a union
        for _ in range(reps):
            ln, lt_ = next(rot)
            lt_ = dict(lt_)
            if "name" in lt_:
                lt_["name"] = nm(lt_["name"].rstrip("0123456789"))
            add(f"{on}_{inn}_{ln}", oc(ic(lt_)))
    # specials
    add("big_union", un(prim("null"), prim("boolean"), prim("long"), prim("double"), prim("bytes"), prim("string"),
                        arr(prim("long")), mp(prim("string")),
                        rec(nm("u.R"), [("a", prim("int"))]), enum(nm("u.E"), ["X", "Y"]), fixed(nm("u.F"), 2)))
    add("int_long_union", un(prim("int"), prim("long"), prim("float"), prim("double")))
    add("rec_list", rec("ns.Node", [("v", prim("long")), ("next", un(prim("null"), ref("ns.Node")))]))
    add("rec_tree", rec("Tree", [("v", prim("int")), ("kids", arr(ref("Tree")))]))
    add("shared_named", rec(nm("S"), [("a", fixed("sh.F", 2)), ("b", ref("sh.F")), ("c", arr(ref("sh.F"))),
                                      ("e", enum("sh.E", ["P", "Q"])), ("e2", un(prim("null"), ref("sh.E")))]))
    add("rec_all", rec(nm("All"), [(f"f{i}", t) for i, (n, t) in enumerate(leaves(nm)) if n != "fixed0"]))
    add("rec_empty", rec(nm("Empty"), []))
    add("arr_rec_empty", arr(rec(nm("Empty"), [])))
    add("map_rec_opt", mp(rec(nm("MR"), [("o", un(prim("null"), prim("string"))), ("l", arr(prim("boolean")))])))
    add("rec_two_names", un(rec("n1.Same", [("a", prim("int"))]), rec("n2.Same", [("a", prim("string"))])))
    # a union whose branches are all references to types defined earlier: it is the LAST node of the vector
    add("rec_union_of_refs_last", rec(nm("UL"), [("a", fixed("ul.F", 2)), ("e", enum("ul.E", ["P", "Q"])), ("r", rec("ul.In", [("x", prim("int"))])),
                                                 ("u", un(ref("ul.F"), ref("ul.E"), ref("ul.In")))]))
    # the natural branch of a value declared after / between branches that could also hold a value of its serde type
    add("u_enum_enum_int_str", un(enum(nm("u3.E"), ["A", "B"]), enum(nm("u3.E2"), ["B", "C"]), prim("int"), prim("string")))
    add("u_null_bytes_fixed_arr", un(prim("null"), prim("bytes"), fixed(nm("u3.F"), 2), arr(prim("int"))))
    add("u_fixed_string_bytes", un(fixed(nm("u4.F"), 3), prim("string"), prim("bytes")))
    add("u_dec_double_float_long", un(prim("bytes", "decimal", prec=10, scale=1), prim("double"), prim("float"), prim("long")))
    if tier != "quick":
        add("deep_arr3", arr(arr(arr(prim("int")))))
        add("rec_in_rec", rec(nm("O"), [("i", rec(nm("I"), [("x", prim("string")), ("y", un(prim("null"), prim("long")))])),
                                        ("z", prim("boolean"))]))
    return out


def matrix_scope(tier):
    """schemas of the C02 (node kind x presentation) matrix: every effective kind at the root, the record / enum /
    fixed shapes the presentations of SerdePres.tla aim at, and small unions exercising the union rule."""
    out = []

    def add(name, tree):
        out.append({"sid": name, "nodes": flatten(tree)["nodes"]})

    R = lambda: rec("ns.R", [("a", prim("int")), ("b", un(prim("null"), prim("string")))])  # noqa: E731
    E = lambda: enum("ns.E", ["A", "B"])  # noqa: E731
    F2 = lambda: fixed("F", 2)  # noqa: E731
    DUR = lambda: fixed("Du", 12, "duration")  # noqa: E731
    for k in ["null", "boolean", "int", "long", "float", "double", "bytes", "string"]:
        add(f"m_{k}", prim(k))
    for k, lt in [("int", "date"), ("int", "time-millis"), ("long", "time-micros"), ("long", "timestamp-millis"),
                  ("long", "timestamp-micros"), ("string", "uuid"), ("bytes", "big-decimal"), ("int", "weird-unknown")]:
        add(f"m_{lt}", prim(k, lt))
    add("m_enum", E())
    add("m_fixed2", F2())
    add("m_fixed0", fixed("F0", 0))
    add("m_fixed12", fixed("F12", 12))
    add("m_duration", DUR())
    add("m_dec_bytes0", prim("bytes", "decimal", prec=10, scale=0))
    add("m_dec_bytes2", prim("bytes", "decimal", prec=10, scale=2))
    add("m_dec_bytes28", prim("bytes", "decimal", prec=29, scale=28))
    for size in [1, 2, 8, 16, 17]:
        add(f"m_dec_fixed{size}", fixed(f"DF{size}", size, "decimal", prec=3, scale=0))
    add("m_dec_fixed2s1", fixed("DFs", 2, "decimal", prec=4, scale=1))
    add("m_record", R())
    add("m_record_req", rec("ns.R", [("a", prim("int")), ("b", prim("string"))]))
    add("m_record_null", rec("ns.R", [("a", prim("int")), ("b", prim("null"))]))
    add("m_record_rev", rec("ns.R", [("a", prim("int")), ("b", un(prim("string"), prim("null")))]))
    add("m_array_int", arr(prim("int")))
    add("m_array_bytes", arr(prim("bytes")))
    add("m_map_int", mp(prim("int")))
    add("m_map_optstr", mp(un(prim("null"), prim("string"))))
    # unions
    add("u_null_int", un(prim("null"), prim("int")))
    add("u_int_null", un(prim("int"), prim("null")))
    add("u_int_long", un(prim("int"), prim("long")))
    add("u_long_float_double", un(prim("long"), prim("float"), prim("double")))
    add("u_null_string_bytes", un(prim("null"), prim("string"), prim("bytes")))
    add("u_int_enum", un(prim("int"), E()))
    add("u_string_enum", un(prim("string"), E()))
    add("u_null_enum", un(prim("null"), E()))
    add("u_null_int_enum", un(prim("null"), prim("int"), E()))
    add("u_bytes_fixed", un(prim("bytes"), F2()))
    add("u_string_fixed", un(prim("string"), F2()))
    add("u_null_record", un(prim("null"), R()))
    add("u_record_map", un(R(), mp(prim("int"))))
    add("u_two_records", un(R(), rec("other.R", [("a", prim("int")), ("b", prim("int"))])))
    add("u_array_bytes", un(arr(prim("int")), prim("bytes")))
    add("u_string_uuid", un(prim("string"), prim("string", "uuid")))
    add("u_null_decimal", un(prim("null"), prim("bytes", "decimal", prec=10, scale=1)))
    add("u_int_decimal", un(prim("int"), prim("bytes", "decimal", prec=10, scale=0)))
    add("u_bytes_duration", un(prim("bytes"), DUR()))
    add("u_string_duration", un(prim("string"), DUR()))
    add("u_null_duration", un(prim("null"), DUR()))
    add("u_date_long", un(prim("int", "date"), prim("long")))
    add("u_bool_double", un(prim("boolean"), prim("double")))
    # three and four branches: the best branch for a presentation declared after / between / before branches that merely could
    # hold it (the per-type lookup keeps a priority and a conflict marker per serde type), and three-way ties
    E2 = lambda: enum("ns.E2", ["B", "C"])  # noqa: E731
    add("u_enum_enum_int", un(E(), E2(), prim("int")))
    add("u_int_enum_enum", un(prim("int"), E(), E2()))
    add("u_enum_int_enum", un(E(), prim("int"), E2()))
    add("u_enum_enum_string", un(E(), E2(), prim("string")))
    add("u_null_bytes_fixed_array", un(prim("null"), prim("bytes"), F2(), arr(prim("int"))))
    add("u_fixed_string_bytes", un(F2(), prim("string"), prim("bytes")))
    add("u_decimal_double_float", un(prim("bytes", "decimal", prec=10, scale=1), prim("double"), prim("float")))
    add("u_enum_long_int", un(E(), prim("long"), prim("int")))
    add("u_three_records", un(R(), rec("other.R", [("a", prim("int")), ("b", prim("int"))]), rec("third.R", [("a", prim("int"))])))
    add("u_null_map_two_records", un(prim("null"), mp(prim("int")), R(), rec("other.R", [("a", prim("int")), ("b", prim("int"))])))
    return out


def record_scope(tier):
    """record schemas for C13/C14: 3 (quick) or 4 (thorough) fields drawn from required scalar, null, [null,T], [T,null],
    nested record, array of records - every field kind in every position at least once."""
    out = []
    n = [0]

    def nm(p):
        n[0] += 1
        return f"{p}{n[0]}"

    def inner():
        return rec(nm("In"), [("x", prim("long")), ("y", un(prim("null"), prim("string")))])

    kinds = {
        "req": lambda: prim("long"),
        "str": lambda: prim("string"),
        "null": lambda: prim("null"),
        "opt": lambda: un(prim("null"), prim("string")),
        "optrev": lambda: un(prim("long"), prim("null")),
        "rec": inner,
        "arr": lambda: arr(inner()),
        "optrec": lambda: un(prim("null"), inner()),
        "byt": lambda: prim("bytes"),
    }
    combos3 = [("req", "opt", "null"), ("opt", "req", "str"), ("rec", "req", "opt"), ("req", "rec", "optrev"),
               ("null", "optrec", "req"), ("arr", "opt", "req"), ("optrev", "null", "rec"), ("str", "arr", "opt"),
               ("byt", "req", "byt"), ("opt", "byt", "rec")]
    combos4 = [("req", "opt", "rec", "null"), ("rec", "rec", "opt", "req"), ("opt", "optrev", "null", "opt"),
               ("arr", "req", "optrec", "str")]
    for cb in combos3 + (combos4 if tier != "quick" else []):
        fields = [(chr(97 + i), kinds[k]()) for i, k in enumerate(cb)]
        out.append({"sid": "rec_" + "_".join(cb), "nodes": flatten(rec(nm("ns.Rec"), fields))["nodes"]})
    return out


def schema_trees(tier, rng=None):
    """target schemas for C07 / C08 / C09 as trees (definitions inline at first occurrence, later uses as refs):
    named types over the namespaces {"", a, a.b, c}, nested through records / arrays / maps / unions, shared and
    recursive types, the same short name in two namespaces, logical types."""
    out = []

    def add(name, tree):
        out.append((name, tree))

    add("prim_long", prim("long"))
    add("prim_lt", prim("int", "date"))
    add("dec_bytes", prim("bytes", "decimal", prec=9, scale=2))
    add("dec_bytes_s0", prim("bytes", "decimal", prec=4, scale=0))
    add("arr_of_map", arr(mp(prim("string"))))
    add("union_prims", un(prim("null"), prim("string"), prim("long")))
    add("enum_ns", enum("a.b.Color", ["RED", "GREEN"]))
    add("fixed_nons", fixed("Hash", 16))
    add("fixed_dec", fixed("a.Money", 8, "decimal", prec=18, scale=4))
    add("rec_simple", rec("a.R", [("x", prim("long")), ("y", prim("string"))]))
    add("rec_nons", rec("R", [("x", prim("long"))]))
    add("rec_nested_same_ns", rec("a.Outer", [("i", rec("a.Inner", [("v", prim("int"))])), ("j", ref("a.Inner"))]))
    add("rec_nested_other_ns", rec("a.Outer", [("i", rec("c.Inner", [("v", prim("int"))])), ("j", ref("c.Inner")), ("k", arr(ref("c.Inner")))]))
    add("rec_nested_null_ns_child", rec("a.Outer", [("i", rec("Inner", [("e", enum("E", ["A"])), ("e2", ref("E"))])), ("z", prim("null"))]))
    add("rec_deeper_ns", rec("a.Outer", [("i", rec("a.b.Inner", [("f", fixed("a.b.F", 4)), ("g", ref("a.b.F"))])), ("h", ref("a.b.F"))]))
    add("same_short_two_ns", rec("top.T", [("p", enum("n1.Kind", ["X", "Y"])), ("q", enum("n2.Kind", ["Y", "X"])), ("r", ref("n1.Kind")), ("s", ref("n2.Kind"))]))
    add("recursive_list", rec("a.Node", [("v", prim("long")), ("next", un(prim("null"), ref("a.Node")))]))
    add("recursive_tree", rec("Tree", [("kids", arr(ref("Tree"))), ("m", mp(ref("Tree")))]))
    add("mutual_recursion", rec("a.A", [("b", un(prim("null"), rec("a.B", [("a", arr(ref("a.A")))])))]))
    add("union_of_named", un(prim("null"), rec("a.R1", [("f", prim("int"))]), enum("a.E1", ["S"]), fixed("c.F1", 2), ref("a.R1")) if False else
        un(prim("null"), rec("a.R1", [("f", prim("int"))]), enum("a.E1", ["S"]), fixed("c.F1", 2)))
    add("map_of_rec_shared", rec("a.Holder", [("m", mp(rec("a.Item", [("id", prim("long"))]))), ("l", arr(ref("a.Item"))), ("o", un(prim("null"), ref("a.Item")))]))
    add("empty_record", rec("a.Empty", []))
    add("rec_with_empty_nested", rec("a.W", [("e", rec("a.E0", [])), ("after", prim("int")), ("u", un()), ("last", enum("a.NoSyms", []))]) if False else
        rec("a.W", [("e", rec("a.E0", [])), ("after", prim("int")), ("last", prim("string"))]))
    add("logical_all", rec("a.L", [("d", prim("int", "date")), ("tm", prim("int", "time-millis")), ("tu", prim("long", "time-micros")),
                                   ("sm", prim("long", "timestamp-millis")), ("su", prim("long", "timestamp-micros")), ("u", prim("string", "uuid")),
                                   ("du", fixed("a.Du", 12, "duration")), ("bd", prim("bytes", "big-decimal")), ("x", prim("string", "custom-lt")),
                                   ("dm", fixed("a.D8", 8, "decimal", prec=10, scale=0))]))
    add("three_levels", rec("a.L1", [("l2", rec("L2", [("l3", rec("a.L3", [("back", un(prim("null"), ref("a.L1")))])), ("again", ref("a.L3"))]))]) if False else
        rec("a.L1", [("l2", rec("a.x.L2", [("l3", rec("a.L3", [("back", un(prim("null"), ref("a.L1")))])), ("again", ref("a.L3"))]))]))
    add("ns_null_ns_again", rec("a.L1", [("l2", rec("L2", [("l3", rec("a.L3", [("back", un(prim("null"), ref("a.L1")))])), ("e", enum("a.E3", ["S"])),
                                                            ("f", fixed("F3", 2)), ("again", ref("a.L3"))])),
                                         ("l3b", ref("a.L3")), ("e2", ref("a.E3"))]))
    add("ns_b_null_b", rec("a.b.M1", [("m2", rec("M2", [("m3", enum("a.b.M3", ["Q"])), ("m4", rec("a.M4", [("x", ref("a.b.M3"))]))]))]))
    # unknown (custom) logical types on every kind of node, named ones included: they are kept, in the graph and in the JSON
    lt_rec = rec("a.LR", [("e", dict(enum("a.LE", ["S", "T"]), lt="custom-enum")), ("f", fixed("a.LF", 3, "custom-fixed")),
                          ("r", dict(rec("a.LI", [("x", prim("int"))]), lt="custom-inner")), ("a", dict(arr(prim("int", "custom-int")), lt="custom-array")),
                          ("again", ref("a.LE"))])
    lt_rec["lt"] = "custom-record"
    add("custom_logical_types", lt_rec)
    # a type used twice AFTER a sibling that allocates nodes of its own: when its definition is moved to the later use, the
    # first (forward) reference is neither the first child of its parent nor held by the most recently reserved node
    add("fwd_after_sibling", rec("a.T", [("a", arr(prim("int"))), ("b", enum("a.E", ["S", "T"])), ("c", ref("a.E"))]))
    add("fwd_in_union_second", rec("a.T", [("x", rec("a.In", [("m", mp(prim("string")))])), ("u", un(prim("null"), enum("a.E", ["S"]))), ("e", ref("a.E"))]))
    # cycles that are NOT unconditional (they pass through an array / a map / a union), over two records, and a later sibling that refers to an earlier one
    add("cond_cycle_two_records", rec("a.Node", [("children", arr(rec("a.Edge", [("target", ref("a.Node")), ("w", prim("int"))])))]))
    add("cond_cycle_map", rec("a.P", [("m", mp(rec("a.Q", [("p", ref("a.P")), ("q", un(prim("null"), ref("a.Q")))])))]))
    add("union_sibling_ref", un(rec("a.A1", [("x", prim("int"))]), rec("a.B1", [("a", ref("a.A1")), ("b", un(prim("null"), ref("a.B1")))])))
    add("thrice_same_record", rec("a.Segment", [("from", rec("a.Point", [("x", prim("int")), ("y", prim("int"))])), ("via", ref("a.Point")), ("to", ref("a.Point")),
                                                 ("more", rec("a.Leg", [("p", ref("a.Point")), ("q", ref("a.Point"))]))]))
    add("enum_no_symbols", rec("a.HE", [("n", prim("int")), ("e", un(prim("null"), enum("a.E0", []))), ("f", arr(ref("a.E0")))]))
    add("fixed_size_zero", rec("a.HZ", [("z", fixed("a.Z0", 0)), ("y", arr(ref("a.Z0")))]))
    add("fwd_in_map", rec("a.T", [("x", arr(prim("long"))), ("m", mp(enum("a.E", ["S"]))), ("n", mp(un(prim("null"), fixed("a.F", 2)))), ("e", ref("a.E")), ("f", ref("a.F"))]))
    add("fwd_two_types", rec("T", [("a", rec("A", [("x", mp(prim("string")))])), ("b", arr(fixed("F", 3))), ("c", ref("F")), ("d", un(prim("null"), enum("E", ["Q"]))),
                                   ("e", arr(ref("E")))]))
    if rng is not None:
        from . import pyavro
        for i in range(12 if tier == "quick" else 120):
            out.append((f"random{i}", random_tree(rng, depth=rng.choice([2, 3, 4]))))
    return out


def random_tree(rng, depth=3):
    """random schema tree with named types over a few namespaces, sharing by reference, recursion through unions/arrays"""
    nss = ["", "a", "a.b", "c"]
    defined = []          # fullnames defined so far (DFS order) - may be referenced later
    counter = [0]
    open_records = []     # records being defined: may be referenced from inside only through union / array / map

    def fresh(prefix, encl_ns):
        counter[0] += 1
        # a null-namespace type may only be defined (and later referenced) where the enclosing namespace is null too
        ns = rng.choice([n for n in nss if not (n == "" and encl_ns != "")] or ["a"])
        return (ns + "." if ns else "") + f"{prefix}{counter[0]}"

    def usable(n, encl_ns):
        return not (split(n)[0] == "" and encl_ns != "")

    def split(full):
        return full.rsplit(".", 1) if "." in full else ("", full)

    def gen(d, encl_ns, guarded):
        c = rng.random()
        cands = [n for n in defined if usable(n, encl_ns) and (guarded or n not in open_records)]
        if cands and c < 0.2:
            return ref(rng.choice(cands))
        if d <= 0 or c < 0.4:
            k = rng.randrange(8)
            if k == 0:
                n = fresh("E", encl_ns)
                defined.append(n)
                return enum(n, ["A", "B", "C"][: rng.randrange(1, 4)])
            if k == 1:
                n = fresh("F", encl_ns)
                defined.append(n)
                return fixed(n, rng.choice([1, 4, 16]))
            if k == 2:
                return prim("bytes", "decimal", prec=rng.randrange(1, 20), scale=rng.choice([0, 0, 2]))
            return prim(rng.choice(["null", "boolean", "int", "long", "float", "double", "bytes", "string"]),
                        rng.choice(["none", "none", "none", "some-lt"]))
        if c < 0.55:
            return arr(gen(d - 1, encl_ns, True))
        if c < 0.65:
            return mp(gen(d - 1, encl_ns, True))
        if c < 0.8:
            bs, kinds = [], set()
            for _ in range(rng.randrange(1, 4)):
                mark = len(defined)
                b = gen(d - 1, encl_ns, True)
                kind = b.get("ref") or b.get("name") or b["k"]
                if b.get("k") == "union" or kind in kinds:
                    del defined[mark:]          # the names defined inside the discarded branch do not exist
                    continue
                kinds.add(kind)
                bs.append(b)
            return un(*bs) if bs else prim("null")
        n = fresh("R", encl_ns)
        defined.append(n)
        open_records.append(n)
        fields = [(f"f{i}", gen(d - 1, split(n)[0], False)) for i in range(rng.randrange(0, 4))]
        open_records.remove(n)
        return rec(n, fields)

    return gen(depth, "", False)

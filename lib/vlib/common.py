"""Shared machinery: harness build/run, TLC runs (model checking, scenario generation, trace validation),
evidence files, known findings, violation reporting."""
import concurrent.futures as cf
import hashlib
import json
import os
import re
import shutil
import subprocess
import sys
import tempfile
import time

VERIF = os.path.dirname(os.path.dirname(os.path.dirname(os.path.abspath(__file__))))
SPEC = os.path.join(VERIF, "spec")
HARNESS = os.path.join(VERIF, "harness")
WORK = os.path.join(VERIF, ".work")
EVID = os.path.join(VERIF, "evidence")
REPLAYS = os.path.join(VERIF, "replays")
REPO = "/repo"
NCPU = os.cpu_count() or 8

EXIT_OK, EXIT_VIOLATION, EXIT_TOOL = 0, 1, 2


class ToolError(Exception):
    pass


def log(*a):
    print(*a, file=sys.stderr, flush=True)


def workdir(name):
    d = os.path.join(WORK, name)
    shutil.rmtree(d, ignore_errors=True)
    os.makedirs(d, exist_ok=True)
    return d


def stable_id(obj):
    return hashlib.sha1(json.dumps(obj, sort_keys=True, separators=(",", ":")).encode()).hexdigest()[:12]


# ------------------------------------------------------------------------------------------------
# harness
# ------------------------------------------------------------------------------------------------
_harness_state = {"built": False, "hooks": "on", "bin": None}


def build_harness():
    """Build /verif/harness against /repo's working tree with the hook cfg on; fall back to cfg off
    (degraded mode) only if the cfg-on build fails while the cfg-off build succeeds."""
    if _harness_state["built"]:
        return _harness_state
    lock_src = os.path.join(REPO, "Cargo.lock")
    if os.path.exists(lock_src) and not os.path.exists(os.path.join(HARNESS, "Cargo.lock")):
        shutil.copy(lock_src, os.path.join(HARNESS, "Cargo.lock"))
    env = dict(os.environ, CARGO_NET_OFFLINE="true")
    t0 = time.time()
    p = subprocess.run(["cargo", "build", "--offline", "--quiet"], cwd=HARNESS, env=env,
                       stdout=subprocess.PIPE, stderr=subprocess.STDOUT, text=True)
    if p.returncode != 0:
        log("harness build with hooks failed; trying degraded (hooks off) build")
        env2 = dict(env, RUSTFLAGS="--check-cfg cfg(ten0_serde_avro_fast_verif)", CARGO_TARGET_DIR=os.path.join(HARNESS, "target", "nohooks"))
        p2 = subprocess.run(["cargo", "build", "--offline", "--quiet", "--config", "build.rustflags=[]"], cwd=HARNESS, env=env2,
                            stdout=subprocess.PIPE, stderr=subprocess.STDOUT, text=True)
        if p2.returncode != 0:
            raise ToolError("harness does not build against /repo:\n" + p.stdout[-4000:])
        _harness_state.update(hooks="unavailable", bin=os.path.join(HARNESS, "target", "nohooks", "debug", "vh"))
    else:
        _harness_state.update(hooks="on", bin=os.path.join(HARNESS, "target", "debug", "vh"))
    _harness_state["built"] = True
    log(f"harness built in {time.time() - t0:.1f}s (hooks: {_harness_state['hooks']})")
    return _harness_state


def _run_harness_shard(cmds, per_cmd_timeout, stack_mb, env_extra):
    """Run commands sequentially in one harness process; if the process dies or hangs, record that as the
    observation of the in-flight command and restart after it."""
    binp = _harness_state["bin"]
    out = []
    i = 0
    env = dict(os.environ, VH_STACK_MB=str(stack_mb))
    env.update(env_extra or {})
    while i < len(cmds):
        batch = cmds[i:]
        with tempfile.TemporaryFile("w+") as fin, tempfile.TemporaryFile("w+") as fout:
            for c in batch:
                fin.write(json.dumps(c, separators=(",", ":")) + "\n")
            fin.seek(0)
            proc = subprocess.Popen([binp, "exec"], stdin=fin, stdout=fout, stderr=subprocess.PIPE, env=env)
            # watchdog: total budget proportional to the batch, checked by polling progress
            last_progress = time.time()
            last_size = 0
            status = None
            while True:
                try:
                    proc.wait(timeout=0.2)
                    status = proc.returncode
                    break
                except subprocess.TimeoutExpired:
                    size = os.fstat(fout.fileno()).st_size
                    if size != last_size:
                        last_size = size
                        last_progress = time.time()
                    elif time.time() - last_progress > per_cmd_timeout:
                        proc.kill()
                        proc.wait()
                        status = "timeout"
                        break
            err_tail = (proc.stderr.read() or b"")[-600:].decode("utf8", "replace")
            fout.seek(0)
            lines = [l for l in fout.read().split("\n") if l.strip()]
        done = []
        for l in lines:
            try:
                done.append(json.loads(l))
            except Exception:
                break  # a partially written last line
        out.extend(done)
        i += len(done)
        if i < len(cmds) and (status != 0 or len(done) < len(batch)):
            # the command at index i did not produce an observation
            if status == "timeout":
                obs = {"res": "timeout"}
            elif isinstance(status, int) and status < 0:
                obs = {"res": "abort", "signal": -status, "stderr": err_tail}
            else:
                obs = {"res": "abort", "status": status, "stderr": err_tail}
            obs["id"] = cmds[i].get("id")
            out.append(obs)
            i += 1
    return out


def run_harness(cmds, nproc=None, per_cmd_timeout=20.0, stack_mb=8, env_extra=None):
    """Execute commands on the real code; returns observations aligned with cmds."""
    build_harness()
    if not cmds:
        return []
    nproc = max(1, min(nproc or NCPU, len(cmds) // 50 + 1))
    shards = [cmds[k::nproc] for k in range(nproc)]
    with cf.ThreadPoolExecutor(nproc) as ex:
        results = list(ex.map(lambda s: _run_harness_shard(s, per_cmd_timeout, stack_mb, env_extra), shards))
    out = [None] * len(cmds)
    for k, res in enumerate(results):
        if len(res) != len(shards[k]):
            raise ToolError(f"harness shard {k}: {len(res)} observations for {len(shards[k])} commands")
        for j, o in enumerate(res):
            out[k + j * nproc] = o
    for c, o in zip(cmds, out):
        if o.get("res") == "tool_error":
            raise ToolError(f"harness tool error on {json.dumps(c)[:300]}: {o.get('msg')}")
    return out


# ------------------------------------------------------------------------------------------------
# TLC
# ------------------------------------------------------------------------------------------------
TLC_JAR_CP = "/opt/veriftools/tla/tla2tools.jar:/opt/veriftools/tla/CommunityModules-deps.jar"

_STATS_RE = re.compile(r"(\d+) states generated, (\d+) distinct states found")
_SCN_RE = re.compile(r'^<<"(SCN|REJECT|INFO)", (.*)>>$')


def _unquote_tla(s):
    """TLC prints strings with backslash escapes; the payload is JSON text."""
    s = s.strip()
    if s.startswith('"') and s.endswith('"'):
        return json.loads(s)
    return s


def run_tlc(module, cfg, env=None, workers=1, timeout=600, xmx="3g", deque=False, tag=None, extra=()):
    """Run TLC on spec/<module>.tla with spec/<cfg>. Returns dict with states, distinct, scn (list of parsed
    JSON payloads of SCN lines), rejects, ok (no error reported), out (tail of output)."""
    tag = tag or f"{module}-{os.getpid()}-{time.time_ns()}"
    md = os.path.join(WORK, "tlc", tag)
    shutil.rmtree(md, ignore_errors=True)
    os.makedirs(md, exist_ok=True)
    jopts = f"-Xss1g -Xmx{xmx}"
    if deque:
        jopts += " -Dtlc2.tool.queue.IStateQueue=StateDeque"
    e = dict(os.environ)
    e.update({k: str(v) for k, v in (env or {}).items()})
    e["JAVA_TOOL_OPTIONS"] = jopts
    # (-Xss on the command line as well: the launcher sizes the MAIN thread from its own arguments, not from JAVA_TOOL_OPTIONS, and TLC
    #  evaluates ASSUMEs and constants there - with the default stack a deep recursion overflows or not depending on what the JIT has compiled)
    cmd = ["timeout", str(int(timeout)), "java", "-Xss1g", "-XX:+UseParallelGC", "-cp", TLC_JAR_CP, "tlc2.TLC",
           "-workers", str(workers), "-metadir", md, "-cleanup", "-noGenerateSpecTE",
           "-config", cfg, *extra, module + ".tla"]
    t0 = time.time()
    p = subprocess.run(cmd, cwd=SPEC, env=e, stdout=subprocess.PIPE, stderr=subprocess.STDOUT, text=True, errors="replace")
    shutil.rmtree(md, ignore_errors=True)
    scn, rejects, infos, other = [], [], [], []
    states = distinct = 0
    for line in p.stdout.split("\n"):
        m = _SCN_RE.match(line)
        if m:
            kind, payload = m.group(1), m.group(2)
            try:
                val = json.loads(_unquote_tla(payload)) if payload.strip().startswith('"') else payload
            except Exception:
                val = payload
            (scn if kind == "SCN" else rejects if kind == "REJECT" else infos).append(val)
            continue
        m = _STATS_RE.search(line)
        if m:
            states, distinct = int(m.group(1)), int(m.group(2))
        other.append(line)
    text = "\n".join(other)
    finished_ok = ("Model checking completed. No error has been found." in text) or ("Finished computing initial states" in text and "No error" in text)
    timed_out = p.returncode == 124
    return {"ok": finished_ok and p.returncode == 0, "rc": p.returncode, "timeout": timed_out, "states": states,
            "distinct": distinct, "scn": scn, "rejects": rejects, "infos": infos,
            "out": text[-6000:], "wall": time.time() - t0}


def run_tlc_sharded(module, cfg, nshards, env=None, timeout=600, xmx="2g", workers=1, parallel=None):
    """Run nshards JVMs with VERIF_NSHARDS / VERIF_SHARD set; results merged."""
    parallel = parallel or min(nshards, NCPU)

    def one(k):
        e = dict(env or {})
        e.update(VERIF_NSHARDS=nshards, VERIF_SHARD=k)
        return run_tlc(module, cfg, env=e, workers=workers, timeout=timeout, xmx=xmx, tag=f"{module}-{os.getpid()}-s{k}")

    with cf.ThreadPoolExecutor(parallel) as ex:
        rs = list(ex.map(one, range(nshards)))
    merged = {"ok": all(r["ok"] for r in rs), "states": sum(r["states"] for r in rs), "distinct": sum(r["distinct"] for r in rs),
              "scn": [s for r in rs for s in r["scn"]], "rejects": [s for r in rs for s in r["rejects"]],
              "timeout": any(r["timeout"] for r in rs), "wall": max(r["wall"] for r in rs),
              "out": "\n-----\n".join(r["out"][-1500:] for r in rs if not r["ok"])}
    return merged


def require_tlc_ok(r, what):
    if not r["ok"]:
        raise ToolError(f"TLC did not complete cleanly for {what} (timeout={r.get('timeout')}):\n{r['out'][-3000:]}")


BIG_WINDOWS = [2147483, 4294967, 9007199254740, 9223372036854775, 18446744073709551]     # SchemaDesc.tla BigPrefix


def tlc_size(n):
    """a fixed `size` as the specification holds it: itself, or (beyond TLC's 32-bit integers) minus (window index * 1000 + last three digits)"""
    if not isinstance(n, int) or isinstance(n, bool) or n < 2_000_000_000:
        return n
    if n // 1000 not in BIG_WINDOWS:
        raise ToolError(f"size {n} is outside the windows of big numbers the specification can name")
    return -((BIG_WINDOWS.index(n // 1000) + 1) * 1000 + n % 1000)


def tlc_sizes(x):
    """events on their way to TLC: every "size" member translated with tlc_size"""
    if isinstance(x, dict):
        return {k: (tlc_size(v) if k in ("size", "prec") else tlc_sizes(v)) for k, v in x.items()}
    if isinstance(x, list):
        return [tlc_sizes(v) for v in x]
    return x


def validate_trace(module, cfg, events, env=None, timeout=600, xmx="2g", tag=None):
    """Trace validation: write events as ndjson, run the trace spec (which reads IOEnv.VERIF_TRACE) with one
    worker and the depth-first queue. Returns dict(ok, accepted, first_unmatched (1-based index or None),
    states, wall). The trace spec prints <<"REJECT", idx>> from its POSTCONDITION when it cannot match everything."""
    tag = tag or f"trace-{module}-{os.getpid()}-{time.time_ns()}"
    d = os.path.join(WORK, "traces")
    os.makedirs(d, exist_ok=True)
    path = os.path.join(d, tag + ".ndjson")
    with open(path, "w") as f:
        for ev in events:
            f.write(json.dumps(tlc_sizes(ev), separators=(",", ":")) + "\n")
    e = dict(env or {})
    e["VERIF_TRACE"] = path
    r = run_tlc(module, cfg, env=e, workers=1, timeout=timeout, xmx=xmx, deque=True, tag=tag)
    first = None
    for rej in r["rejects"]:
        try:
            first = int(str(rej).strip().strip('"'))
        except Exception:
            first = -1
    accepted = r["rc"] == 0 and not r["rejects"] and "Model checking completed. No error has been found." in r["out"]
    try:
        os.remove(path)
    except OSError:
        pass
    tool_ok = accepted or first is not None
    return {"accepted": accepted, "first_unmatched": first, "tool_ok": tool_ok, "states": r["states"],
            "distinct": r["distinct"], "wall": r["wall"], "out": r["out"], "timeout": r["timeout"]}


def validate_traces_parallel(module, cfg, event_lists, env=None, timeout=600, xmx="2g", parallel=None):
    parallel = parallel or min(len(event_lists), NCPU) or 1
    with cf.ThreadPoolExecutor(parallel) as ex:
        return list(ex.map(lambda it: validate_trace(module, cfg, it[1], env=env, timeout=timeout, xmx=xmx,
                                                     tag=f"trace-{module}-{os.getpid()}-{it[0]}"),
                           list(enumerate(event_lists))))


# ------------------------------------------------------------------------------------------------
# known findings, violations, evidence
# ------------------------------------------------------------------------------------------------
def load_known_findings():
    p = os.path.join(VERIF, "known_findings.json")
    if not os.path.exists(p):
        return {"known": [], "fixed": []}
    return json.load(open(p))


CURRENT_REPORT = [None]      # the report of the run in progress (bin/check: violations already established survive a later tool error)


class Report:
    """Collects violations of one property run, matches them against known findings, writes replay files."""

    def __init__(self, prop, tier, seed):
        self.prop, self.tier, self.seed = prop, tier, seed
        self.violations = []       # (key, description, replay_path)
        self.known_hits = {}       # finding id -> count
        self.kf = [k for k in load_known_findings().get("known", []) if k.get("property") == prop]
        self.n = 0
        self.notes = []
        CURRENT_REPORT[0] = self
        d = os.path.join(REPLAYS, prop)
        if os.path.isdir(d):     # replay files of an earlier run with the same tier/seed are stale
            for f in os.listdir(d):
                if f.startswith(f"{tier}-{seed}-"):
                    os.remove(os.path.join(d, f))

    def _match_known(self, scenario):
        for k in self.kf:
            m = k.get("match", {})
            if all(_match_field(scenario, path, want) for path, want in m.items()):
                return k
        return None

    def violation(self, what, scenario, expected=None, observed=None, replay_cmd=None):
        """Record a violation; scenario must be a JSON-able dict that `check --replay` can re-run."""
        k = self._match_known(scenario)
        if k is not None:
            self.known_hits[k["id"]] = self.known_hits.get(k["id"], 0) + 1
            return
        self.n += 1
        if self.n > 25:      # keep the first ones; count the rest
            return
        d = os.path.join(REPLAYS, self.prop)
        os.makedirs(d, exist_ok=True)
        path = os.path.join(d, f"{self.tier}-{self.seed}-{self.n}.json")
        with open(path, "w") as f:
            json.dump({"property": self.prop, "what": what, "scenario": scenario, "expected": expected,
                       "observed": observed}, f, indent=1)
        self.violations.append((what, path))

    def note(self, what):
        """something the specification did not expect but that no property forbids (e.g. the internal state shown by a hook differs
        from the implementation-shaped model while every result is as required): recorded, never an alarm"""
        self.notes.append(what)
        if len(self.notes) <= 5:
            log("NOTE (no violation): " + what[:400])

    def finish(self):
        if self.notes:
            try:
                evp = os.path.join(EVID, f"{self.prop}.json")
                ev = json.load(open(evp))
                ev["coverage"]["hook_drift_notes"] = self.notes[:20]
                ev["coverage"]["hook_drift_count"] = len(self.notes)
                json.dump(ev, open(evp, "w"), indent=1)
            except Exception:
                pass
        for k in self.kf:
            if self.known_hits.get(k["id"]):
                print(f"KNOWN-FINDING: property={self.prop} {k['id']}: {k['what']} (hit {self.known_hits[k['id']]}x)")
        for what, path in self.violations:
            print(f"VIOLATION property={self.prop} replay={path}")
            log(f"  {what}")
        if self.n > len(self.violations):
            log(f"  (+{self.n - len(self.violations)} further violations not written out)")
        return EXIT_VIOLATION if self.n else EXIT_OK


def _match_field(obj, path, want):
    cur = obj
    for part in path.split("."):
        if isinstance(cur, dict) and part in cur:
            cur = cur[part]
        else:
            return False
    return cur == want


def write_evidence(prop, tier, seed, level, coverage, assumptions, wall_s, violations):
    os.makedirs(EVID, exist_ok=True)
    ev = {"property_id": prop, "tier": tier, "seed": int(seed), "level": level, "coverage": coverage,
          "assumptions": assumptions, "wall_s": round(wall_s, 2), "violations": int(violations)}
    with open(os.path.join(EVID, f"{prop}.json"), "w") as f:
        json.dump(ev, f, indent=1)

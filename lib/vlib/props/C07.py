"""C07 - schema parsing resolves names per the specification; invalid schemas are rejected.
(The same events also carry what C08 and C09 state about parsed documents: fingerprint = CRC-64-AVRO of the
Parsing Canonical Form, the schema's own JSON text denotes the same schema.)"""
import json
import random
import time

from .. import common, schemadoc, scopes

PROP = "C07"


def parse_event(doc, o):
    ev = {"ev": "parse", "doc": doc, "res": o.get("res"), "checks": ["graph"]}
    if o.get("res") == "ok":
        ev.update(nodes=o["nodes"], fp=o["fp"], has_pcf=bool(o.get("has_pcf")), pcf=o.get("pcf", []),
                  json_nodes=o["json_nodes"] if isinstance(o["json_nodes"], list) else [])
    return ev


def make_cases(tier, rng):
    trees = scopes.schema_trees(tier, rng)
    cases = []      # (name, doc, text, kind)
    n_spell = 4 if tier == "quick" else 16
    for name, t in trees:
        for j in range(n_spell):
            tt = schemadoc.move_definitions(t, rng) if j % 2 else t
            doc = schemadoc.spell(tt, rng, plain=(j == 0))
            cases.append((name, doc, schemadoc.render(doc, rng, j % 3), "valid"))
            if j < (2 if tier == "quick" else 6):
                inv = schemadoc.invalidate(doc, rng)
                if inv:
                    cases.append((name, inv[0], schemadoc.render(inv[0], rng, j % 3), "invalid:" + inv[1]))
    # hand-written unconditional cycles through sibling definitions (definition after use)
    A = schemadoc.obj("record", hasName=True, name=scopes.T("A"), hasFields=True, fields=[{"n": scopes.T("b"), "t": {"d": "ref", "t": scopes.T("B")}}])
    B = schemadoc.obj("record", hasName=True, name=scopes.T("B"), hasFields=True, fields=[{"n": scopes.T("a"), "t": {"d": "ref", "t": scopes.T("A")}}])
    cyc = {"d": "union", "es": [A, B]}
    cases.append(("sibling_cycle", cyc, schemadoc.render(cyc, rng, 0), "invalid:sibling_cycle"))
    ok_cyc = json.loads(json.dumps(cyc))
    ok_cyc["es"][1]["fields"][0]["t"] = {"d": "union", "es": [{"d": "prim", "k": "null"}, {"d": "ref", "t": scopes.T("A")}]}
    cases.append(("sibling_conditional_cycle", ok_cyc, schemadoc.render(ok_cyc, rng, 0), "valid"))
    # the same unqualified forward reference "X" from two namespaces, each defined later in its own namespace
    TT = scopes.T

    def R(name, fields):
        return schemadoc.obj("record", hasName=True, name=TT(name), hasFields=True, fields=[{"n": TT(n), "t": t} for n, t in fields])
    fwd = R("top.T", [("a", R("n1.A", [("x", {"d": "ref", "t": TT("X")})])), ("b", R("n2.B", [("x", {"d": "ref", "t": TT("X")})])),
                      ("c", schemadoc.obj("fixed", hasName=True, name=TT("n1.X"), hasSize=True, size=1)),
                      ("d", schemadoc.obj("enum", hasName=True, name=TT("n2.X"), hasSymbols=True, symbols=[TT("S")]))])
    cases.append(("same_forward_ref_two_ns", fwd, schemadoc.render(fwd, rng, 0), "valid"))
    fwd_bad = json.loads(json.dumps(fwd))
    fwd_bad["fields"] = fwd_bad["fields"][:3]
    cases.append(("same_forward_ref_two_ns_one_undefined", fwd_bad, schemadoc.render(fwd_bad, rng, 0), "invalid:unknown_ref"))
    # fixed sizes beyond 32 bits (the specification names them through SizeText's windows; nothing is allocated for a schema)
    for bi, big in enumerate((2 ** 31, 2 ** 32, 2 ** 32 + 5, 2 ** 53 + 1, 2 ** 63, 2 ** 64 - 1)):
        tb = scopes.rec("a.Holder", [("f", scopes.fixed(f"a.Big{bi}", big)), ("g", scopes.arr(scopes.ref(f"a.Big{bi}")))])
        docb = schemadoc.spell(tb, rng, plain=(bi % 2 == 0))
        cases.append((f"fixed_size_{big}", docb, schemadoc.render(docb, rng, bi % 3), "valid"))
    # a decimal precision beyond 32 bits (the same windows of big numbers; a precision is only ever compared)
    tp = scopes.rec("a.HP", [("d", scopes.prim("bytes", lt="decimal", prec=2 ** 32 + 10, scale=3)), ("e", scopes.fixed("a.FP", 20, lt="decimal", prec=2 ** 32, scale=0))])
    docp = schemadoc.spell(tp, rng, plain=True)
    cases.append(("decimal_precision_beyond_32_bits", docp, schemadoc.render(docp, rng, 0), "valid"))
    # a reference that designates a fullname nobody defines, while a type of the same short name exists in the null namespace (or
    # in another namespace): the reference does not fall back to it
    kind0 = schemadoc.obj("enum", hasName=True, name=TT("Kind"), hasSymbols=True, symbols=[TT("S")])
    for refname, what in (("Kind", "bare name inside namespace ns"), ("ns.Kind", "dotted name"), ("other.Kind", "another namespace")):
        nofb = R("Top", [("k", kind0), ("inner", R("ns.In", [("x", {"d": "ref", "t": TT(refname)})]))])
        cases.append((f"no_fallback_to_null_namespace ({what})", nofb, schemadoc.render(nofb, rng, 0), "invalid:unknown_ref"))
    okref = R("Top", [("k", kind0), ("inner", R("ns.In", [("x", {"d": "ref", "t": TT(".Kind")})]))])
    cases.append(("leading_dot_reaches_null_namespace", okref, schemadoc.render(okref, rng, 0), "valid"))
    return cases


def run_cases(rep, cases, prop, label):
    cmds = [{"op": "schema_parse", "id": i, "text": text} for i, (_, _, text, _) in enumerate(cases)]
    obs = common.run_harness(cmds, per_cmd_timeout=30)
    events = []
    for (name, doc, text, kind), o in zip(cases, obs):
        if o.get("res") not in ("ok", "err"):
            rep.violation(f"parsing schema document '{name}' ({kind}) did not return: {o.get('res')}", {"fam": "schema_doc", "text": text, "doc": doc},
                          expected="Ok or Err", observed=o)
            events.append(None)
            continue
        events.append(parse_event(doc, o))
    idx = [i for i, e in enumerate(events) if e is not None]
    evs = [events[i] for i in idx]
    nch = min(common.NCPU, max(1, len(evs) // 40))
    chunks = [evs[k::nch] for k in range(nch)]
    cidx = [idx[k::nch] for k in range(nch)]
    results = common.validate_traces_parallel("Trace_Schema", "Trace_Schema.cfg", chunks, timeout=1500)
    for k, res in enumerate(results):
        rest, rest_idx = chunks[k], cidx[k]
        guard = 0
        while not res["accepted"] and guard < 8:
            guard += 1
            fu = res["first_unmatched"]
            if fu is None or fu < 1:
                raise common.ToolError("Trace_Schema failed without reject index:\n" + res["out"][-2500:])
            i = rest_idx[fu - 1]
            name, doc, text, kind = cases[i]
            rep.violation(f"{label}: document '{name}' ({kind}): parser answered {obs[i].get('res')} {obs[i].get('msg', '')[:120]} - rejected by Trace_Schema",
                          {"fam": "schema_doc", "text": text, "doc": doc, "kind": kind.split(":")[-1], "name": name},
                          expected="Resolve / Pcf / CRC-64-AVRO (SchemaDesc.tla, Crc.tla)", observed={k2: v for k2, v in obs[i].items() if k2 not in ("nodes", "json_nodes")})
            rest, rest_idx = rest[fu:], rest_idx[fu:]
            if not rest:
                break
            res = common.validate_trace("Trace_Schema", "Trace_Schema.cfg", rest, timeout=1500)
    return evs, obs, nch


def binding(evs):
    for e in evs:
        if e["res"] == "ok" and len(e["nodes"]) > 1:
            bad = json.loads(json.dumps(e))
            n0 = bad["nodes"][-1]
            if "name" in n0:
                n0["name"] = n0["name"] + [88]
            else:
                n0["k"] = "double" if n0["k"] != "double" else "float"
            good_ok = common.validate_trace("Trace_Schema", "Trace_Schema.cfg", [e])["accepted"]
            if good_ok and common.validate_trace("Trace_Schema", "Trace_Schema.cfg", [bad])["accepted"]:
                raise common.ToolError("Trace_Schema accepted a corrupted fingerprint: vacuous")
            return


def run(tier, seed):
    t0 = time.time()
    rep = common.Report(PROP, tier, seed)
    common.build_harness()
    crc = common.run_tlc("MC_Crc", "MC_Crc.cfg", workers=1, timeout=300)
    common.require_tlc_ok(crc, "Crc sanity theorems")
    rng = random.Random(seed)
    cases = make_cases(tier, rng)
    evs, obs, ntr = run_cases(rep, cases, PROP, "name resolution")
    binding(evs)
    kinds = {}
    for c in cases:
        kinds[c[3].split(":")[0]] = kinds.get(c[3].split(":")[0], 0) + 1
    cov = {
        "states": len(evs) + 1, "transitions": len(evs), "traces_validated_against_impl": ntr,
        "evaluations": len(cases), "distinct_nontrivial": len({c[2] for c in cases}),
        "rule": "target schemas (hand-written namespace arrangements: same/other/deeper/null namespace children, same short name in two namespaces, shared, "
                "recursive and mutually recursive types, all logical types; plus seeded random trees) x spellings (dotted name / namespace attribute incl. "
                "\"\" / inherited; bare / dotted / leading-dot references; definition at first or at a later use = forward reference; optional scale) x lexical styles "
                "(attribute order, whitespace, extra doc / aliases / order / custom attributes); invalid mutations (unknown reference, duplicate definition, each "
                "required attribute dropped, a record containing itself). TLC computes Resolve(doc) and compares with the parsed node vector, the fingerprint and "
                "the canonical form text.",
        "by_kind": kinds, "samples": [cases[1][2], cases[-1][2]], "exhaustive": False,
    }
    common.write_evidence(PROP, tier, seed, "model_checking", cov,
                          ["oracle = SchemaDesc.tla (Resolve written from the Avro specification's wording), Crc.tla (self-checked)",
                           "the renderer from document AST to JSON text is trusted (it writes exactly the attributes the AST holds)",
                           f"harness hooks: {common.build_harness()['hooks']}"], time.time() - t0, rep.n)
    return rep.finish()


def replay(path):
    rec = json.load(open(path))
    sc = rec["scenario"]
    o = common.run_harness([{"op": "schema_parse", "id": 0, "text": sc["text"]}])[0]
    print(json.dumps({k: v for k, v in o.items() if k not in ("nodes", "json_nodes")})[:1500])
    ok = o.get("res") in ("ok", "err") and common.validate_trace("Trace_Schema", "Trace_Schema.cfg", [parse_event(sc["doc"], o)])["accepted"]
    if not ok:
        print(f"VIOLATION property={rec.get('property', PROP)} replay={path}")
        return common.EXIT_VIOLATION
    return common.EXIT_OK

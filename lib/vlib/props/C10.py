"""C10 - no undefined behaviour from the self-referential schema / reader in any history.

spec/Lifecycle.tla is the ownership design (slots, Arc handles, config borrows, readers, node-vector allocations and
who holds raw references into them).  TLC checks the design invariants on all histories within the bounds, refutes
two mutated designs, and GENERATES histories: one per abstract state at a fixed depth (breadth-first) plus random
long walks (simulation).  The interpreter `vl` (safe Rust only) executes them on the real API
  - natively, with `par_use` on real threads compared with the sequential execution of the same scripts,
  - under Miri (Stacked Borrows, data-race detection), the oracle for undefined behaviour.
A detector report, a crash, or a thread/sequential difference is a violation."""
import concurrent.futures as cf
import json
import os
import random
import re
import shutil
import subprocess
import time

from .. import common

PROP = "C10"
THOROUGH_SEEDS = 1        # seeds per thorough run (bin/check)
VL = os.path.join(common.VERIF, "harness_life")
VL_BIN = os.path.join(common.HARNESS, "target", "vl", "debug", "vl")
INTERESTING = {"freeze": 3, "move": 3, "take_schema": 3, "drop_reader": 2, "par_use": 2, "to_arc": 2, "drop_handle": 2, "clone_arc": 1, "new_cfg": 2,
               "ser": 1, "de": 1, "read": 1, "move_reader": 2, "use_values": 1, "debug": 1, "edit": 1, "drop_schema": 2, "build": 1}


def build_vl():
    lock_src = os.path.join(common.REPO, "Cargo.lock")
    if os.path.exists(lock_src) and not os.path.exists(os.path.join(VL, "Cargo.lock")):
        shutil.copy(lock_src, os.path.join(VL, "Cargo.lock"))
    p = subprocess.run(["cargo", "build", "--offline", "--quiet"], cwd=VL, env=dict(os.environ, CARGO_NET_OFFLINE="true"),
                       stdout=subprocess.PIPE, stderr=subprocess.STDOUT, text=True)
    if p.returncode != 0:
        raise common.ToolError("the lifecycle interpreter does not build against /repo:\n" + p.stdout[-3000:])


def tlc_histories(cfg, simulate=None, seed=1, timeout=900):
    extra = ()
    if simulate:
        extra = ("-simulate", f"num={simulate[0]}", "-depth", str(simulate[1]), "-seed", str(seed))
    r = common.run_tlc("Lifecycle", cfg, workers=1 if simulate else 4, timeout=timeout, extra=extra)
    if not simulate:
        common.require_tlc_ok(r, cfg)
    elif r["rc"] not in (0,) and not r["scn"]:
        raise common.ToolError("Lifecycle simulation failed:\n" + r["out"][-2000:])
    out, seen = [], set()
    for h in r["scn"]:
        k = json.dumps(h, sort_keys=True)
        if k not in seen:
            seen.add(k)
            out.append(h)
    return r, out


def score(h):
    ops = [o["op"] for o in h]
    sc = sum(INTERESTING.get(o, 0) for o in set(ops))
    if any(o["op"] in ("build", "parse") and o.get("bad", 0) > 0 for o in h) and "freeze" in ops:
        sc += 6         # error path of freeze
    if "take_schema" in ops and "drop_reader" in ops:
        sc += 4
    if any(o["op"] == "read" and o.get("mode") == "borrowed" for o in h):
        sc += 2
    return sc


def run_native(path, seq=False, timeout=900):
    p = subprocess.run([VL_BIN, path] + (["--seq"] if seq else []), stdout=subprocess.PIPE, stderr=subprocess.PIPE, text=True, timeout=timeout)
    logs = {}
    for ln in p.stdout.splitlines():
        try:
            o = json.loads(ln)
            logs[o["h"]] = o["log"]
        except ValueError:
            pass
    return p.returncode, logs, p.stderr


def run_miri(path, n, flags, timeout):
    env = dict(os.environ, CARGO_NET_OFFLINE="true", MIRIFLAGS=flags, VL_ROUNDS="1")
    try:
        p = subprocess.run(["cargo", "+nightly", "miri", "run", "--offline", "--quiet", "--", path], cwd=VL, env=env, stdout=subprocess.PIPE,
                           stderr=subprocess.PIPE, text=True, timeout=timeout)
        rc, so, se = p.returncode, p.stdout, p.stderr
    except subprocess.TimeoutExpired as e:
        rc = -9
        so = e.stdout.decode() if isinstance(e.stdout, bytes) else (e.stdout or "")
        se = "timeout"
    logs = {}
    for ln in so.splitlines():
        try:
            o = json.loads(ln)
            logs[o["h"]] = o["log"]
        except ValueError:
            pass
    return rc, logs, se


def judge_logs(rep, hists, rc, logs, stderr, how):
    """panic / crash / mismatch -> violations; MODEL-MISMATCH -> tool error"""
    if "MODEL-MISMATCH" in stderr:
        raise common.ToolError(f"the interpreter and Lifecycle.tla disagree ({how}):\n{stderr[-1500:]}")
    for i, h in enumerate(hists):
        lg = logs.get(i)
        if lg is None:
            if rc != 0 and (i == 0 or (i - 1) in logs):
                rep.violation(f"history {i} ({how}): the process ended with rc {rc}: {stderr.strip()[-400:]}", {"fam": "lifecycle", "history": h, "how": how},
                              expected="every history runs to its end", observed=stderr[-3000:])
            continue
        # conformance with Lifecycle.tla's Freeze: a SchemaMut with a dangling key must be refused, a sound one accepted
        built = {}
        for o_ in h:
            if o_["op"] in ("parse", "build"):
                built[o_["s"]] = o_.get("bad", 0)
        for ln in lg:
            if ln.startswith("freeze s"):
                sl = int(ln.split()[1][1:])
                want = "err" if built.get(sl, 0) > 0 else "ok"
                if ln.split()[2] != want:
                    rep.violation(f"history {i} ({how}): freeze of a SchemaMut {'with a dangling key ' if want == 'err' else ''}answered '{ln.split()[2]}', the model says {want}: {ln[:120]}",
                                  {"fam": "lifecycle", "history": h, "how": how}, expected=f"Lifecycle!Freeze: {want}", observed=ln)
        for ln in lg:
            if ln.startswith("reader_teardown") and "input_saw_schema=0" in ln:
                rep.violation(f"history {i} ({how}): a container reader released its schema before its internal state (its input, dropped with that state, "
                              f"could no longer reach the schema): {ln[:120]}", {"fam": "lifecycle", "history": h, "how": how},
                              expected="Lifecycle!DropReader1 then DropReader2: the state goes first, the Arc last", observed=ln)
        bad = [ln for ln in lg if "PAR-MISMATCH" in ln]
        if bad:
            rep.violation(f"history {i} ({how}): concurrent use of one schema gives results that differ from sequential use: {bad[0][:300]}",
                          {"fam": "lifecycle", "history": h, "how": how}, expected="threads = sequential", observed=bad)


def run(tier, seed):
    t0 = time.time()
    rep = common.Report(PROP, tier, seed)
    build_vl()
    # A. the design
    mc = common.run_tlc("Lifecycle", "MC_Lifecycle.cfg" if tier == "quick" else "MC_Lifecycle_thorough.cfg", workers=8, timeout=3000, xmx="8g")
    common.require_tlc_ok(mc, "Lifecycle invariants")
    for m in ("MC_Lifecycle_mut1.cfg", "MC_Lifecycle_mut2.cfg"):
        r = common.run_tlc("Lifecycle", m, workers=4, timeout=600)
        if r["ok"] or "is violated" not in r["out"]:
            raise common.ToolError(f"Lifecycle accepts the mutated design {m}: the invariants are vacuous")
    # B. histories
    _, bfs = tlc_histories("MC_Lifecycle_emit.cfg" if tier == "quick" else "MC_Lifecycle_emit_thorough.cfg", timeout=3000)
    _, sim = tlc_histories("MC_Lifecycle_sim.cfg", simulate=(2000 if tier == "quick" else 20000, 24), seed=seed)
    # simulation prints several end states per walk: keep one per 12-op prefix
    seen, sim1 = set(), []
    for h in sim:
        k = json.dumps(h[:12])
        if k not in seen:
            seen.add(k)
            sim1.append(h)
    # a fixed core, always run (also under Miri): every dangling-key position on both graphs, through parse and build
    core = [[{"op": "build", "s": 1, "g": g, "bad": b}, {"op": "edit", "s": 1}, {"op": "freeze", "s": 1}, {"op": "use_values"}] for g in (1, 2) for b in (1, 2, 3)]
    core += [[{"op": "build", "s": 1, "g": g, "bad": 0}, {"op": "freeze", "s": 1}, {"op": "move", "s": 1}, {"op": "de", "s": 1, "mode": "borrowed"}, {"op": "move", "s": 1},
              {"op": "new_cfg", "s": 1}, {"op": "ser", "s": 1, "v": 2}, {"op": "drop_cfg", "s": 1}, {"op": "move", "s": 1}, {"op": "debug", "s": 1},
              {"op": "drop_schema", "s": 1}, {"op": "use_values"}] for g in (1, 2)]
    # huge keys on a node the root does not reach (index * node size wraps around the address space; large powers of two and their
    # successors; the smallest indexes whose product with every plausible node size overflows): Lifecycle!Freeze says err for each
    huge = [(1 << sh) | low for sh in range(56, 64) for low in range(3)] + [(2 ** 64 - 1) // sz + 1 for sz in range(8, 2049, 8)] + \
           [2 ** 64 - 1, 2 ** 63 - 1, 2 ** 32, 2 ** 32 + 1]
    sweeps = [[{"op": "build", "s": 1, "g": 1 + (k // 2) % 2, "bad": 4, "key": str(huge[k])}, {"op": "freeze", "s": 1}] +
              ([{"op": "build", "s": 2, "g": 2 - (k // 2) % 2, "bad": 4, "key": str(huge[k + 1])}, {"op": "freeze", "s": 2}] if k + 1 < len(huge) else []) +
              [{"op": "use_values"}] for k in range(0, len(huge), 2)]
    # the order in which a reader lets go of its state and of its schema, seen by an input that watches the schema (DropReader1 / DropReader2)
    teardowns = [[{"op": "reader_teardown", "codec": cd, "file": fl, "reads": k, "take": tk}, {"op": "use_values"}]
                 for cd in ("null", "deflate") for fl, k in (("ok", 0), ("ok", 1), ("ok", 99), ("badsync", 99), ("truncated", 99)) for tk in (False, True)]
    core += teardowns
    core += [sweeps[1], sweeps[11]]        # (two of them under Miri as well)
    core_n = len(core)
    core = core + sweeps                   # all of them natively and against Trace_Lifecycle
    hists = core + bfs + sim1
    work = common.workdir(f"c10-{os.getpid()}")
    allp = os.path.join(work, "all.ndjson")
    with open(allp, "w") as f:
        for h in hists:
            f.write(json.dumps(h) + "\n")
    rng0 = random.Random(seed + 5)
    # native: threads and sequential
    rc, logs, se = run_native(allp)
    judge_logs(rep, hists, rc, logs, se, "native, threads")
    rc2, logs2, se2 = run_native(allp, seq=True)
    judge_logs(rep, hists, rc2, logs2, se2, "native, sequential")
    # trace validation of the native runs against Lifecycle.tla: every operation enabled in the model, freeze as predicted, and the
    # Arc strong counts observed at drop_handle = the owners the model attributes to the allocation
    tv_hist = list(range(len(core))) + rng0.sample(range(len(core), len(hists)), min(len(hists) - len(core), 2500 if tier == "quick" else 25000))
    tevents, towner = [], []
    for i in tv_hist:
        lg = logs.get(i)
        if lg is None or len(lg) < len(hists[i]) or any(o_["op"] == "reader_teardown" for o_ in hists[i]):
            continue
        tevents.append({"op": {"op": "reset"}, "res": "", "strong": -1})
        towner.append(i)
        for o_, ln in zip(hists[i], lg):
            ev = {"op": {k_: v_ for k_, v_ in o_.items() if k_ != "key"}, "res": "", "strong": -1}      # (the key's value is the interpreter's business: bad = 4)
            if o_["op"] == "freeze":
                ev["res"] = ln.split()[2] if len(ln.split()) > 2 else "?"
            elif o_["op"] == "drop_handle":
                m_ = re.search(r"strong was (\d+)", ln)
                ev["strong"] = int(m_.group(1)) if m_ else -2
            tevents.append(ev)
            towner.append(i)
            if o_["op"] == "drop_reader":
                tevents.append({"op": {"op": "drop_reader2"}, "res": "", "strong": -1})
                towner.append(i)
    nch = common.NCPU
    per = (len(tevents) + nch - 1) // nch
    # cut at history boundaries
    chunks, owners_c, cur, cur_o = [], [], [], []
    for ev, ow in zip(tevents, towner):
        if ev["op"]["op"] == "reset" and len(cur) >= per:
            chunks.append(cur)
            owners_c.append(cur_o)
            cur, cur_o = [], []
        cur.append(ev)
        cur_o.append(ow)
    if cur:
        chunks.append(cur)
        owners_c.append(cur_o)
    results = common.validate_traces_parallel("Trace_Lifecycle", "Trace_Lifecycle.cfg", chunks, timeout=2400)
    n_tv = 0
    for ch, ow, res in zip(chunks, owners_c, results):
        rest, rest_o, guard = ch, ow, 0
        while not res["accepted"] and guard < 6:
            guard += 1
            fu = res["first_unmatched"]
            if fu is None or fu < 1 or fu > len(rest):
                raise common.ToolError("Trace_Lifecycle failed without a usable reject index:\n" + res["out"][-2500:])
            i = rest_o[fu - 1]
            ev = rest[fu - 1]
            if ev["op"]["op"] == "drop_handle":
                rep.note(f"history {i}: Arc::strong_count {ev['strong']} at drop_handle differs from the owners Lifecycle.tla attributes to the node vector")
            elif ev["op"]["op"] == "freeze":
                rep.violation(f"history {i}: {ev['op']} answered res='{ev['res']}' strong={ev['strong']}: not what Lifecycle.tla predicts (freeze outcome / owners of the node vector)",
                              {"fam": "lifecycle", "history": hists[i], "how": "trace"}, expected="Trace_Lifecycle!ObsOk", observed=logs.get(i))
            else:
                raise common.ToolError(f"Lifecycle.tla does not enable operation {ev['op']} of a history it generated (history {i})")
            j = fu
            while j < len(rest) and rest[j]["op"]["op"] != "reset":
                j += 1
            rest, rest_o = rest[j:], rest_o[j:]
            if not rest:
                break
            res = common.validate_trace("Trace_Lifecycle", "Trace_Lifecycle.cfg", rest, timeout=2400)
        n_tv += len(ch)
    # binding: a wrong strong count / freeze answer must be rejected
    probe = [e for e in tevents if e["op"]["op"] == "drop_handle"]
    if probe:
        k = tevents.index(probe[0])
        start = max(j for j in range(k + 1) if tevents[j]["op"]["op"] == "reset")
        good = tevents[start:k + 1]
        badt = json.loads(json.dumps(good))
        badt[-1]["strong"] += 1
        if common.validate_trace("Trace_Lifecycle", "Trace_Lifecycle.cfg", good)["accepted"] and common.validate_trace("Trace_Lifecycle", "Trace_Lifecycle.cfg", badt)["accepted"]:
            raise common.ToolError("Trace_Lifecycle accepts a wrong strong count: vacuous")
    nondet = 0
    for i in range(len(hists)):
        a, b = logs.get(i), logs2.get(i)
        if a is not None and b is not None:
            a1 = [x for x in a if not x.startswith("par_use")]
            b1 = [x for x in b if not x.startswith("par_use")]
            if a1 != b1:
                nondet += 1
                rep.violation(f"history {i}: two runs of the same history give different results", {"fam": "lifecycle", "history": hists[i], "how": "native twice"},
                              expected="deterministic", observed=[a1, b1])
    # C. Miri on a sample (the highest-scoring histories plus a random sample)
    rng = random.Random(seed)
    n_miri = 128 if tier == "quick" else 1280
    ranked = sorted(range(len(hists)), key=lambda i: -score(hists[i]))
    pick = list(range(core_n)) + [i for i in ranked if i >= len(core)][: n_miri // 2]
    rest = [i for i in ranked if i not in set(pick)]
    pick += rng.sample(rest, min(n_miri // 2, len(rest)))
    nsh = common.NCPU
    shards = [pick[k::nsh] for k in range(nsh)]
    flagsets = ["-Zmiri-disable-isolation -Zmiri-ignore-leaks"]
    if tier != "quick":
        flagsets.append("-Zmiri-disable-isolation -Zmiri-ignore-leaks -Zmiri-tree-borrows -Zmiri-seed=7")
    # one warm-up build so the shards do not all compile
    warm = os.path.join(work, "warm.ndjson")
    open(warm, "w").write(json.dumps(hists[pick[0]]) + "\n")
    rcw, logw, sew = run_miri(warm, 1, flagsets[0], 1500)
    miri_ok = not ("error: no such command" in sew or "is not installed" in sew)
    if not miri_ok:
        raise common.ToolError("Miri is not available:\n" + sew[-1500:])
    n_miri_done = 0
    for flags in flagsets:
        def one(k):
            p = os.path.join(work, f"shard{k}.ndjson")
            with open(p, "w") as f:
                for i in shards[k]:
                    f.write(json.dumps(hists[i]) + "\n")
            return run_miri(p, len(shards[k]), flags, 3000 if tier == "quick" else 20000)
        with cf.ThreadPoolExecutor(nsh) as ex:
            results = list(ex.map(one, range(nsh)))
        for k, (rc, lg, se) in enumerate(results):
            sub = [hists[i] for i in shards[k]]
            n_miri_done += len(lg)
            if "MODEL-MISMATCH" in se:
                raise common.ToolError("interpreter / model disagreement under Miri:\n" + se[-1500:])
            if rc != 0:
                culprit = len(lg)       # the first history without a log line
                if culprit >= len(sub):
                    culprit = len(sub) - 1
                ub = re.search(r"error: Undefined Behavior:[^\n]*", se)
                kind = ub.group(0) if ub else ("timeout" if se == "timeout" else f"rc {rc}")
                if se == "timeout":
                    raise common.ToolError(f"Miri shard {k} timed out after {len(lg)} of {len(sub)} histories")
                rep.violation(f"Miri ({flags}): {kind} while running a history of {len(sub[culprit])} steps", {"fam": "lifecycle", "history": sub[culprit], "how": "miri", "flags": flags},
                              expected="no undefined behaviour", observed=se[-6000:])
            judge_logs(rep, sub, 0, lg, "", "miri")
    ops = {}
    for h in hists:
        for o in h:
            ops[o["op"]] = ops.get(o["op"], 0) + 1
    cov = {
        "states": mc["distinct"], "transitions": mc["states"], "traces_validated_against_impl": len(hists),
        "evaluations": len(hists) * 2 + n_miri_done, "distinct_nontrivial": len(hists),
        "rule": "Lifecycle.tla checked by TLC over all histories within the bounds (2 schema slots, 2 readers, 2 graphs, dangling key at 3 positions): NoDangling, "
                "FrozenWhole, Accounting, TypeOk; mutated designs (reader releases its Arc before its state; failed freeze publishes a partial vector) refuted. "
                "Histories = one per (abstract state, incoming operation) at depth 5 (6 thorough) (breadth-first) + random walks of 16 steps; all executed natively (threads vs sequential, twice) and the "
                "highest-scoring + random sample under Miri.",
        "histories": len(hists), "bfs_histories": len(bfs), "random_walks": len(sim1), "miri_histories": n_miri_done, "trace_validated_events": n_tv, "miri_flagsets": flagsets,
        "ops_executed": ops, "samples": [hists[pick[0]]], "exhaustive": False,
    }
    common.write_evidence(PROP, tier, seed, "exploration", cov,
                          ["the oracle for undefined behaviour is Miri (Stacked Borrows / Tree Borrows, data races); TLC cannot observe it and only decides which histories exist",
                           "Miri runs the null / deflate / snappy codecs only (pure Rust); the interpreter is safe Rust (#![forbid(unsafe_code)])",
                           "one thread schedule per Miri seed"], time.time() - t0, rep.n)
    shutil.rmtree(work, ignore_errors=True)
    return rep.finish()


def replay(path):
    rec = json.load(open(path))
    sc = rec["scenario"]
    build_vl()
    work = common.workdir(f"c10r-{os.getpid()}")
    p = os.path.join(work, "h.ndjson")
    open(p, "w").write(json.dumps(sc["history"]) + "\n")
    rc, logs, se = run_native(p)
    print(json.dumps(logs.get(0))[:2000])
    bad = rc != 0 or any("PAR-MISMATCH" in ln for ln in logs.get(0, []))
    if not bad:
        rc, logs, se = run_miri(p, 1, sc.get("flags", "-Zmiri-disable-isolation -Zmiri-ignore-leaks"), 1500)
        print(se[-3000:])
        bad = rc != 0
    if bad:
        print(f"VIOLATION property={PROP} replay={path}")
        return common.EXIT_VIOLATION
    return common.EXIT_OK

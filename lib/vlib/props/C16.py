"""C16 - container writer output independent of the sink's write schedule; sink errors surface."""
import json
import os
import random
import time
import concurrent.futures as cf

from .. import codec, common, container, pyavro
from . import C15

PROP = "C16"


def base_ops(G, variant):
    a = container.op_alphabet(G)
    a["A"] = {"op": "serialize_all", "pres_list": [a["s"]["pres"], a["B"]["pres"], a["s"]["pres"]]}       # Writer::serialize_all
    seqs = ["sBpxBs", "BBsx", "psfsFB", "x", "sssss", "sxpsx", "spxpxs",      # (a push right after an explicit finish)
            "sBAxA", "BxAs"]                                                    # (serialize_all right after a flush)
    ops = [json.loads(json.dumps(a[c])) for c in seqs[variant % len(seqs)]]
    return ops + [{"op": "into_inner"}]


def is_prefix(a, b):
    return len(a) <= len(b) and b[:len(a)] == a


def apalache_induction(modname="VectoredWriteInd", cinit_mut="ConstInitMut", moddir="apalache",
                       what="Init => IndInv; IndInv /\\ Next => IndInv' (buffers <= 3 / 4 / 2 bytes, any contents, any number of steps); mutant refuted"):
    import shutil
    import subprocess
    exe = shutil.which("apalache-mc")
    if not exe:
        return "apalache-mc not installed: skipped"
    out = common.workdir(f"c16-apalache-{modname}-{os.getpid()}")
    mod = os.path.join(common.SPEC, moddir, modname + ".tla") if moddir else os.path.join(common.SPEC, modname + ".tla")

    def run_apa(cinit, init, length):
        p = subprocess.run(["timeout", "1800", exe, "check", f"--cinit={cinit}", f"--init={init}", "--inv=IndInv", f"--length={length}", f"--out-dir={out}", mod],
                           cwd=out, stdout=subprocess.PIPE, stderr=subprocess.STDOUT, text=True)
        return "The outcome is: NoError" in p.stdout, "The outcome is: Error" in p.stdout, p.stdout[-1500:]
    with cf.ThreadPoolExecutor(3) as ex:
        f0 = ex.submit(run_apa, "ConstInit", "Init", 0)
        f1 = ex.submit(run_apa, "ConstInit", "IndInit", 1)
        f2 = ex.submit(run_apa, cinit_mut, "IndInit", 1)
        (ok0, _, o0), (ok1, _, o1), (_, bad, o2) = f0.result(), f1.result(), f2.result()
    shutil.rmtree(out, ignore_errors=True)
    if not (ok0 and ok1):
        raise common.ToolError(f"Apalache did not discharge the inductive invariant of {modname}:\n" + (o0 if not ok0 else o1))
    if not bad:
        raise common.ToolError(f"Apalache accepts the mutated {modname}: the inductive invariant is vacuous\n" + o2)
    return what


def faulty_events(G, c, o, ref):
    """Trace_WriterFaulty events of one writer session over a scheduled sink (None: nothing to validate)"""
    if o.get("res") != "ok" or o["build"]["res"] != "ok":
        return None
    a = container.op_alphabet(G)
    size_of = {json.dumps(a[k]["pres"], sort_keys=True): None for k in "sB"}
    vals = {"s": container.item_value(1, ""), "B": container.item_value(-300, "xxxxxxxxxx", 9)}
    for k in "sB":
        size_of[json.dumps(a[k]["pres"], sort_keys=True)] = len(pyavro.encode(G, 1, vals[k]))
    evs = [{"ev": "open", "approx": c["approx"]}]
    for op, st, rst in zip(c["ops"], o["steps"], ref["steps"]):
        if st["res"] not in ("ok", "err"):
            break
        hs = st.get("hs") or [-1, -1, -1]
        res = "ok" if st["res"] == "ok" else ("err_io" if rst["res"] == "ok" else "err")
        base = {"ev": "call", "k": 0, "sz": 0, "res": res, "n": hs[0], "pend": hs[1], "bsz": hs[2]}
        kind = op["op"]
        if kind == "serialize":
            sz = size_of.get(json.dumps(op["pres"], sort_keys=True))
            evs.append(dict(base, op="take", k=1, sz=sz) if sz is not None else dict(base, op="takefail"))
        elif kind == "push":
            evs.append(dict(base, op="take", k=op["n"], sz=len(op["bytes"])))
        elif kind == "serialize_all":
            if st["res"] != "ok":
                break                      # (how many of the values were taken before the error is not observable)
            szs = [size_of[json.dumps(p_, sort_keys=True)] for p_ in op["pres_list"]]
            for j, sz in enumerate(szs):
                evs.append(dict(base, op="take", k=1, sz=sz) if j == len(szs) - 1 else
                           {"ev": "call", "op": "take", "k": 1, "sz": sz, "res": "ok", "n": -1, "pend": -1, "bsz": -1})
        elif kind in ("finish", "into_inner"):
            evs.append(dict(base, op="finish"))
        else:
            break
    return evs if len(evs) > 1 else None


def run(tier, seed):
    t0 = time.time()
    rep = common.Report(PROP, tier, seed)
    common.build_harness()
    # ---- A: the write_all_vectored loop, all schedules (model), mutant must be caught
    mc = common.run_tlc("VectoredWrite", "MC_VectoredWrite.cfg", workers=4, timeout=600)
    common.require_tlc_ok(mc, "VectoredWrite model")
    mm = common.run_tlc("VectoredWrite", "MC_VectoredWrite_mut.cfg", workers=2, timeout=300)
    if "is violated" not in mm["out"]:
        raise common.ToolError("VectoredWrite mutant not detected: invariants are vacuous")
    # ---- A': the same invariant as an INDUCTIVE invariant (no bound on the number of steps, any buffer contents up to the length bounds),
    #          discharged by Apalache; the off-by-one mutation must break the induction step.  Thorough tier; skipped if Apalache is absent.
    apalache = None
    apalache_w = None
    if tier != "quick":
        with cf.ThreadPoolExecutor(2) as ex_:
            fa = ex_.submit(apalache_induction)
            fb = ex_.submit(apalache_induction, "ContainerWriterFaulty", "ConstInitMut1", "",
                            "ContainerWriterFaulty: Init => IndInv; IndInv /\\ Next => IndInv' (counters 0..6, approx 0..4, sizes 0..3, every fault at every flush, "
                            "any number of calls); the writer that does not retry a pending block is refuted")
            apalache, apalache_w = fa.result(), fb.result()
    # ---- B: schedules on the real writer
    G = container.item_schema()
    rng = random.Random(seed)
    cmds, kinds = [], []
    combos = [("null", 8, 0), ("null", 0, 1), ("deflate", 30, 2), ("null", 1000, 3), ("snappy", 5, 4), ("null", 1000, 5), ("deflate", 1000, 6), ("null", 8, 7), ("deflate", 0, 8)]
    if tier != "quick":
        combos += [("zstandard", 8, 0), ("null", 3, 2), ("bzip2", 30, 1), ("xz", 8, 4)]
    ref_cmds = [container.writer_cmd(G, c, a, base_ops(G, v), cid=i) for i, (c, a, v) in enumerate(combos)]
    refs = common.run_harness(ref_cmds, per_cmd_timeout=60)
    for ci, ((codec_name, approx, variant), ref) in enumerate(zip(combos, refs)):
        if ref.get("res") != "ok" or any(s["res"] == "panic" for s in ref["steps"]):
            raise common.ToolError("reference run of the writer did not complete: " + json.dumps(ref)[:500])
        ncalls = ref["sink_calls"]
        ops = base_ops(G, variant)

        def add(steps, repeat, kind):
            c = container.writer_cmd(G, codec_name, approx, ops, sink={"kind": "sched", "steps": steps, "repeat_last": repeat}, cid=len(cmds))
            cmds.append(c)
            kinds.append((kind, ci))
        for k in ([1, 2, 3, 5, 16] if tier == "quick" else [1, 2, 3, 4, 5, 7, 16, 17, 64]):
            add([k], True, "accept_k")
        add(["first_slice"], True, "accept_first_slice")
        add([1, "interrupted", 2, "interrupted", "interrupted", 3] * 40 + [1], True, "mixed")
        for _ in range(3 if tier == "quick" else 12):
            add([rng.choice([1, 2, 3, 4, 9, "interrupted", "first_slice"]) for _ in range(400)] + [5], True, "random")
        # every call index of the reference run (a lower bound for the slower schedules), and a bit beyond
        idxs = range(0, ncalls + 2) if tier != "quick" or ncalls < 24 else sorted(set(list(range(0, 12)) + list(range(ncalls - 8, ncalls + 2))))
        for i in idxs:
            add([100000] * i + ["interrupted"], False, "interrupted_at")
            add([100000] * i + ["zero"], False, "zero_at")
            add([100000] * i + ["error"], False, "error_at")
            add([2] * i + ["error"], False, "error_at_small")
            # the other kinds of hard error (only Interrupted may be retried: WouldBlock, TimedOut ... must surface like any other)
            add([100000] * i + [("would_block", "timed_out", "broken_pipe", "unexpected_eof")[i % 4]], False, "error_kind_at")
        add([100000] * 2 + ["error"], True, "error_forever")
    obs = common.run_harness(cmds, per_cmd_timeout=60)
    count = {}
    vw_events = []
    for c, (kind, ci), o in zip(cmds, kinds, obs):
        count[kind] = count.get(kind, 0) + 1
        ref = refs[ci]
        if o.get("res") != "ok":
            rep.violation(f"writer session with a scheduled sink did not return: {o.get('res')}", {"fam": "writer_sink", "cmd": c}, observed=o)
            continue
        steps = o["steps"]
        panics = [s for s in steps if s["res"] == "panic"]
        errs = [s for s in steps if s["res"] == "err"]
        injected = kind in ("zero_at", "error_at", "error_at_small", "error_forever", "error_kind_at")
        # did the injected fault actually happen? (the sink log says so)
        fault_hit = any(e[2] in (0, -2) for e in o["sink_log"])
        ref_errs = [i for i, s in enumerate(ref["steps"]) if s["res"] == "err"]
        if panics:
            rep.violation(f"[{kind}] the writer panicked: {panics[0].get('msg', '')[:160]}", {"fam": "writer_sink", "cmd": c, "kind": kind},
                          expected="Ok or Err, never a panic", observed={"steps": steps})
            continue
        if not (injected and fault_hit):
            # no fault: same results as the all-accepting sink, byte-identical stream
            same_res = [s["res"] for s in steps] == [s["res"] for s in ref["steps"]]
            if not same_res or o["sink"] != ref["sink"]:
                rep.violation(f"[{kind}] sink stream differs from the all-accepting sink's (or a call failed)", {"fam": "writer_sink", "cmd": c, "kind": kind},
                              expected={"sink_len": len(ref["sink"]), "results": [s["res"] for s in ref["steps"]]},
                              observed={"sink_len": len(o["sink"]), "results": [s["res"] for s in steps]})
        else:
            # the call during which the sink failed must return Err: either build() itself, or a step that is Ok
            # in the reference run is Err here
            surfaced = o["build"]["res"] == "err" or any(a["res"] == "err" and b["res"] == "ok" for a, b in zip(steps, ref["steps"]))
            if not surfaced:
                rep.violation(f"[{kind}] the sink returned Ok(0) / a hard error but no writer call reported an error", {"fam": "writer_sink", "cmd": c, "kind": kind},
                              expected="the failing call returns Err", observed={"build": o["build"], "results": [s["res"] for s in steps]})
        for e in o["sink_log"]:
            if e[0] == 1:
                vw_events.append({"ev": "vw", "offered": e[1], "k": e[2]})
        vw_events.append({"ev": "reset"})
    # ---- transient sink failures (the failing call accepted nothing): every later Ok call must leave a valid file with
    #      the accepted values; validated by Trace_Writer with res = "err_io" on the call the sink failed in
    tcmds, tobs, twalk_in = [], [], []
    for c, (kind, ci), o in zip(cmds, kinds, obs):
        if kind in ("zero_at", "error_at", "error_kind_at") and o.get("res") == "ok" and o["build"]["res"] == "ok":
            ref = refs[ci]
            o2 = json.loads(json.dumps(o))
            for a, b in zip(o2["steps"], ref["steps"]):
                if a["res"] == "err" and b["res"] == "ok":
                    a["res"] = "err_io"
            tcmds.append(c)
            tobs.append(o2)
    if tcmds:
        walks = common.run_harness([{"op": "walk", "id": i, "bytes": o["sink"], "start": o["build"]["sink_len"], "codec": c["codec"]}
                                    for i, (c, o) in enumerate(zip(tcmds, tobs))], per_cmd_timeout=60)
        events, owner = [], []
        for i, (c, o, w) in enumerate(zip(tcmds, tobs, walks)):
            evs = container.project_session(c, o, 1, w)
            events.extend(evs)
            owner.extend([i] * len(evs))
        scope_path = codec.write_scope([{"sid": "item", "nodes": G}], "c16-scope")
        chunks_w, idxs_w = C15.split_sessions(events)
        results_w = common.validate_traces_parallel("Trace_Writer", "Trace_Writer.cfg", chunks_w, env={"VERIF_SCOPE": scope_path}, timeout=1500)
        for k, res in enumerate(results_w):
            if not res["accepted"]:
                fu = res["first_unmatched"]
                if fu is None or fu < 1:
                    raise common.ToolError("Trace_Writer failed without reject index:\n" + res["out"][-2000:])
                i = owner[idxs_w[k][fu - 1]]
                rep.violation(f"after a transient sink failure the stream is not a valid file of the accepted values (event {chunks_w[k][fu - 1].get('op')})",
                              {"fam": "writer_sink", "cmd": tcmds[i], "kind": "transient"}, expected="Trace_Writer.tla with err_io",
                              observed={"results": [s["res"] for s in tobs[i]["steps"]]})
        count["transient_sessions_validated"] = len(tcmds)
    # ---- the writer's bookkeeping over a failing sink (ContainerWriterFaulty.tla): the design, its inductive invariant, and every
    #      session above replayed against it call by call with the hook state (which flush failed, and how, is inferred by TLC)
    fmc = common.run_tlc("ContainerWriterFaulty", "MC_ContainerWriterFaulty.cfg", workers=6, timeout=1200)
    common.require_tlc_ok(fmc, "ContainerWriterFaulty (forward, all faults)")
    for mcfg in ("MC_ContainerWriterFaulty_mut1.cfg", "MC_ContainerWriterFaulty_mut2.cfg"):
        fm = common.run_tlc("ContainerWriterFaulty", mcfg, workers=2, timeout=600)
        if "is violated" not in fm["out"]:
            raise common.ToolError(f"ContainerWriterFaulty: the mutated writer ({mcfg}) is not refuted: vacuous")
    find = None
    if tier != "quick":
        find = common.run_tlc("ContainerWriterFaulty", "MC_ContainerWriterFaulty_ind.cfg", workers=8, timeout=2400, xmx="8g")
        common.require_tlc_ok(find, "ContainerWriterFaulty: IndInv is inductive (every state of IndInit, two steps)")
    fev, fown = [], []
    for i, (c, (kind, ci), o) in enumerate(zip(cmds, kinds, obs)):
        if kind in ("interrupted_at", "mixed", "random"):
            continue
        e = faulty_events(G, c, o, refs[ci])
        if e:
            fev.extend(e)
            fown.extend([i] * len(e))
    nfs = 0
    if fev:
        per = max(300, (len(fev) + common.NCPU - 1) // common.NCPU)
        chunks_f, owners_f, cur, cur_o = [], [], [], []
        for ev, ow in zip(fev, fown):
            if ev["ev"] == "open" and len(cur) >= per:
                chunks_f.append(cur)
                owners_f.append(cur_o)
                cur, cur_o = [], []
            cur.append(ev)
            cur_o.append(ow)
        if cur:
            chunks_f.append(cur)
            owners_f.append(cur_o)
        fres = common.validate_traces_parallel("Trace_WriterFaulty", "Trace_WriterFaulty.cfg", chunks_f, timeout=1500)
        for ch, ow, res in zip(chunks_f, owners_f, fres):
            rest, rest_o, guard = ch, ow, 0
            while not res["accepted"] and guard < 6:
                guard += 1
                fu = res["first_unmatched"]
                if fu is None or fu < 1 or fu > len(rest):
                    raise common.ToolError("Trace_WriterFaulty failed without a usable reject index:\n" + res["out"][-2500:])
                i = rest_o[fu - 1]
                # the skeleton is one implementation of C15 / C16 (their rules are judged above and by Trace_Writer): a departure means the
                # code no longer follows the model TLC checked, not that the property is violated.  Recorded, never an alarm.
                rep.note(f"[{kinds[i][0]}] session {cmds[i]['codec']}/approx {cmds[i]['approx']}: call {rest[fu - 1]} departs from ContainerWriterFaulty.tla")
                j = fu
                while j < len(rest) and rest[j]["ev"] != "open":
                    j += 1
                rest, rest_o = rest[j:], rest_o[j:]
                if not rest:
                    break
                res = common.validate_trace("Trace_WriterFaulty", "Trace_WriterFaulty.cfg", rest, timeout=1500)
        nfs = len([e for e in fev if e["ev"] == "open"])
        # binding: a wrong hook state must be rejected
        k0 = next((k for k, e in enumerate(fev) if e["ev"] == "call" and e["n"] >= 0), None)
        if k0 is not None:
            start = max(j for j in range(k0 + 1) if fev[j]["ev"] == "open")
            good = fev[start:k0 + 1]
            badt = good[:-1] + [dict(good[-1], n=good[-1]["n"] + 1)]
            if common.validate_trace("Trace_WriterFaulty", "Trace_WriterFaulty.cfg", good)["accepted"] and \
                    common.validate_trace("Trace_WriterFaulty", "Trace_WriterFaulty.cfg", badt)["accepted"]:
                raise common.ToolError("Trace_WriterFaulty accepts a wrong hook state: vacuous")
    count["faulty_sink_sessions_replayed_against_model"] = nfs
    # ---- C: the real write_vectored call sequences validated against VectoredWrite
    chunks = []
    cur = []
    for ev in vw_events:
        cur.append(ev)
        if ev["ev"] == "reset" and len(cur) > 3000:
            chunks.append(cur)
            cur = []
    if cur:
        chunks.append(cur)
    results = common.validate_traces_parallel("Trace_Vectored", "Trace_Vectored.cfg", chunks, timeout=900)
    for k, res in enumerate(results):
        if not res["accepted"]:
            fu = res["first_unmatched"]
            if fu is None or fu < 1:
                raise common.ToolError("Trace_Vectored failed without reject index:\n" + res["out"][-2000:])
            rep.violation(f"write_vectored call sequence rejected by Trace_Vectored at event {fu}: {chunks[k][max(0, fu - 3):fu + 1]}",
                          {"fam": "writer_sink_trace", "events": chunks[k][max(0, fu - 30):fu + 1]}, expected="VectoredWrite (Trace_Vectored.tla)")
    bad = [{"ev": "vw", "offered": 10, "k": 4}, {"ev": "vw", "offered": 7, "k": 7}]
    if common.validate_trace("Trace_Vectored", "Trace_Vectored.cfg", bad)["accepted"]:
        raise common.ToolError("Trace_Vectored accepted a sequence that skips a byte: vacuous")
    cov = {
        "states": mc["distinct"], "transitions": mc["states"], "traces_validated_against_impl": len(chunks),
        "evaluations": len(cmds), "distinct_nontrivial": len(cmds),
        "rule": "model: write_all_vectored over 3 slices (header 1..3, data 0/1/4, sync 2 distinguishable bytes) against every sink schedule "
                "(accept 1..5 / Interrupted / Ok(0) / hard error), mutant (advance off by one) caught. Real writer: 5 (9) op sequences x codecs; sinks accepting "
                "k bytes per call for each k, one slice per call, random mixes with interruptions, and Interrupted / Ok(0) / hard error injected at every call "
                "index; streams compared with the all-accepting sink; the recorded write_vectored call sequences are validated by TLC (Trace_Vectored).",
        "by_kind": count, "vectored_call_events": len(vw_events),
        "samples": [cmds[0], cmds[len(cmds) // 2]], "exhaustive": False,
    }
    cov["apalache_inductive_invariant"] = apalache or "thorough tier only"
    cov["apalache_inductive_invariant_writer"] = apalache_w or "thorough tier only"
    cov["writer_faulty_sink_model"] = {"forward_states": fmc["distinct"], "inductive_states": find["distinct"] if find else "thorough tier only",
                                        "sessions_replayed": nfs}
    common.write_evidence(PROP, tier, seed, "model_checking", cov,
                          ["oracle = VectoredWrite.tla (loop) + byte equality with the all-accepting sink's stream",
                           "harness built with debug assertions (the crate's Drop impl asserts in that configuration)",
                           f"harness hooks: {common.build_harness()['hooks']}"], time.time() - t0, rep.n)
    return rep.finish()


def replay(path):
    rec = json.load(open(path))
    sc = rec["scenario"]
    if "cmd" not in sc:
        print("trace-only replay: rerun the check")
        return common.EXIT_OK
    cmd = sc["cmd"]
    ref_cmd = dict(cmd)
    ref_cmd.pop("sink", None)
    o, ref = common.run_harness([cmd, ref_cmd], nproc=1)
    steps = o.get("steps", [])
    print(json.dumps({"results": [s["res"] for s in steps], "ref": [s["res"] for s in ref.get("steps", [])],
                      "sink_len": len(o.get("sink", [])), "ref_sink_len": len(ref.get("sink", []))}))
    bad = any(s["res"] == "panic" for s in steps)
    kind = sc.get("kind", "")
    fault_hit = any(e[2] in (0, -2) for e in o.get("sink_log", []))
    if not bad:
        if kind in ("zero_at", "error_at", "error_at_small", "error_forever", "error_kind_at") and fault_hit:
            bad = not (o["build"]["res"] == "err" or any(a["res"] == "err" and b["res"] == "ok" for a, b in zip(steps, ref["steps"])))
        else:
            bad = o.get("sink") != ref.get("sink") or [s["res"] for s in steps] != [s["res"] for s in ref["steps"]]
    if bad:
        print(f"VIOLATION property={PROP} replay={path}")
        return common.EXIT_VIOLATION
    return common.EXIT_OK

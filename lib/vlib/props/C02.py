"""C02 - encoder soundness: Ok means spec-exact bytes of the presented value; unrepresentable values fail."""
import copy
import json
import os
import random
import time

from .. import codec, common, pyavro, scopes

PROP = "C02"


def ser_event(si, cmd, obs):
    ev = {"ev": "ser", "si": si, "pres": cmd["pres"], "slow": bool(cmd.get("slow_seq", False)), "res": obs.get("res")}
    if obs.get("res") == "ok":
        ev["bytes"] = obs["bytes"]
    return ev


def gen_matrix(tier):
    scope = scopes.matrix_scope(tier)
    path = codec.write_scope(scope, "c02-mscope")
    r = common.run_tlc_sharded("MC_SerMatrix", "MC_SerMatrix.cfg", common.NCPU, env={"VERIF_SCOPE": path}, timeout=1200, xmx="3g")
    common.require_tlc_ok(r, "MC_SerMatrix (consistency of the serialization relation and cell generation)")
    return r, scope, path


def cell_ok(cell, o):
    """True / False / None (= bytes differ from the canonical encodings: ask TLC whether they are another legal layout)"""
    res = o.get("res")
    if res not in ("ok", "err"):
        return False
    if cell["m"] == "err":
        return res == "err"
    if res == "err":
        return cell["m"] != "ok"
    if cell["any"]:
        return None         # where Den is silent TLC still has something to say (SerdeModel!AnyWellFormed)
    if o["bytes"] in cell["okb"]:
        return True
    return None


def run(tier, seed):
    t0 = time.time()
    rep = common.Report(PROP, tier, seed)
    common.build_harness()
    r, scope, scope_path = gen_matrix(tier)
    by_sid = {s["sid"]: s for s in scope}
    cells = r["scn"]
    cmds = [{"op": "ser", "id": i, "schema": {"nodes": by_sid[c["sid"]]["nodes"]}, "pres": c["pres"], "slow_seq": bool(c["slow"]),
             "via": ("to_datum", "to_datum_vec", "owned")[i % 3]}          # the three public entry points of the datum serializer
            for i, c in enumerate(cells)]
    obs = common.run_harness(cmds)
    doubtful = []
    by_m = {"ok": 0, "err": 0, "free": 0}
    for c, cmd, o in zip(cells, cmds, obs):
        by_m[c["m"]] += 1
        v = cell_ok(c, o)
        if v is None:
            doubtful.append((c, cmd, o))
        elif not v:
            rep.violation(f"schema {c['sid']}, presentation #{c['pi']} ({c['pres']['p']}): specification says {c['m']}"
                          f"{' (any bytes)' if c['any'] else ''}, serializer answered {o.get('res')}"
                          + (f" with bytes {o.get('bytes')} not among {c['okb']}" if o.get("res") == "ok" else ""),
                          {"fam": "ser_cell", "cmd": cmd, "sid": c["sid"], "pi": c["pi"]},
                          expected={"m": c["m"], "any": c["any"], "okb": c["okb"]}, observed=o)
    if doubtful:
        si_of = {s["sid"]: i + 1 for i, s in enumerate(scope)}
        evs = [ser_event(si_of[c["sid"]], cmd, o) for c, cmd, o in doubtful]

        def rej(i):
            c, cmd, o = doubtful[i]
            rep.violation(f"schema {c['sid']}, presentation #{c['pi']}: Ok with bytes {o.get('bytes')} that are not an encoding of a denoted value",
                          {"fam": "ser_cell", "cmd": cmd, "sid": c["sid"], "pi": c["pi"]},
                          expected={"m": c["m"], "okb": c["okb"]}, observed=o)
        codec.validate_events("Trace_Codec", "Trace_Codec.cfg", evs, scope_path, rej)
    # ---- C: mutated presentations of random values of random schemas, judged by SerAllowed in TLC
    rng = random.Random(seed)
    tv = random_presentations(rng, 3000 if tier == "quick" else 40000, rep)
    cov = {
        "states": r["states"], "transitions": r["states"],
        "traces_validated_against_impl": tv["traces"],
        "evaluations": len(cells) + tv["events"], "distinct_nontrivial": len(cells) + tv["events"],
        "rule": "cells = (schema of the matrix scope) x (presentation of SerdePres.tla) [x allow_slow_sequence_to_bytes for sequences]; "
                "TLC computes Den (must-ok / must-err / free, denoted values, their encodings) and checks the relation's consistency; "
                "each cell is serialized by the real code. Random events: canonical presentations of random values, mutated "
                "(integer widths, str/bytes swaps, field order / omission / duplication, wrong lengths, wrappers, renamed variants), judged by TLC.",
        "cells_by_verdict": by_m, "doubtful_bytes_checked_by_tlc": len(doubtful), "trace_events": tv["events"],
        "trace_events_by_result": tv["by_res"],
        "samples": [cmds[0], cmds[len(cmds) // 2]] + tv["samples"], "exhaustive": False,
    }
    common.write_evidence(PROP, tier, seed, "model_checking", cov,
                          ["oracle = SerdeModel.tla (Den / SerAllowed) over AvroBinary.tla, self-checked by TLC on every run",
                           "free cells (coercions the property does not cover) only require that the call returns",
                           f"harness hooks: {common.build_harness()['hooks']}"], time.time() - t0, rep.n)
    return rep.finish()


INT_KINDS = ["i8", "i16", "i32", "i64", "u8", "u16", "u32", "u64", "i128", "u128"]


def fits(kind, n):
    bits = int(kind[1:])
    return (-(1 << (bits - 1)) <= n < (1 << (bits - 1))) if kind[0] == "i" else (0 <= n < (1 << bits))


def int_pres(kind, n):
    bits = int(kind[1:])
    if bits == 128:
        u = n & ((1 << 128) - 1)
        return {"p": kind, "v": [(u >> (16 * i)) & 0xFFFF for i in range(8)]}
    return {"p": kind, "v": pyavro.limbs(n)}


def mutate(rng, p, depth=0):
    """one random mutation somewhere in presentation p (returns a new presentation)"""
    p = copy.deepcopy(p)
    kids = []
    if p["p"] in ("some", "newtype_struct", "newtype_variant"):
        kids = [("x", None)]
    elif p["p"] in ("seq", "tuple", "tuple_struct", "tuple_variant"):
        kids = [("es", i) for i in range(len(p["es"]))]
    elif p["p"] == "map":
        kids = [("kv", i) for i in range(len(p["kv"]))]
    elif p["p"] in ("struct", "struct_variant"):
        kids = [("fs", i) for i in range(len(p["fs"]))]
    if kids and rng.random() < 0.6:
        f, i = rng.choice(kids)
        if f == "x":
            p["x"] = mutate(rng, p["x"], depth + 1)
        elif f == "es":
            p["es"][i] = mutate(rng, p["es"][i], depth + 1)
        elif f == "kv":
            j = rng.randrange(2)
            p["kv"][i][j] = mutate(rng, p["kv"][i][j], depth + 1)
        else:
            p["fs"][i][1] = mutate(rng, p["fs"][i][1], depth + 1)
        return p
    k = p["p"]
    c = rng.random()
    if k in INT_KINDS:
        n = pyavro.unlimbs(p["v"][:4]) if len(p["v"]) == 4 else 0
        if c < 0.5:
            nk = rng.choice(INT_KINDS)
            return int_pres(nk, n) if fits(nk, n) else int_pres(nk, 0 if nk[0] == "u" else -1)
        if c < 0.8:
            nk = rng.choice(["i64", "u64", "i128", "u128", "i32"])
            big = rng.choice([1 << 31, -(1 << 31) - 1, (1 << 63) - 1, 1 << 63, 1 << 64, -(1 << 64), 255, 256, 300])
            return int_pres(nk, big) if fits(nk, big) else int_pres(nk, 7)
        return rng.choice([{"p": "f64", "v": [0, 0, 0, 0, 0, 0, 240, 63]}, {"p": "str", "v": list(str(n).encode())}, {"p": "bool", "i": 1}])
    if k == "str":
        if c < 0.4:
            return {"p": "bytes", "v": p["v"]}
        if c < 0.6:
            return {"p": "str", "v": p["v"] + [120]}
        if c < 0.8 and len(p["v"]) == 1:
            return {"p": "char", "i": p["v"][0]} if p["v"][0] < 128 else p
        return {"p": "unit_struct", "name": p["v"]}
    if k == "bytes":
        if c < 0.3:
            return {"p": "str", "v": p["v"]} if _is_utf8(p["v"]) else {"p": "bytes", "v": p["v"] + [0]}
        if c < 0.6:
            return {"p": "seq", "len": rng.choice([-1, len(p["v"]), len(p["v"]) + 1]), "es": [int_pres(rng.choice(["u8", "i32", "u64"]), b) for b in p["v"]]}
        if c < 0.8:
            return {"p": "bytes", "v": p["v"][:-1] if p["v"] else [1]}
        return {"p": "bytes", "v": p["v"] + [255]}
    if k in ("unit", "none"):
        return rng.choice([{"p": "unit"}, {"p": "none"}, {"p": "unit_struct", "name": list(b"Null")},
                           {"p": "unit_variant", "name": [85], "idx": 0, "variant": list(b"Null")}, {"p": "bool", "i": 0}])
    if k == "unit_variant":
        if c < 0.4:
            return {"p": "str", "v": p["variant"]}
        if c < 0.6:
            return {"p": "u32", "v": pyavro.limbs(p["idx"])}
        if c < 0.8:
            return dict(p, variant=p["variant"] + [95])
        return {"p": "i32", "v": pyavro.limbs(rng.choice([-1, 99]))}
    if k in ("f32", "f64"):
        return rng.choice([{"p": "f64", "v": [0] * 6 + [240, 63]}, {"p": "f32", "v": [0, 0, 128, 63]}, {"p": "i32", "v": pyavro.limbs(1)}])
    if k == "newtype_variant":
        if c < 0.4:
            return p["x"]
        if c < 0.7:
            return dict(p, variant=p["variant"] + [88])
        return {"p": "newtype_struct", "name": p["variant"], "x": p["x"]}
    if k in ("seq", "tuple"):
        es = p["es"]
        if c < 0.25:
            return {"p": "seq", "len": -1, "es": es}
        if c < 0.45:
            return {"p": "seq", "len": len(es) + 1, "es": es}
        if c < 0.6 and es:
            return {"p": "seq", "len": len(es) - 1, "es": es}
        if c < 0.8:
            return {"p": "tuple", "es": es}
        return {"p": "seq", "len": len(es) + 1, "es": es + [{"p": "fail"}]}
    if k == "map":
        kv = p["kv"]
        if c < 0.25:
            return dict(p, len=-1, mode="kv")
        if c < 0.45:
            return dict(p, len=len(kv) + 1)
        if c < 0.6 and kv:
            return dict(p, kv=kv + [kv[0]], len=len(kv) + 1)
        if c < 0.8 and kv:
            q = dict(p)
            q["kv"] = [[{"p": "bytes", "v": kv[0][0].get("v", [])}, kv[0][1]]] + kv[1:]
            return q
        return {"p": "struct", "name": [77], "fs": [[e[0].get("v", []), e[1]] for e in kv]}
    if k == "struct":
        fs = p["fs"]
        if c < 0.3 and len(fs) > 1:
            rng.shuffle(fs)
            return dict(p, fs=fs)
        if c < 0.5 and fs:
            del fs[rng.randrange(len(fs))]
            return dict(p, fs=fs)
        if c < 0.65 and fs:
            fs.insert(rng.randrange(len(fs) + 1), copy.deepcopy(rng.choice(fs)))
            return dict(p, fs=fs)
        if c < 0.8:
            fs.insert(rng.randrange(len(fs) + 1), [list(b"zz_unknown"), {"p": "i32", "v": pyavro.limbs(1)}])
            return dict(p, fs=fs)
        return {"p": "map", "len": len(fs), "mode": rng.choice(["entry", "kv"]), "kv": [[{"p": "str", "v": f[0]}, f[1]] for f in fs]}
    if k == "bool":
        return {"p": "u8", "v": pyavro.limbs(p["i"])}
    if k == "some":
        return p["x"]
    return {"p": "some", "x": p}


def _is_utf8(b):
    try:
        bytes(b).decode("utf8")
        return True
    except UnicodeDecodeError:
        return False


def random_presentations(rng, n_events, rep):
    scope, cmds, sis = [], [], []
    per_schema = 20
    for si in range(max(1, n_events // per_schema)):
        nodes = pyavro.random_schema(rng, depth=rng.choice([1, 2, 2, 3]))
        scope.append({"sid": f"r{si}", "nodes": nodes})
        for _ in range(per_schema):
            v = pyavro.random_value(rng, nodes, 1, depth=3, size=rng.choice([1, 2, 3]))
            pres = codec.canon_pres(nodes, 1, v, rng.choice(["named", "rust"]))
            for _ in range(rng.choice([0, 1, 1, 1, 2])):
                pres = mutate(rng, pres)
            cmds.append({"op": "ser", "id": len(cmds), "schema": {"nodes": nodes}, "pres": pres, "slow_seq": rng.random() < 0.5,
                         "via": rng.choice(("to_datum", "to_datum_vec", "owned"))})
            sis.append(si + 1)
    obs = common.run_harness(cmds)
    events = [ser_event(si, c, o) for si, c, o in zip(sis, cmds, obs)]
    by_res = {}
    for e in events:
        by_res[e["res"]] = by_res.get(e["res"], 0) + 1
    scope_path = codec.write_scope(scope, "c02-rscope")

    def rej(i):
        rep.violation(f"serialization event rejected by Trace_Codec (SerAllowed): res={obs[i].get('res')}", {"fam": "ser_random", "cmd": cmds[i]},
                      expected="SerAllowed (SerdeModel.tla)", observed=obs[i])
    traces = codec.validate_events("Trace_Codec", "Trace_Codec.cfg", events, scope_path, rej)
    codec.binding_check_some("Trace_Codec", "Trace_Codec.cfg", (ev for ev in events if ev["res"] == "ok" and len(ev["bytes"]) > 0),
                             lambda e: dict(e, bytes=e["bytes"] + [0]), scope_path)
    return {"traces": traces, "events": len(events), "by_res": by_res, "samples": [events[0], events[len(events) // 2]]}


def replay(path):
    rec = json.load(open(path))
    cmd = rec["scenario"]["cmd"]
    o = common.run_harness([cmd])[0]
    print(json.dumps({"expected": rec.get("expected"), "observed_now": o})[:3000])
    scope_path = codec.write_scope([{"sid": "x", "nodes": cmd["schema"]["nodes"]}], "c02-replay")
    ok = common.validate_trace("Trace_Codec", "Trace_Codec.cfg", [ser_event(1, cmd, o)], env={"VERIF_SCOPE": scope_path})["accepted"]
    if not ok:
        print(f"VIOLATION property={PROP} replay={path}")
        return common.EXIT_VIOLATION
    return common.EXIT_OK

"""C05 - container-file round trip for every codec, level, block size, flush pattern and reader kind."""
import json
import random
import time

from .. import codec, common, container, pyavro

PROP = "C05"
THOROUGH_SEEDS = 2        # seeds per thorough run (bin/check)

READERS = [{"kind": "slice"}, {"kind": "chunks", "sched": [1]}, {"kind": "chunks", "sched": []}, {"kind": "bufreader", "cap": 1},
           {"kind": "bufreader", "cap": 7}, {"kind": "bufreader", "cap": 8192}, {"kind": "chunks", "sched": [3, 1, 2]},
           # the other entry points: Reader::deserialize() (iterator) and deserialize_next::<T>() with an owned target
           {"kind": "slice", "api": "iter"}, {"kind": "bufreader", "cap": 5, "api": "iter"}, {"kind": "chunks", "sched": [2], "api": "typed"},
           {"kind": "slice", "api": "typed"},
           # the entry points only a slice reader has: deserialize_next_borrowed::<T>() and the iterator deserialize_borrowed::<T>()
           {"kind": "slice", "api": "borrowed"}, {"kind": "slice", "api": "borrowed_iter"}]


def model_check():
    out = []
    for cfg in ("deflate", "bzip2", "xz"):
        r = common.run_tlc("MC_CodecLoop", f"MC_CodecLoop_{cfg}.cfg", workers=2, timeout=300)
        common.require_tlc_ok(r, f"CodecLoop {cfg}")
        out.append(r)
    for cfg in ("bzip2_asfound", "xz_asfound"):
        r = common.run_tlc("MC_CodecLoop", f"MC_CodecLoop_{cfg}.cfg", workers=2, timeout=300)
        if "is violated" not in r["out"]:
            raise common.ToolError(f"CodecLoop: the as-found arms of {cfg} are not rejected by the model: invariants vacuous")
    w = common.run_tlc("ContainerWriter", "MC_Writer.cfg", workers=8, timeout=900, xmx="6g")
    common.require_tlc_ok(w, "ContainerWriter")
    out.append(w)
    return sum(r["distinct"] for r in out), sum(r["states"] for r in out)


def read_event(written, results, damage="intact"):
    """Trace_Reader event from harness reader results (value-carrying) - maps values to written positions"""
    rs, k = [], 0
    for r in results:
        item = 0
        if r["r"] == "some":
            k += 1
            item = k if k <= len(written) and r.get("value") == written[k - 1] else 0
        rs.append({"r": r["r"], "item": item, "io": bool(r.get("io", False)), "st": r.get("st", "unknown")})
    return {"ev": "r_run", "nwritten": len(written), "damage": damage, "results": rs}


def run(tier, seed):
    t0 = time.time()
    rep = common.Report(PROP, tier, seed)
    common.build_harness()
    distinct, states = model_check()
    rng = random.Random(seed)
    G = container.item_schema()
    alpha = container.op_alphabet(G)
    # ---- small files: op sequences x codec x level x block size; written values are the ones whose serialize returned Ok
    wcmds = []
    levels = {"null": [None], "deflate": [None, 1, 9, 200], "bzip2": [None, 1, 9, 10, 200], "snappy": [None], "xz": [None, 0 + 1, 9, 10, 255],
              "zstandard": [None, 1, 19, 100]}
    seqs = ["", "s", "ssx", "sBpxBs", "BBBB", "psfsFB", "xsx", "ssssssss", "pp", "FfBx"]
    for cd in container.CODECS:
        for lv in levels[cd]:
            for approx in ([0, 8, 1000] if tier == "quick" else [0, 1, 8, 30, 1000]):
                for sq in seqs:
                    ops = [json.loads(json.dumps(alpha[c])) for c in sq] + [{"op": "into_inner"}]
                    wcmds.append(container.writer_cmd(G, cd, approx, ops, level=lv, cid=len(wcmds)))
    # zero-byte datums: schema "null" and a record without fields (blocks with an empty payload), every codec
    zspecs = [([{"k": "null", "lt": "none"}], {"p": "unit"}, {"t": "null"}),
              ([{"k": "record", "lt": "none", "name": container.T("Empty"), "fields": []}], {"p": "struct", "name": container.T("Empty"), "fs": []}, {"t": "rec", "es": []})]
    zero_value = {}
    for zg, zp, zv in zspecs:
        for cd in container.CODECS:
            for approx in (0, 5):
                for n_items, with_push in ((1, False), (3, False), (2, True)):
                    ops = [{"op": "serialize", "pres": zp} for _ in range(n_items)] + ([{"op": "push", "bytes": [], "n": 2}] if with_push else []) + [{"op": "into_inner"}]
                    c = container.writer_cmd(zg, cd, approx, ops, cid=len(wcmds))
                    zero_value[len(wcmds)] = zv
                    wcmds.append(c)
    for c in wcmds[1::3]:
        c["owned_config"] = True        # WriterBuilder::with_owned_config instead of a borrowed configuration
    wobs = common.run_harness(wcmds, per_cmd_timeout=60)
    rcmds, rmeta = [], []
    for c, o in zip(wcmds, wobs):
        if o.get("res") != "ok" or o["build"]["res"] != "ok" or any(s["res"] not in ("ok", "err") for s in o["steps"]):
            rep.violation(f"writing a container file failed or panicked (codec {c['codec']}, level {c.get('level')})", {"fam": "writer_ops", "cmd": c}, observed={k: v for k, v in o.items() if k != "sink"})
            continue
        written = []
        for op, st in zip(c["ops"], o["steps"]):
            if st["res"] == "ok" and op["op"] == "serialize":
                written.append(op["pres"])
            elif st["res"] == "ok" and op["op"] == "push":
                written.extend(["pushed"] * op["n"])
            elif st["res"] == "err" and op["op"] in ("push", "finish", "into_inner"):
                rep.violation(f"{op['op']} failed on a reliable sink (codec {c['codec']}): {st.get('msg', '')[:200]}", {"fam": "writer_ops", "cmd": c}, observed=o["steps"])
        for rd in (READERS if tier != "quick" else [READERS[(len(rcmds) + j) % len(READERS)] for j in range(3)]):
            rcmds.append({"op": "reader", "id": len(rcmds), "bytes": o["sink"], "reader": rd, "calls": len(written) + 3})
            rmeta.append((c, written))
    robs = common.run_harness(rcmds, per_cmd_timeout=60)
    events, owners = [], []
    pushed_vals = [container.item_value(2, "p"), container.item_value(3, "", 4)]
    for rc, (wc, written), o in zip(rcmds, rmeta, robs):
        if o.get("res") != "ok" or o.get("init") != "ok":
            rep.violation(f"the reader could not open a file the writer produced (codec {wc['codec']}, reader {rc['reader']}): {o.get('msg', o.get('res'))}",
                          {"fam": "roundtrip", "wcmd": wc, "reader": rc["reader"]}, observed=o)
            continue
        # expected values: denotations of the presentations; the harness serialized canonical presentations of known values
        exp_vals = [zero_value[wc["id"]]] * len(written) if wc["id"] in zero_value else expected_values(G, wc, written, pushed_vals)
        ev = read_event(exp_vals, o["results"])
        events.append(ev)
        owners.append((wc, rc["reader"], o))
    # ---- the one-call entry point write_all (default block size, library-chosen sync marker), every codec, read back
    wa_vals = [container.item_value(1, ""), container.item_value(-300, "xxxxxxxxxx", 9), container.item_value(1 << 40, "write_all", None)]
    wa_cmds = []
    for cd in container.CODECS:
        for n in (0, 1, 7):
            vs = [wa_vals[i % 3] for i in range(n)]
            wa_cmds.append({"op": "write_all", "id": len(wa_cmds), "schema": {"nodes": G}, "codec": cd, "pres_list": [container.item_pres(G, v) for v in vs], "_vals": vs})
    wa_obs = common.run_harness([{k: v for k, v in c.items() if k != "_vals"} for c in wa_cmds], per_cmd_timeout=60)
    wa_r, wa_m = [], []
    for c, o in zip(wa_cmds, wa_obs):
        if o.get("res") != "ok":
            rep.violation(f"write_all failed (codec {c['codec']}, {len(c['_vals'])} values): {o.get('res')} {str(o.get('msg', ''))[:160]}",
                          {"fam": "write_all", "cmd": {k: v for k, v in c.items() if k != "_vals"}}, expected="Ok(file)", observed=o)
            continue
        for rd in (READERS[0], READERS[1 + c["id"] % (len(READERS) - 1)]):
            wa_r.append({"op": "reader", "id": len(wa_r), "bytes": o["sink"], "reader": rd, "calls": len(c["_vals"]) + 3})
            wa_m.append(c)
    for rc, c, o in zip(wa_r, wa_m, common.run_harness(wa_r, per_cmd_timeout=60)):
        wc = {"id": -1 - c["id"], "codec": c["codec"], "level": None, "approx": "write_all"}
        if o.get("res") != "ok" or o.get("init") != "ok":
            rep.violation(f"the reader could not open a file write_all produced (codec {c['codec']}): {o.get('msg', o.get('res'))}",
                          {"fam": "write_all", "cmd": {k: v for k, v in c.items() if k != "_vals"}}, observed=o)
            continue
        events.append(read_event(c["_vals"], o["results"]))
        owners.append((wc, rc["reader"], o))
    # ---- the same reads, state by state, against the reader machine (ContainerReader.tla / Trace_ReaderImpl): the block structure
    #      comes from walking each written file
    walks = common.run_harness([{"op": "walk", "id": c["id"], "bytes": o.get("sink", []), "start": o.get("build", {}).get("sink_len", 0), "codec": c["codec"]}
                                if o.get("res") == "ok" and "sink" in o else {"op": "walk", "id": c["id"], "bytes": [], "start": 0, "codec": "null"}
                                for c, o in zip(wcmds, wobs)], per_cmd_timeout=60)
    walk_of = {c["id"]: w for c, w in zip(wcmds, walks)}
    ievents, iown = [], []
    for (wc, rd, o), ev in zip(owners, events):
        w = walk_of.get(wc["id"])
        if not w or "blocks" not in w or w.get("stop") != len(wobs[wc["id"]].get("sink", [])):
            continue            # (a file that does not walk to its end is reported by the round trip itself)
        is_slice = rd.get("kind") == "slice"
        kind = "slice" if (is_slice and wc["codec"] == "null") else "whole_io" if (is_slice or wc["codec"] == "snappy") else "stream"
        ievents.append({"ev": "file", "kind": kind, "cutb": 0, "cutat": -2,
                        "blocks": [{"n": b["count"], "items": ["good"] * b["count"], "sync": "ok"} for b in w["blocks"]]})
        iown.append((wc, rd, o))
        for r_, src in zip(ev["results"], o["results"]):
            ievents.append({"ev": "call", "r": r_["r"], "item": r_["item"], "st": src.get("st", "unknown"), "left": src.get("left", -1), "latch": src.get("latch", -1)})
            iown.append((wc, rd, o))
    if ievents:
        per = max(400, (len(ievents) + common.NCPU - 1) // common.NCPU)
        ichunks, iowners, cur, cur_o = [], [], [], []
        for ev, ow in zip(ievents, iown):
            if ev["ev"] == "file" and len(cur) >= per:
                ichunks.append(cur)
                iowners.append(cur_o)
                cur, cur_o = [], []
            cur.append(ev)
            cur_o.append(ow)
        ichunks.append(cur)
        iowners.append(cur_o)
        for ch, ow, res in zip(ichunks, iowners, common.validate_traces_parallel("Trace_ReaderImpl", "Trace_ReaderImpl.cfg", ichunks, timeout=1800)):
            rest, rest_o, guard = ch, ow, 0
            while not res["accepted"] and guard < 6:
                guard += 1
                fu = res["first_unmatched"]
                if fu is None or fu < 1 or fu > len(rest):
                    raise common.ToolError("Trace_ReaderImpl failed without a usable reject index:\n" + res["out"][-2500:])
                wc, rd, o = rest_o[fu - 1]
                # (the round trip itself is judged by Trace_Reader below; departing from the machine is model drift, not a violation)
                rep.note(f"reading an intact {wc['codec']} file with {rd}: calls / hook states depart from the reader machine (ContainerReader.tla): "
                         f"{[(r['r'], r.get('st'), r.get('left'), r.get('latch')) for r in o['results']][:8]}")
                j = fu
                while j < len(rest) and rest[j]["ev"] != "file":
                    j += 1
                rest, rest_o = rest[j:], rest_o[j:]
                if not rest:
                    break
                res = common.validate_trace("Trace_ReaderImpl", "Trace_ReaderImpl.cfg", rest, timeout=1800)
    nch = min(common.NCPU, max(1, len(events) // 100))
    chunks = [events[k::nch] for k in range(nch)]
    idx = [list(range(len(events)))[k::nch] for k in range(nch)]
    results = common.validate_traces_parallel("Trace_Reader", "Trace_Reader.cfg", chunks, timeout=900)
    n_rej = 0
    for k, res in enumerate(results):
        rest, rest_idx = chunks[k], idx[k]
        guard = 0
        while not res["accepted"] and guard < 6:
            guard += 1
            fu = res["first_unmatched"]
            if fu is None or fu < 1:
                raise common.ToolError("Trace_Reader failed without reject index:\n" + res["out"][-2000:])
            wc, rd, o = owners[rest_idx[fu - 1]]
            n_rej += 1
            rep.violation(f"round trip through codec {wc['codec']} (level {wc.get('level')}, approx {wc['approx']}) read with {rd}: "
                          f"results {[(r['r'], r.get('msg', '')[:60]) for r in o['results']][:6]}",
                          {"fam": "roundtrip", "wcmd": wc, "reader": rd, "codec": wc["codec"], "reader_kind": rd["kind"]},
                          expected="exactly the written values, then end of stream", observed=o["results"])
            rest, rest_idx = rest[fu:], rest_idx[fu:]
            if not rest:
                break
            res = common.validate_trace("Trace_Reader", "Trace_Reader.cfg", rest, timeout=900)
    # ---- large / boundary-sized blocks, content generated and compared inside the harness
    bcmds = big_cmds(rng, tier)
    bobs = common.run_harness(bcmds, per_cmd_timeout=240, nproc=8)
    bevents, bown = [], []
    for c, o in zip(bcmds, bobs):
        if o.get("res") != "ok" or o["write"]["res"] != "ok" or any(w != "ok" for w in o["write_results"]):
            rep.violation(f"writing large blocks failed (codec {c['codec']}, sizes {[i['size'] for i in c['items']]}): "
                          f"{json.dumps(o.get('write'))[:200]} {[w for w in o.get('write_results', []) if w != 'ok'][:2]}",
                          {"fam": "big_roundtrip", "cmd": c, "codec": c["codec"], "stage": "write"}, observed={k: v for k, v in o.items() if k != "read"})
            continue
        if o["read"].get("init") != "ok":
            rep.violation(f"reading back large blocks failed at open/panic (codec {c['codec']}): {o['read'].get('msg', '')[:200]}",
                          {"fam": "big_roundtrip", "cmd": c, "codec": c["codec"], "stage": "read"}, observed=o["read"])
            continue
        bevents.append({"ev": "r_run", "nwritten": o["n"], "damage": "intact",
                        "results": [{"r": r["r"], "item": r["item"], "io": r["io"], "st": r["st"]} for r in o["read"]["results"]]})
        bown.append((c, o))
    if bevents:
        res = common.validate_trace("Trace_Reader", "Trace_Reader.cfg", bevents, timeout=900)
        rest, rest_own = bevents, bown
        guard = 0
        while not res["accepted"] and guard < 12:
            guard += 1
            fu = res["first_unmatched"]
            if fu is None or fu < 1:
                raise common.ToolError("Trace_Reader failed without reject index:\n" + res["out"][-2000:])
            c, o = rest_own[fu - 1]
            rep.violation(f"large-block round trip (codec {c['codec']}, level {c.get('level')}, sizes {[i['size'] for i in c['items']]}, reader {c['reader']}): "
                          f"{[(r['r'], r.get('msg', '')[:70]) for r in o['read']['results']][:4]}",
                          {"fam": "big_roundtrip", "cmd": c, "codec": c["codec"], "stage": "read", "reader_kind": c["reader"]["kind"]},
                          expected="the written items in order, then end of stream", observed=o["read"]["results"])
            rest, rest_own = rest[fu:], rest_own[fu:]
            if not rest:
                break
            res = common.validate_trace("Trace_Reader", "Trace_Reader.cfg", rest, timeout=900)
    bad = {"ev": "r_run", "nwritten": 2, "damage": "intact", "results": [{"r": "some", "item": 1, "io": False, "st": "x"}, {"r": "none", "item": 0, "io": False, "st": "x"}]}
    if common.validate_trace("Trace_Reader", "Trace_Reader.cfg", [bad])["accepted"]:
        raise common.ToolError("Trace_Reader accepted a run that lost a value: vacuous")
    cov = {
        "states": distinct, "transitions": states, "traces_validated_against_impl": len(chunks) + 1,
        "evaluations": len(rcmds) + len(bcmds), "distinct_nontrivial": len(rcmds) + len(bcmds),
        "rule": "models: CodecLoop (three streaming protocols; as-found arms rejected) and ContainerWriter. Real code: 10 op sequences x 6 codecs x levels "
                "(default, lowest, highest, above-max) x block sizes, each file read back with slice / 1-byte / whole-buffer / irregular chunked readers and "
                "BufReader capacities 1, 7, 8192; plus boundary-sized and large blocks (8 KiB / 32 KiB / 64 KiB +-1, to 2 MB, compressible and not), all codecs; "
                "every read is validated by TLC (Trace_Reader, damage = intact).",
        "small_files": len(wcmds), "reads": len(rcmds), "big": len(bcmds),
        "samples": [{k: v for k, v in wcmds[5].items()}, bcmds[0]], "exhaustive": False,
    }
    common.write_evidence(PROP, tier, seed, "model_checking", cov,
                          ["oracle = ContainerReaderAbs (Trace_Reader.tla) over values compared in the harness; compression libraries are uninterpreted",
                           f"harness hooks: {common.build_harness()['hooks']}"], time.time() - t0, rep.n)
    return rep.finish()


def expected_values(G, wc, written, pushed_vals):
    """values the reader must yield for a writer command: captured form of what was serialized"""
    out = []
    pi = 0
    small = container.item_value(1, "")
    big = container.item_value(-300, "xxxxxxxxxx", 9)
    by_pres = {json.dumps(container.item_pres(G, small), sort_keys=True): small, json.dumps(container.item_pres(G, big), sort_keys=True): big}
    for w in written:
        if w == "pushed":
            out.append(pushed_vals[pi % 2])
            pi += 1
        else:
            out.append(by_pres[json.dumps(w, sort_keys=True)])
    return out


def big_cmds(rng, tier):
    cmds = []
    sizes = [8190, 8192, 8193, 16384, 32760, 32768, 32769, 33000, 40000, 65536, 70000]
    if tier != "quick":
        sizes += [100000, 262144, 1000000, 2000000]
    readers = [{"kind": "slice"}, {"kind": "bufreader", "cap": 8192}, {"kind": "chunks", "sched": [4096]}, {"kind": "bufreader", "cap": 100}]
    for cd in container.CODECS:
        for kind in ("rand", "text"):
            for k, sz in enumerate(sizes):
                items = [{"size": sz, "kind": kind, "flush": True}, {"size": 10, "kind": "text"}, {"size": max(1, sz // 3), "kind": kind}]
                cmds.append({"op": "big_roundtrip", "id": len(cmds), "codec": cd, "approx": rng.choice([1, 64 * 1024, 10 ** 7]), "items": items,
                             "seed": rng.randrange(1 << 30), "reader": readers[(k + len(cmds)) % len(readers)]})
        # data that compresses extremely well (a megabyte of zeros and more in one block: ratios far beyond 1000:1)
        for sz in ([1 << 20] if tier == "quick" else [1 << 20, 3 << 20]):
            items = [{"size": sz, "kind": "zeros"}, {"size": sz // 2, "kind": "zeros"}, {"size": 5, "kind": "text"}]
            cmds.append({"op": "big_roundtrip", "id": len(cmds), "codec": cd, "approx": 10 ** 8, "items": items, "seed": 1, "reader": readers[len(cmds) % len(readers)]})
        # many small items whose total sits on the uncompressed buffer boundaries
        for total in ([8192, 32768] if tier == "quick" else [8191, 8192, 8193, 32767, 32768, 32769, 65536]):
            n = 16
            items = [{"size": total // n - 2, "kind": "rand"} for _ in range(n)]
            cmds.append({"op": "big_roundtrip", "id": len(cmds), "codec": cd, "approx": total, "items": items, "seed": rng.randrange(1 << 30),
                         "reader": rng.choice(readers)})
    return cmds


def replay(path):
    rec = json.load(open(path))
    sc = rec["scenario"]
    if sc["fam"] == "big_roundtrip":
        o = common.run_harness([sc["cmd"]], per_cmd_timeout=240)[0]
        ok = (o.get("res") == "ok" and o["write"]["res"] == "ok" and all(w == "ok" for w in o["write_results"]) and o["read"].get("init") == "ok")
        if ok:
            ev = {"ev": "r_run", "nwritten": o["n"], "damage": "intact",
                  "results": [{"r": r["r"], "item": r["item"], "io": r["io"], "st": r["st"]} for r in o["read"]["results"]]}
            ok = common.validate_trace("Trace_Reader", "Trace_Reader.cfg", [ev])["accepted"]
        print(json.dumps({k: v for k, v in o.items() if k not in ("read",)})[:1500])
    else:
        G = container.item_schema()
        wc = sc["wcmd"]
        wo = common.run_harness([wc])[0]
        written = []
        for op, st in zip(wc["ops"], wo["steps"]):
            if st["res"] == "ok" and op["op"] == "serialize":
                written.append(op["pres"])
            elif st["res"] == "ok" and op["op"] == "push":
                written.extend(["pushed"] * op["n"])
        ro = common.run_harness([{"op": "reader", "id": 0, "bytes": wo["sink"], "reader": sc["reader"], "calls": len(written) + 3}])[0]
        ok = ro.get("init") == "ok"
        if ok:
            ev = read_event(expected_values(G, wc, written, [container.item_value(2, "p"), container.item_value(3, "", 4)]), ro["results"])
            ok = common.validate_trace("Trace_Reader", "Trace_Reader.cfg", [ev])["accepted"]
        print(json.dumps(ro)[:1500])
    if not ok:
        print(f"VIOLATION property={PROP} replay={path}")
        return common.EXIT_VIOLATION
    return common.EXIT_OK

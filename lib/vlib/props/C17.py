"""C17 - container reader on damaged files: genuine prefix only, corruption detected, errors latched."""
import json
import random
import time

from .. import common, container, pyavro
from . import C05

PROP = "C17"


def model_sanity():
    """the abstract rules (Trace_Reader) must reject the canonical bad behaviours - checked on every run"""
    some = lambda i: {"r": "some", "item": i, "io": False, "st": "in_block"}  # noqa: E731
    none = {"r": "none", "item": 0, "io": False, "st": "not_in_block"}
    err = lambda io=False, st="in_block": {"r": "err", "item": 0, "io": io, "st": st}  # noqa: E731
    bad = [
        {"ev": "r_run", "nwritten": 3, "damage": "truncated", "results": [some(1), some(0), none]},              # a value that was not written
        {"ev": "r_run", "nwritten": 3, "damage": "named", "results": [some(1), some(2), none, none]},           # corruption not reported
        {"ev": "r_run", "nwritten": 3, "damage": "io", "results": [some(1), err(True), err(True), none]},       # I/O error reported twice
        {"ev": "r_run", "nwritten": 3, "damage": "arbitrary", "results": [some(1), none, some(2)]},             # value after end of stream
        {"ev": "r_run", "nwritten": 3, "damage": "arbitrary", "results": [err(False, "broken"), some(1)]},      # value after an unrecoverable error
    ]
    good = [{"ev": "r_run", "nwritten": 3, "damage": "truncated", "results": [some(1), err(), none, none]}]
    for b in bad:
        if common.validate_trace("Trace_Reader", "Trace_Reader.cfg", [b])["accepted"]:
            raise common.ToolError("Trace_Reader accepts a behaviour the property forbids: " + json.dumps(b))
    if not common.validate_trace("Trace_Reader", "Trace_Reader.cfg", good)["accepted"]:
        raise common.ToolError("Trace_Reader rejects a behaviour the property allows")
    return len(bad) + len(good)


def make_files(tier):
    """one small file per codec: 3 blocks (2, 1, 2 items)"""
    G = container.item_schema()
    vals = [container.item_value(1, "ab"), container.item_value(-5, "", 3), container.item_value(70000, "hello world"),
            container.item_value(0, "z"), container.item_value(2, "yy", -1)]
    ops = []
    for i, v in enumerate(vals):
        ops.append({"op": "serialize", "pres": container.item_pres(G, v)})
        if i in (1, 2):
            ops.append({"op": "finish"})
    ops.append({"op": "into_inner"})
    cmds = [container.writer_cmd(G, cd, 10 ** 6, ops, cid=i) for i, cd in enumerate(container.CODECS)]
    obs, walks = container.run_writer_sessions(cmds)
    files = []
    for c, o, w in zip(cmds, obs, walks):
        if o.get("res") != "ok" or w["stop"] != len(o["sink"]) or len(w["blocks"]) != 3:
            raise common.ToolError(f"could not produce the reference file for {c['codec']}: {json.dumps(w)[:300]}")
        files.append({"codec": c["codec"], "bytes": o["sink"], "hlen": o["build"]["sink_len"], "blocks": w["blocks"], "values": vals})
    return files


def reencode_block_header(f, bi, dcount=0, dsize=0):
    """file with block bi's count / size varints re-encoded with a delta"""
    b = f["blocks"][bi]
    data = f["bytes"]
    old = pyavro.enc_long(b["count"]) + pyavro.enc_long(b["size"])
    assert data[b["begin"]:b["begin"] + len(old)] == old
    new = pyavro.enc_long(b["count"] + dcount) + pyavro.enc_long(b["size"] + dsize)
    return data[:b["begin"]] + new + data[b["begin"] + len(old):]


def run(tier, seed):
    t0 = time.time()
    rep = common.Report(PROP, tier, seed)
    common.build_harness()
    n_sanity = model_sanity()
    files = make_files(tier)
    rng = random.Random(seed)
    readers = [{"kind": "slice"}, {"kind": "chunks", "sched": [1]}, {"kind": "chunks", "sched": [7]}, {"kind": "chunks", "sched": []}]
    cmds, meta = [], []

    def add(f, data, damage, what, rd, extra=None):
        c = {"op": "reader", "id": len(cmds), "bytes": data, "reader": dict(rd, **(extra or {})), "calls": len(f["values"]) + 2 * 3 + 8}
        cmds.append(c)
        meta.append((f, damage, what))

    for f in files:
        data = f["bytes"]
        n = len(data)
        # truncation at every offset
        for cut in range(0, n):
            for rd in (readers if tier != "quick" else [readers[cut % 4], readers[(cut + 1) % 4]]):
                add(f, data[:cut], "truncated", f"truncated at {cut}", rd)
        # named corruptions
        for bi, b in enumerate(f["blocks"]):
            sync_at = b["end"] - 16
            for k in (range(16) if tier != "quick" else (0, 7, 15)):
                d = list(data)
                d[sync_at + k] ^= 0x01
                for rd in readers[:2]:
                    add(f, d, "sync", f"sync marker of block {bi} byte {k} changed", rd)
            for dc, ds, what in ((1, 0, "count+1"), (-1, 0, "count-1"), (0, 1, "size+1"), (0, -1, "size-1")):
                if b["count"] + dc < 0 or b["size"] + ds < 0:
                    continue
                d = reencode_block_header(f, bi, dc, ds)
                for rd in readers[:3]:
                    add(f, d, "named", f"block {bi} {what}", rd)
            if f["codec"] == "snappy":
                d = list(data)
                d[sync_at - 1] ^= 0x10      # last byte of the CRC trailer
                for rd in readers[:2]:
                    add(f, d, "named", f"snappy CRC of block {bi} changed", rd)
        for k in (range(16) if tier != "quick" else (0, 15)):
            d = list(data)
            d[f["hlen"] - 16 + k] ^= 0x80      # the header's own sync marker: every block's marker now differs from it
            add(f, d, "named", f"header sync marker byte {k} changed", readers[k % 2])
        # arbitrary single-byte corruption at every offset
        masks = [("x", 0x01), ("x", 0x80), ("=", 0x00), ("=", 0xFF)]
        for off in range(n):
            for mk, (kind, m) in enumerate(masks if tier != "quick" else [masks[off % 4]]):
                d = list(data)
                d[off] = (d[off] ^ m) if kind == "x" else m
                if d[off] == data[off]:
                    continue
                add(f, d, "arbitrary", f"byte {off} {kind}{m:#x}", readers[(off + mk) % 4])
        # I/O error at every refill
        for sched in ([1], [5], [64]):
            nref = (n + sched[0] - 1) // sched[0] + 1
            for i in range(0, nref):
                add(f, data, "io", f"I/O error at refill {i} (chunks of {sched[0]})", {"kind": "chunks", "sched": sched}, {"fail_at_refill": i})
    obs = common.run_harness(cmds, per_cmd_timeout=30)
    events, owner = [], []
    counts = {}
    for i, (c, (f, damage, what), o) in enumerate(zip(cmds, meta, obs)):
        counts[damage] = counts.get(damage, 0) + 1
        if o.get("res") != "ok":
            rep.violation(f"{f['codec']} file, {what}, reader {c['reader']}: the reader did not return ({o.get('res')}: {str(o.get('msg', ''))[:150]})",
                          {"fam": "reader_damage", "cmd": c, "codec": f["codec"], "damage": damage, "what": what}, expected="every call returns Ok or Err", observed=o)
            continue
        if o.get("init") != "ok":
            # the header itself is damaged / cut: an error at open is the report; nothing else to check (no value was yielded)
            if damage in ("named", "sync") and "header sync" not in what:
                rep.violation(f"{f['codec']} file, {what}: reader failed to open an intact header", {"fam": "reader_damage", "cmd": c, "codec": f["codec"], "damage": damage},
                              observed=o)
            continue
        ev = C05.read_event(f["values"], o["results"], damage)
        if damage == "io" and not any(r["r"] == "err" for r in o["results"]):
            ev["damage"] = "intact" if c["reader"].get("fail_at_refill", 0) * c["reader"]["sched"][0] >= len(f["bytes"]) + 10 ** 9 else "io"
        events.append(ev)
        owner.append(i)
    nch = min(common.NCPU, max(1, len(events) // 300))
    chunks = [events[k::nch] for k in range(nch)]
    idx = [owner[k::nch] for k in range(nch)]
    results = common.validate_traces_parallel("Trace_Reader", "Trace_Reader.cfg", chunks, timeout=1500)
    for k, res in enumerate(results):
        rest, rest_idx = chunks[k], idx[k]
        guard = 0
        while not res["accepted"] and guard < 8:
            guard += 1
            fu = res["first_unmatched"]
            if fu is None or fu < 1:
                raise common.ToolError("Trace_Reader failed without reject index:\n" + res["out"][-2000:])
            i = rest_idx[fu - 1]
            f, damage, what = meta[i]
            o = obs[i]
            rep.violation(f"{f['codec']} file, {what}, reader {cmds[i]['reader']}: results {[(r['r'], r.get('msg', '')[:50]) for r in o['results']][:7]} "
                          f"violate the '{damage}' rule", {"fam": "reader_damage", "cmd": cmds[i], "codec": f["codec"], "damage": damage, "what": what},
                          expected=f"ContainerReaderAbs / {damage} (Trace_Reader.tla)", observed=o["results"])
            rest, rest_idx = rest[fu:], rest_idx[fu:]
            if not rest:
                break
            res = common.validate_trace("Trace_Reader", "Trace_Reader.cfg", rest, timeout=1500)
    cov = {
        "states": max(1, len(events)), "transitions": max(1, len(events)), "traces_validated_against_impl": nch,
        "evaluations": len(cmds), "distinct_nontrivial": len(cmds),
        "rule": "for one 3-block file per codec (6 codecs): truncation at EVERY byte offset; every byte of every block's sync marker changed; declared "
                "count +-1 and size +-1 of every block; snappy CRC changed; header sync marker changed; single-byte corruption at every offset (4 masks); an I/O "
                "error injected at every refill index for 3 chunk sizes; slice and chunked readers. Each read is validated by TLC against ContainerReaderAbs "
                "(Trace_Reader: prefix rule, must-report rule, once-then-EOF latch with reader state from hooks, sticky end of stream).",
        "by_damage": counts, "rule_sanity_cases": n_sanity,
        "samples": [{k: v for k, v in cmds[3].items() if k != "bytes"}, events[3] if events else None], "exhaustive": True,
    }
    common.write_evidence(PROP, tier, seed, "model_checking", cov,
                          ["oracle = ContainerReaderAbs (Trace_Reader.tla); the decoded values are compared with the written ones in the driver",
                           "'exhaustive' = every offset / index of the reference files, not every possible file",
                           f"harness hooks: {common.build_harness()['hooks']}"], time.time() - t0, rep.n)
    return rep.finish()


def replay(path):
    rec = json.load(open(path))
    sc = rec["scenario"]
    o = common.run_harness([sc["cmd"]], per_cmd_timeout=30)[0]
    print(json.dumps(o)[:1500])
    ok = o.get("res") == "ok"
    if ok and o.get("init") == "ok":
        files = make_files("quick")
        f = [x for x in files if x["codec"] == sc["codec"]][0]
        ev = C05.read_event(f["values"], o["results"], sc["damage"])
        ok = common.validate_trace("Trace_Reader", "Trace_Reader.cfg", [ev])["accepted"]
    if not ok:
        print(f"VIOLATION property={PROP} replay={path}")
        return common.EXIT_VIOLATION
    return common.EXIT_OK

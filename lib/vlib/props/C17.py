"""C17 - container reader on damaged files: genuine prefix only, corruption detected, errors latched."""
import json
import random
import time

from .. import scopes, common, container, pyavro
from . import C05

PROP = "C17"


def model_sanity():
    """the abstract rules (Trace_Reader) must reject the canonical bad behaviours - checked on every run"""
    some = lambda i: {"r": "some", "item": i, "io": False, "st": "in_block"}  # noqa: E731
    none = {"r": "none", "item": 0, "io": False, "st": "not_in_block"}
    err = lambda io=False, st="in_block": {"r": "err", "item": 0, "io": io, "st": st}  # noqa: E731
    bad = [
        {"ev": "r_run", "nwritten": 3, "damage": "truncated", "results": [some(1), some(0), none]},              # a value that was not written
        {"ev": "r_run", "nwritten": 3, "damage": "named", "results": [some(1), some(2), none, none]},           # corruption not reported
        {"ev": "r_run", "nwritten": 3, "damage": "io", "results": [some(1), err(True), err(True), none]},       # I/O error reported twice
        {"ev": "r_run", "nwritten": 3, "damage": "arbitrary", "results": [some(1), none, some(2)]},             # value after end of stream
        {"ev": "r_run", "nwritten": 3, "damage": "arbitrary", "results": [err(False, "broken"), some(1)]},      # value after an unrecoverable error
    ]
    good = [{"ev": "r_run", "nwritten": 3, "damage": "truncated", "results": [some(1), err(), none, none]}]
    for b in bad:
        if common.validate_trace("Trace_Reader", "Trace_Reader.cfg", [b])["accepted"]:
            raise common.ToolError("Trace_Reader accepts a behaviour the property forbids: " + json.dumps(b))
    if not common.validate_trace("Trace_Reader", "Trace_Reader.cfg", good)["accepted"]:
        raise common.ToolError("Trace_Reader rejects a behaviour the property allows")
    return len(bad) + len(good)


def make_files(tier):
    """one small file per codec: 3 blocks (2, 1, 2 items)"""
    G = container.item_schema()
    vals = [container.item_value(1, "ab"), container.item_value(-5, "", 3), container.item_value(70000, "hello world"),
            container.item_value(0, "z"), container.item_value(2, "yy", -1)]
    ops = []
    for i, v in enumerate(vals):
        ops.append({"op": "serialize", "pres": container.item_pres(G, v)})
        if i in (1, 2):
            ops.append({"op": "finish"})
    ops.append({"op": "into_inner"})
    cmds = [container.writer_cmd(G, cd, 10 ** 6, ops, cid=i) for i, cd in enumerate(container.CODECS)]
    obs, walks = container.run_writer_sessions(cmds)
    files = []
    for c, o, w in zip(cmds, obs, walks):
        if o.get("res") != "ok" or w["stop"] != len(o["sink"]) or len(w["blocks"]) != 3:
            raise common.ToolError(f"could not produce the reference file for {c['codec']}: {json.dumps(w)[:300]}")
        files.append({"codec": c["codec"], "bytes": o["sink"], "hlen": o["build"]["sink_len"], "blocks": w["blocks"], "values": vals})
    # a block of 70 objects (its count takes two bytes), null codec
    vals70 = [container.item_value(i, "v") for i in range(70)]
    ops70 = [{"op": "serialize", "pres": container.item_pres(G, v)} for v in vals70] + [{"op": "into_inner"}]
    c70 = container.writer_cmd(G, "null", 10 ** 6, ops70, cid=0)
    o70, w70 = container.run_writer_sessions([c70])
    if o70[0].get("res") != "ok" or w70[0]["stop"] != len(o70[0]["sink"]) or len(w70[0]["blocks"]) != 1:
        raise common.ToolError("could not produce the 70-object reference file")
    files.append({"codec": "null", "bytes": o70[0]["sink"], "hlen": o70[0]["build"]["sink_len"], "blocks": w70[0]["blocks"], "values": vals70})
    # items that carry a decimal and a fixed (their bytes are read with read_exact, not through the string / bytes paths): null and deflate
    G2 = scopes.flatten(scopes.rec("ns.Priced", [("a", scopes.prim("long")), ("d", scopes.prim("bytes", lt="decimal", prec=20, scale=2)),
                                                ("f", scopes.fixed("ns.F6", 6)), ("s", scopes.prim("string"))]))["nodes"]

    def pv(a, unscaled, fx, st):
        return {"t": "rec", "es": [{"t": "long", "v": pyavro.limbs(a)}, {"t": "dec", "v": pyavro.be16(unscaled), "s": 2},
                                   {"t": "fix", "v": list(fx)}, {"t": "str", "v": container.T(st)}]}
    vals2 = [pv(1, 123456789012345, b"abcdef", "x"), pv(-2, -1, b"\x00\x01\x02\x03\x04\x05", ""), pv(3, 0, b"zzzzzz", "tail"), pv(4, 1 << 70, b"\xff" * 6, "q")]
    ops2 = []
    for i, v in enumerate(vals2):
        ops2.append({"op": "serialize", "pres": container.item_pres(G2, v)})
        if i in (1, 2):
            ops2.append({"op": "finish"})
    ops2.append({"op": "into_inner"})
    cmds2 = [container.writer_cmd(G2, cd, 10 ** 6, ops2, cid=i) for i, cd in enumerate(("null", "deflate"))]
    obs2, walks2 = container.run_writer_sessions(cmds2)
    for c, o, w in zip(cmds2, obs2, walks2):
        if o.get("res") != "ok" or w["stop"] != len(o["sink"]) or len(w["blocks"]) != 3:
            raise common.ToolError(f"could not produce the decimal reference file for {c['codec']}: {json.dumps(w)[:300]} {json.dumps(o)[:300]}")
        files.append({"codec": c["codec"], "bytes": o["sink"], "hlen": o["build"]["sink_len"], "blocks": w["blocks"], "values": vals2, "G": G2})
    return files


def make_crafted_files(tier):
    """files whose first block was assembled with push_serialized from bytes that disagree with the declared object count - for EVERY
    codec (the payload is compressed like any other): more objects than declared, fewer, an object cut short, stray bytes after the
    last object, an object that does not decode (union branch 5 of 2).  The second block is intact."""
    G = container.item_schema()
    v1, v2, v3 = container.item_value(4, "ab"), container.item_value(-9, "cde", 7), container.item_value(1, "last")
    e1, e2 = pyavro.encode(G, 1, v1), pyavro.encode(G, 1, v2)
    bad = pyavro.enc_long(3) + pyavro.enc_long(1) + [0x41] + pyavro.enc_long(5)            # a = 3, s = "A", union branch 5
    crafts = [("two objects declared as one", e1 + e2, 1, ["good", "good"], [v1, v2]),
              ("one object declared as two", e1, 2, ["good"], [v1]),
              ("one object declared as three", e1, 3, ["good"], [v1]),
              ("second object cut short", e1 + e2[:len(e2) - 1], 2, ["good", "short"], [v1, v2]),      # (a cut object keeps its number)
              ("first object cut short", e1[:2], 1, ["short"], [v1]),
              ("stray byte after the last object", e1 + e2 + [0x00], 2, ["good", "good", "junk"], [v1, v2]),
              ("an object that does not decode", e1 + bad + e2, 3, ["good", "bad", "good"], [v1]),
              ("nothing declared as one object", [], 1, [], [])]
    cmds, info = [], []
    for cd in container.CODECS:
        for what, payload, n, items, good in crafts:
            ops = [{"op": "push", "bytes": payload, "n": n}, {"op": "finish"}, {"op": "serialize", "pres": container.item_pres(G, v3)}, {"op": "into_inner"}]
            cmds.append(container.writer_cmd(G, cd, 10 ** 6, ops, cid=len(cmds)))
            info.append((cd, what, n, items, good))
    obs, walks = container.run_writer_sessions(cmds)
    files = []
    for c, o, w, (cd, what, n, items, good) in zip(cmds, obs, walks, info):
        if o.get("res") != "ok" or w["stop"] != len(o["sink"]) or len(w["blocks"]) != 2 or w["blocks"][0]["count"] != n:
            if not items and len(w.get("blocks", [])) == 1:
                continue                 # (an empty push may legitimately not open a block)
            raise common.ToolError(f"could not produce the crafted file '{what}' for {cd}: {json.dumps(w)[:300]}")
        shape = {"ev": "file", "blocks": [{"n": n, "items": items, "sync": "ok"}, {"n": 1, "items": ["good"], "sync": "ok"}], "cutb": 0, "cutat": AT_NONE}
        files.append({"codec": cd, "bytes": o["sink"], "hlen": o["build"]["sink_len"], "blocks": w["blocks"], "values": good + [v3],
                      "what": what, "shape": shape})
    return files


AT_HDR, AT_SYNC, AT_CLEAN, AT_NONE, AT_PAYLOAD = 0, 1000, -1, -2, -3


def abstract_file(f, bad_sync=(), dn=None, items=None, cut=(0, AT_NONE)):
    """the file as ContainerReader.tla sees it: per block the declared count, what the payload holds, the sync marker"""
    blocks = []
    for bi, b in enumerate(f["blocks"]):
        it = ["good"] * b["count"]
        if items and bi in items:
            it = items[bi]
        blocks.append({"n": b["count"] + (dn or {}).get(bi, 0), "items": it, "sync": "bad" if bi in bad_sync else "ok"})
    return {"ev": "file", "blocks": blocks, "cutb": cut[0], "cutat": cut[1]}


def item_lengths(f):
    """byte length of every written value's encoding, per block (the null codec stores them as they are)"""
    G = f.get("G") or container.item_schema()
    out, k = [], 0
    for b in f["blocks"]:
        out.append([len(pyavro.encode(G, 1, v)) for v in f["values"][k:k + b["count"]]])
        k += b["count"]
    return out


def cut_shape(f, cut):
    if cut < f["hlen"]:
        return None                      # the header itself is cut: the reader does not open
    lens = item_lengths(f)
    for bi, b in enumerate(f["blocks"]):
        if cut == b["begin"]:
            return abstract_file(f, cut=(bi + 1, AT_CLEAN))
        if b["begin"] < cut < b["end"]:
            hdr = len(pyavro.enc_long(b["count"]) + pyavro.enc_long(b["size"]))
            pay0, pay1 = b["begin"] + hdr, b["end"] - 16
            if cut < pay0:
                return abstract_file(f, cut=(bi + 1, AT_HDR))
            if cut >= pay1:
                return abstract_file(f, cut=(bi + 1, AT_SYNC))
            if f["codec"] != "null":
                return abstract_file(f, cut=(bi + 1, AT_PAYLOAD))
            off = pay0
            for j, n in enumerate(lens[bi]):
                if cut < off + n:
                    return abstract_file(f, cut=(bi + 1, j + 1))
                off += n
            return None
    return None


def header_shape(f, bi, dc, ds):
    if dc:
        return abstract_file(f, dn={bi: dc})
    if f["codec"] != "null":
        return None                      # a compressed payload one byte short / long: what the decompressor makes of it is not modelled
    n = f["blocks"][bi]["count"]
    if ds > 0:
        return abstract_file(f, items={bi: ["good"] * n + ["junk"]})
    # one byte short: the last object runs off the block; a slice reader then goes on right after the declared size, where the
    # sync marker is misaligned (the stream reader never gets there: its I/O error is final)
    shp = abstract_file(f, items={bi: ["good"] * (n - 1) + ["short"]})
    shp["_short_block"] = bi
    return shp


def reencode_block_header(f, bi, dcount=0, dsize=0):
    """file with block bi's count / size varints re-encoded with a delta"""
    b = f["blocks"][bi]
    data = f["bytes"]
    old = pyavro.enc_long(b["count"]) + pyavro.enc_long(b["size"])
    assert data[b["begin"]:b["begin"] + len(old)] == old
    new = pyavro.enc_long(b["count"] + dcount) + pyavro.enc_long(b["size"] + dsize)
    return data[:b["begin"]] + new + data[b["begin"] + len(old):]


def run(tier, seed):
    t0 = time.time()
    rep = common.Report(PROP, tier, seed)
    common.build_harness()
    n_sanity = model_sanity()
    files = make_files(tier)
    rng = random.Random(seed)
    readers = [{"kind": "slice"}, {"kind": "chunks", "sched": [1]}, {"kind": "chunks", "sched": [7]}, {"kind": "chunks", "sched": []}]
    cmds, meta, shapes = [], [], []

    def add(f, data, damage, what, rd, extra=None, shape=None):
        c = {"op": "reader", "id": len(cmds), "bytes": data, "reader": dict(rd, **(extra or {})), "calls": len(f["values"]) + 2 * 3 + 8}
        cmds.append(c)
        meta.append((f, damage, what))
        if shape is not None:       # the abstract file for Trace_ReaderImpl (None: judged by the abstract rules only)
            is_slice = rd.get("kind") == "slice"
            shape = dict(shape, kind="slice" if (is_slice and f["codec"] == "null") else "whole_io" if (is_slice or f["codec"] == "snappy") else "stream")
            sb = shape.pop("_short_block", None)
            if sb is not None and shape["kind"] == "slice":
                shape = json.loads(json.dumps(shape))
                shape["blocks"][sb]["sync"] = "bad"
        shapes.append(shape)

    for f in files:
        data = f["bytes"]
        n = len(data)
        # truncation at every offset
        for cut in range(0, n):
            for rd in (readers if tier != "quick" else [readers[cut % 4], readers[(cut + 1) % 4]]):
                add(f, data[:cut], "truncated", f"truncated at {cut}", rd, shape=cut_shape(f, cut))
        # named corruptions
        for bi, b in enumerate(f["blocks"]):
            sync_at = b["end"] - 16
            for k in (range(16) if tier != "quick" else (0, 7, 15)):
                d = list(data)
                d[sync_at + k] ^= 0x01
                for rd in readers[:2]:
                    add(f, d, "sync", f"sync marker of block {bi} byte {k} changed", rd, shape=abstract_file(f, bad_sync=[bi]))
            for dc, ds, what in ((1, 0, "count+1"), (-1, 0, "count-1"), (0, 1, "size+1"), (0, -1, "size-1")):
                if b["count"] + dc < 0 or b["size"] + ds < 0:
                    continue
                d = reencode_block_header(f, bi, dc, ds)
                for rd in readers[:3]:
                    add(f, d, "named_ends", f"block {bi} {what}", rd, shape=header_shape(f, bi, dc, ds))
            # hostile block headers: counts and sizes no block can have (negative, 2^62, i64::MIN/MAX, beyond the allocation cap) and
            # a count of zero over a non-empty payload: reported as errors, without panic, abort, endless loop or huge allocation
            hostile = [(c, None) for c in (0, -1, -(2 ** 63), 2 ** 63 - 1, 2 ** 62, 2 ** 31, 2 ** 32, 10 ** 6) if c != b["count"]] + \
                      [(None, z) for z in (-1, -(2 ** 63), 2 ** 63 - 1, 2 ** 62, 2 ** 31 - 1, 2 ** 32, 600 * 2 ** 20, 10 ** 6)]
            for hk, (hc, hz) in enumerate(hostile if tier != "quick" else hostile[(bi % 2)::2]):
                d = reencode_block_header(f, bi, 0 if hc is None else hc - b["count"], 0 if hz is None else hz - b["size"])
                for rd in (readers[:3] if tier != "quick" else [readers[hk % 3]]):
                    add(f, d, "named", f"block {bi} declares " + (f"{hc} objects" if hz is None else f"{hz} bytes"), rd)
            if f["codec"] == "snappy":
                d = list(data)
                d[sync_at - 1] ^= 0x10      # last byte of the CRC trailer
                for rd in readers[:2]:
                    add(f, d, "named", f"snappy CRC of block {bi} changed", rd)
        for k in (range(16) if tier != "quick" else (0, 15)):
            d = list(data)
            d[f["hlen"] - 16 + k] ^= 0x80      # the header's own sync marker: every block's marker now differs from it
            add(f, d, "named", f"header sync marker byte {k} changed", readers[k % 2], shape=abstract_file(f, bad_sync=list(range(len(f["blocks"])))))
        # arbitrary single-byte corruption at every offset
        masks = [("x", 0x01), ("x", 0x80), ("=", 0x00), ("=", 0xFF)]
        for off in range(n):
            for mk, (kind, m) in enumerate(masks if tier != "quick" else [masks[off % 4]]):
                d = list(data)
                d[off] = (d[off] ^ m) if kind == "x" else m
                if d[off] == data[off]:
                    continue
                add(f, d, "arbitrary", f"byte {off} {kind}{m:#x}", readers[(off + mk) % 4])
        # several bytes at once (random offsets and values; seeded)
        for k in range(40 if tier == "quick" else 400):
            d = list(data)
            for _ in range(rng.randint(2, 5)):
                d[rng.randrange(f["hlen"], n)] = rng.choice((0, 1, 2, 0x7F, 0x80, 0xFF, rng.randrange(256)))
            if d != list(data):
                add(f, d, "arbitrary", f"random multi-byte corruption #{k}", readers[k % 4])
        # I/O error at every refill
        for sched in ([1], [5], [64]):
            nref = (n + sched[0] - 1) // sched[0] + 1
            for i in range(0, nref):
                add(f, data, "io", f"I/O error at refill {i} (chunks of {sched[0]})", {"kind": "chunks", "sched": sched}, {"fail_at_refill": i})
                # other kinds of I/O error; Interrupted and WouldBlock may be retried by the reading layers and never surface
                kind = ("interrupted", "connection_reset", "would_block", "unexpected_eof")[i % 4]
                add(f, data, "io", f"I/O error ({kind}) at refill {i} (chunks of {sched[0]})", {"kind": "chunks", "sched": sched}, {"fail_at_refill": i, "fail_kind": kind})
    # blocks whose contents disagree with their declared count, assembled with push_serialized, every codec
    crafted = make_crafted_files(tier)
    for f in crafted:
        for rd in readers[:3]:
            add(f, f["bytes"], "named", f"crafted block: {f['what']}", rd, shape=f["shape"])
    obs = common.run_harness(cmds, per_cmd_timeout=30)
    events, owner = [], []
    counts = {}
    for i, (c, (f, damage, what), o) in enumerate(zip(cmds, meta, obs)):
        counts[damage] = counts.get(damage, 0) + 1
        if o.get("res") != "ok":
            rep.violation(f"{f['codec']} file, {what}, reader {c['reader']}: the reader did not return ({o.get('res')}: {str(o.get('msg', ''))[:150]})",
                          {"fam": "reader_damage", "cmd": c, "codec": f["codec"], "damage": damage, "what": what}, expected="every call returns Ok or Err", observed=o)
            continue
        if o.get("init") != "ok":
            # the header itself is damaged / cut: an error at open is the report; nothing else to check (no value was yielded)
            if damage in ("named", "named_ends", "sync") and "header sync" not in what:
                rep.violation(f"{f['codec']} file, {what}: reader failed to open an intact header", {"fam": "reader_damage", "cmd": c, "codec": f["codec"], "damage": damage},
                              observed=o)
            continue
        ev = C05.read_event(f["values"], o["results"], damage)
        if damage == "io" and not any(r["r"] == "err" for r in o["results"]):
            # no error surfaced: legitimate for a retryable kind (the read is then simply repeated) - the file must read as intact
            retryable = c["reader"].get("fail_kind") in ("interrupted", "would_block")
            ev["damage"] = "intact" if retryable or c["reader"].get("fail_at_refill", 0) * c["reader"]["sched"][0] >= len(f["bytes"]) + 10 ** 9 else "io"
        events.append(ev)
        owner.append(i)
    nch = min(common.NCPU, max(1, len(events) // 300))
    chunks = [events[k::nch] for k in range(nch)]
    idx = [owner[k::nch] for k in range(nch)]
    results = common.validate_traces_parallel("Trace_Reader", "Trace_Reader.cfg", chunks, timeout=1500)
    for k, res in enumerate(results):
        rest, rest_idx = chunks[k], idx[k]
        guard = 0
        while not res["accepted"] and guard < 8:
            guard += 1
            fu = res["first_unmatched"]
            if fu is None or fu < 1:
                raise common.ToolError("Trace_Reader failed without reject index:\n" + res["out"][-2000:])
            i = rest_idx[fu - 1]
            f, damage, what = meta[i]
            o = obs[i]
            rep.violation(f"{f['codec']} file, {what}, reader {cmds[i]['reader']}: results {[(r['r'], r.get('msg', '')[:50]) for r in o['results']][:7]} "
                          f"violate the '{damage}' rule", {"fam": "reader_damage", "cmd": cmds[i], "codec": f["codec"], "damage": damage, "what": what},
                          expected=f"ContainerReaderAbs / {damage} (Trace_Reader.tla)", observed=o["results"])
            rest, rest_idx = rest[fu:], rest_idx[fu:]
            if not rest:
                break
            res = common.validate_trace("Trace_Reader", "Trace_Reader.cfg", rest, timeout=1500)
    # ---- the same reads, state by state, against the reader machine (ContainerReader.tla) where the driver knows the abstract file
    mc = common.run_tlc("MC_ContainerReader", "MC_ContainerReader.cfg" if tier == "quick" else "MC_ContainerReader_thorough.cfg", workers=8, timeout=2400, xmx="8g")
    common.require_tlc_ok(mc, "MC_ContainerReader (the reader machine obeys C17's rules on all small damaged files)")
    mm = common.run_tlc("MC_ContainerReader", "MC_ContainerReader_mut.cfg", workers=2, timeout=300)
    if "is violated" not in mm["out"]:
        raise common.ToolError("MC_ContainerReader: the mutated machine (I/O error not latched) is not refuted")
    ievents, iowner = [], []
    for i, (c, (f, damage, what), o, shp) in enumerate(zip(cmds, meta, obs, shapes)):
        if shp is None or o.get("res") != "ok" or o.get("init") != "ok":
            continue
        ievents.append(shp)
        iowner.append(i)
        rev = C05.read_event(f["values"], o["results"], damage)["results"]
        if "shape" in f:
            # crafted blocks: an object the reader could not deliver keeps its number (the machine counts it) - number each value by
            # its first occurrence after the previous one
            last = 0
            for r_, src in zip(rev, o["results"]):
                if r_["r"] == "some":
                    nxt = [j for j in range(last + 1, len(f["values"]) + 1) if f["values"][j - 1] == src.get("value")]
                    r_["item"] = nxt[0] if nxt else 0
                    last = r_["item"] or last
        for r_, src in zip(rev, o["results"]):
            ievents.append({"ev": "call", "r": r_["r"], "item": r_["item"], "st": src.get("st", "unknown"), "left": src.get("left", -1), "latch": src.get("latch", -1)})
            iowner.append(i)
    per = max(400, (len(ievents) + common.NCPU - 1) // common.NCPU)
    chunks, owners_c, cur, cur_o = [], [], [], []
    for ev, ow in zip(ievents, iowner):
        if ev["ev"] == "file" and len(cur) >= per:
            chunks.append(cur)
            owners_c.append(cur_o)
            cur, cur_o = [], []
        cur.append(ev)
        cur_o.append(ow)
    if cur:
        chunks.append(cur)
        owners_c.append(cur_o)
    iresults = common.validate_traces_parallel("Trace_ReaderImpl", "Trace_ReaderImpl.cfg", chunks, timeout=2400) if chunks else []
    for ch, ow, res in zip(chunks, owners_c, iresults):
        rest, rest_o, guard = ch, ow, 0
        while not res["accepted"] and guard < 6:
            guard += 1
            fu = res["first_unmatched"]
            if fu is None or fu < 1 or fu > len(rest):
                raise common.ToolError("Trace_ReaderImpl failed without a usable reject index:\n" + res["out"][-2500:])
            i = rest_o[fu - 1]
            f, damage, what = meta[i]
            # The abstract rules (Trace_Reader, above) are the property.  The reader machine is one implementation of them: a read that
            # departs from it - in its results or in the state the hook shows - means the code no longer follows the model that TLC
            # checked (MC_ContainerReader's result does not transfer any more), not that C17 is violated.  Recorded, never an alarm.
            rep.note(f"{f['codec']} file, {what}, reader {cmds[i]['reader']}: call #{len([1 for x in rest_o[:fu] if x == i]) - 1} departs from the reader machine "
                     f"(ContainerReader.tla): {[(r['r'], r.get('st'), r.get('left'), r.get('latch')) for r in obs[i]['results']][:8]}")
            j = fu
            while j < len(rest) and rest[j]["ev"] != "file":
                j += 1
            rest, rest_o = rest[j:], rest_o[j:]
            if not rest:
                break
            res = common.validate_trace("Trace_ReaderImpl", "Trace_ReaderImpl.cfg", rest, timeout=2400)
    # binding: a wrong hook state must be rejected
    for k0, ev in enumerate(ievents):
        if ev["ev"] == "call" and ev["st"] == "in_block" and ievents[k0 - 1]["ev"] == "file":
            good = ievents[k0 - 1:k0 + 1]
            badt = [good[0], dict(good[1], left=good[1]["left"] + 1)]
            if common.validate_trace("Trace_ReaderImpl", "Trace_ReaderImpl.cfg", good)["accepted"] and \
                    common.validate_trace("Trace_ReaderImpl", "Trace_ReaderImpl.cfg", badt)["accepted"]:
                raise common.ToolError("Trace_ReaderImpl accepts a wrong hook state: vacuous")
            break
    cov = {
        "reader_machine_states": mc["distinct"], "reads_validated_state_by_state": len([e for e in ievents if e["ev"] == "file"]),
        "states": max(1, len(events)), "transitions": max(1, len(events)), "traces_validated_against_impl": nch,
        "evaluations": len(cmds), "distinct_nontrivial": len(cmds),
        "rule": "for one 3-block file per codec (6 codecs): truncation at EVERY byte offset; every byte of every block's sync marker changed; declared "
                "count +-1 and size +-1 of every block; hostile declared counts and sizes (0, negative, 2^31, 2^32, 2^62, i64::MIN/MAX, beyond the allocation cap); blocks assembled with push_serialized whose contents disagree with the declared count (more, fewer, cut short, stray bytes, undecodable object; every codec); snappy CRC changed; header sync marker changed; single-byte corruption at every offset (4 masks); random multi-byte corruptions of the blocks; an I/O "
                "error injected at every refill index for 3 chunk sizes; slice and chunked readers. Each read is validated by TLC against ContainerReaderAbs "
                "(Trace_Reader: prefix rule, must-report rule, once-then-EOF latch with reader state from hooks, sticky end of stream).",
        "by_damage": counts, "rule_sanity_cases": n_sanity,
        "samples": [{k: v for k, v in cmds[3].items() if k != "bytes"}, events[3] if events else None], "exhaustive": True,
    }
    common.write_evidence(PROP, tier, seed, "model_checking", cov,
                          ["oracle = ContainerReaderAbs (Trace_Reader.tla); the decoded values are compared with the written ones in the driver",
                           "'exhaustive' = every offset / index of the reference files, not every possible file",
                           f"harness hooks: {common.build_harness()['hooks']}"], time.time() - t0, rep.n)
    return rep.finish()


def replay(path):
    rec = json.load(open(path))
    sc = rec["scenario"]
    o = common.run_harness([sc["cmd"]], per_cmd_timeout=30)[0]
    print(json.dumps(o)[:1500])
    ok = o.get("res") == "ok"
    if ok and o.get("init") == "ok":
        files = make_files("quick")
        f = [x for x in files if x["codec"] == sc["codec"]][0]
        ev = C05.read_event(f["values"], o["results"], sc["damage"])
        ok = common.validate_trace("Trace_Reader", "Trace_Reader.cfg", [ev])["accepted"]
    if not ok:
        print(f"VIOLATION property={PROP} replay={path}")
        return common.EXIT_VIOLATION
    return common.EXIT_OK

"""C15 - container writer: valid file at every quiescent point; failed values leave nothing."""
import json
import random
import time

from .. import scopes, codec, common, container, pyavro

PROP = "C15"
THOROUGH_SEEDS = 2        # seeds per thorough run (bin/check)


def model_check(tier):
    """A: ContainerWriterImpl => ContainerWriterAbs over all op sequences, several block sizes; two mutants must be caught."""
    import concurrent.futures as cf
    cfgs = ["MC_Writer.cfg", "MC_Writer_a0.cfg", "MC_Writer_a1.cfg", "MC_Writer_a5.cfg"]
    with cf.ThreadPoolExecutor(4) as ex:
        rs = list(ex.map(lambda c: common.run_tlc("ContainerWriter", c, workers=4, timeout=1500, xmx="6g"), cfgs))
    for c, r in zip(cfgs, rs):
        common.require_tlc_ok(r, f"ContainerWriter {c}")
    for mut in ("MC_Writer_mut1.cfg", "MC_Writer_mut2.cfg"):
        m = common.run_tlc("ContainerWriter", mut, workers=2, timeout=600)
        if "is violated" not in m["out"]:
            raise common.ToolError(f"model-level mutant {mut} not detected: invariants are vacuous\n" + m["out"][-1200:])
    return sum(r["distinct"] for r in rs), sum(r["states"] for r in rs)


def sessions(tier, seed):
    """B: every op sequence up to length 4 (5 thorough) over {serialize small / big / failing at once / failing after bytes
    were written, push 2 items, finish_block}, closed by into_inner or drop, x approx_block_size x codec"""
    G = container.item_schema()
    alpha = container.op_alphabet(G)
    maxlen = 4 if tier == "quick" else 5
    combos = [("null", 0), ("null", 1), ("null", 8), ("null", 30), ("deflate", 8), ("snappy", 30)]
    if tier != "quick":
        combos += [("null", 3), ("null", 1000), ("zstandard", 8), ("bzip2", 30), ("xz", 8), ("deflate", 0)]
    cmds = []
    for codec_name, approx in combos:
        for k, seq in enumerate(container.all_op_sequences(alpha, maxlen)):
            if codec_name != "null" and len(seq) == maxlen and k % 3:
                continue        # compressed codecs: a third of the longest sequences
            ops = [json.loads(json.dumps(alpha[c])) for c in seq] + [{"op": ("into_inner", "drop", "into_inner", "drop_panicking")[k % 4]}]
            meta = [[container.T("user.key"), [1, 2, 3]]] if k % 5 == 0 else []
            cmds.append(container.writer_cmd(G, codec_name, approx, ops, meta=meta, cid=len(cmds)))
    # fields presented out of schema order (they go through the pooled side buffers): a fitting value, and values that fail INSIDE an
    # out-of-order field - before it produced a byte (a union no branch of which takes the value) or after (a nested record whose
    # second field does not fit): neither may disturb what follows
    ra = {"s": alpha["s"], "x": alpha["x"]}
    rv = container.item_pres(G, container.item_value(5, "rr", 6))
    rv["fs"] = [rv["fs"][2], rv["fs"][0], rv["fs"][1]]
    ra["R"] = {"op": "serialize", "pres": rv}
    gv = json.loads(json.dumps(rv))
    gv["fs"][0][1] = {"p": "some", "x": {"p": "str", "v": container.T("wrong type")}}
    ra["G"] = {"op": "serialize", "pres": gv}
    for codec_name, approx in [("null", 30), ("deflate", 8)]:
        for k, seq in enumerate(container.all_op_sequences(ra, 3)):
            if not any(c in seq for c in "RG"):
                continue
            ops = [json.loads(json.dumps(ra[c])) for c in seq] + [{"op": "into_inner"} if k % 2 == 0 else {"op": "drop"}]
            cmds.append(container.writer_cmd(G, codec_name, approx, ops, cid=len(cmds)))
    G3 = scopes.flatten(scopes.rec("ns.Outer", [("a", scopes.prim("long")), ("r", scopes.rec("ns.In", [("x", scopes.prim("long")), ("y", scopes.prim("string"))])),
                                                ("z", scopes.arr(scopes.prim("long")))]))["nodes"]

    def v3(a, x, y, zs):
        return {"t": "rec", "es": [{"t": "long", "v": pyavro.limbs(a)}, {"t": "rec", "es": [{"t": "long", "v": pyavro.limbs(x)}, {"t": "str", "v": container.T(y)}]},
                                   {"t": "arr", "es": [{"t": "long", "v": pyavro.limbs(q)} for q in zs]}]}
    s3 = container.item_pres(G3, v3(1, 2, "in order", [7]))
    r3 = container.item_pres(G3, v3(3, -70000, "reordered", [8, 9]))
    r3["fs"] = [r3["fs"][2], r3["fs"][1], r3["fs"][0]]
    g3 = json.loads(json.dumps(r3))                       # r first ... its field y does not fit: x's bytes are already in the side buffer
    g3["fs"] = [g3["fs"][1], g3["fs"][0], g3["fs"][2]]
    g3["fs"][0][1]["fs"][1][1] = {"p": "i64", "v": pyavro.limbs(5)}
    h3 = json.loads(json.dumps(r3))                       # z first: its second element does not fit
    h3["fs"][0][1]["es"][1] = {"p": "str", "v": container.T("no")}
    ra3 = {"s": {"op": "serialize", "pres": s3}, "R": {"op": "serialize", "pres": r3}, "G": {"op": "serialize", "pres": g3}, "H": {"op": "serialize", "pres": h3},
           "x": {"op": "finish"}}
    for codec_name, approx in [("null", 40), ("null", 0), ("deflate", 8)]:
        for k, seq in enumerate(container.all_op_sequences(ra3, 3 if tier == "quick" else 4)):
            if not any(c in seq for c in "GH"):
                continue
            ops = [json.loads(json.dumps(ra3[c])) for c in seq] + [{"op": "into_inner"} if k % 2 == 0 else {"op": "drop"}]
            c = container.writer_cmd(G3, codec_name, approx, ops, cid=len(cmds))
            c["_si"] = 4
            cmds.append(c)
    # zero-byte items: schema "null" and a record without fields (blocks whose payload is empty)
    zschemas = [[{"k": "null", "lt": "none"}], [{"k": "record", "lt": "none", "name": container.T("Empty"), "fields": []}]]
    zalpha = [{"s": {"op": "serialize", "pres": {"p": "unit"}}, "f": {"op": "serialize", "pres": {"p": "i32", "v": [1, 0, 0, 0]}},
               "p": {"op": "push", "bytes": [], "n": 2}, "x": {"op": "finish"}},
              {"s": {"op": "serialize", "pres": {"p": "struct", "name": container.T("Empty"), "fs": []}},
               "f": {"op": "serialize", "pres": {"p": "unit"}}, "p": {"op": "push", "bytes": [], "n": 3}, "x": {"op": "finish"}}]
    for zi, (zg, za) in enumerate(zip(zschemas, zalpha)):
        for codec_name, approx in [("null", 0), ("null", 4), ("deflate", 1)]:
            for k, seq in enumerate(container.all_op_sequences(za, 3)):
                ops = [json.loads(json.dumps(za[c])) for c in seq] + [{"op": "into_inner"} if k % 2 == 0 else {"op": "drop"}]
                c = container.writer_cmd(zg, codec_name, approx, ops, cid=len(cmds))
                c["_si"] = 2 + zi
                cmds.append(c)
    return [G] + zschemas + [G3], cmds


def random_sessions(rng, n, G):
    """C: long random op sequences, all codecs, block sizes around the buffer boundaries"""
    alpha = container.op_alphabet(G)
    cmds = []
    for i in range(n):
        ops = []
        for _ in range(rng.randrange(5, 60)):
            c = rng.random()
            if c < 0.55:
                v = container.item_value(pyavro.rand_int(rng, 64), "y" * rng.choice([0, 1, 5, 40]), rng.choice([None, 7]))
                ops.append({"op": "serialize", "pres": container.item_pres(G, v, rng.choice(["rust", "named"]))})
            elif c < 0.7:
                ops.append(json.loads(json.dumps(alpha[rng.choice(["f", "F"])])))
            elif c < 0.76:
                # Writer::serialize_all: several values in one call, sometimes with one in the middle that does not fit
                ps = [container.item_pres(G, container.item_value(rng.randrange(1000), "s" * rng.randrange(4)), "rust") for _ in range(rng.randrange(0, 4))]
                if rng.random() < 0.3:
                    ps.insert(rng.randrange(len(ps) + 1), alpha[rng.choice(["f", "F"])]["pres"])
                ops.append({"op": "serialize_all", "pres_list": ps})
            elif c < 0.88:
                vs = [container.item_value(rng.randrange(100), "q" * rng.randrange(3)) for _ in range(rng.randrange(0, 4))]
                ops.append({"op": "push", "bytes": [b for v in vs for b in pyavro.encode(G, 1, v)], "n": len(vs)})
            else:
                ops.append({"op": "finish"})
        ops.append({"op": rng.choice(["into_inner", "drop", "drop_panicking"])})
        cmds.append(container.writer_cmd(G, rng.choice(container.CODECS), rng.choice([0, 1, 7, 16, 64, 200, 100000]), ops,
                                         meta=[[container.T(f"k{j}"), [j]] for j in range(rng.randrange(3))], cid=i))
    return cmds


def validate(rep, scope, cmds, what):
    """scope: list of schema graphs; each cmd carries its 1-based scope index in cmd["_si"] (default 1)"""
    if not isinstance(scope[0], list):
        scope = [scope]
    obs, walks = container.run_writer_sessions([{k: v for k, v in c.items() if k != "_si"} for c in cmds])
    events, owner = [], []
    for i, (c, o, w) in enumerate(zip(cmds, obs, walks)):
        if o.get("res") != "ok":
            rep.violation(f"writer session did not return ({o.get('res')})", {"fam": "writer_ops", "cmd": c}, observed=o)
            continue
        evs = container.project_session(c, o, c.get("_si", 1), w)
        events.extend(evs)
        owner.extend([i] * len(evs))
    scope_path = codec.write_scope([{"sid": f"s{j}", "nodes": g} for j, g in enumerate(scope)], "c15-scope")
    # sessions are independent (each starts with w_build): cut chunks at session boundaries
    chunks, idxs = split_sessions(events)

    def rej(gi):
        i = owner[gi]
        ev = events[gi]
        rep.violation(f"{what}: event #{gi} ({ev['ev']} {ev.get('op', '')} res={ev.get('res')}) rejected by Trace_Writer "
                      f"[codec {cmds[i]['codec']}, approx {cmds[i]['approx']}]", {"fam": "writer_ops", "cmd": cmds[i]},
                      expected="ContainerWriterAbs (Trace_Writer.tla)", observed={"event": ev, "steps": obs[i].get("steps")})
    results = common.validate_traces_parallel("Trace_Writer", "Trace_Writer.cfg", chunks, env={"VERIF_SCOPE": scope_path}, timeout=2400)
    for k, res in enumerate(results):
        rest, rest_idx = chunks[k], idxs[k]
        guard = 0
        while not res["accepted"]:
            guard += 1
            if guard > 4:
                break           # enough rejected sessions of this chunk have been reported
            fu = res["first_unmatched"]
            if fu is None or fu < 1 or fu > len(rest):
                raise common.ToolError("Trace_Writer failed without a usable reject index:\n" + res["out"][-2500:])
            # skip to the next session of this chunk
            j = fu
            while j < len(rest) and rest[j]["ev"] != "w_build":
                j += 1
            # the rejected session without the writer's hook state: if it is then accepted, every observable outcome is as specified
            # and only the internal state departs from the model - recorded as a note, not an alarm (no property speaks of it)
            a = fu - 1
            while a > 0 and rest[a]["ev"] != "w_build":
                a -= 1
            bare = [dict(e, hs=[-1]) if e["ev"] == "w_op" else e for e in rest[a:j]]
            if any(e.get("hs", [-1]) != [-1] for e in rest[a:j]) and \
                    common.validate_trace("Trace_Writer", "Trace_Writer.cfg", bare, env={"VERIF_SCOPE": scope_path}, timeout=600)["accepted"]:
                ev_ = rest[fu - 1]
                rep.note(f"{what}: writer hook state {ev_.get('hs')} after {ev_.get('op')} (res={ev_.get('res')}) departs from Trace_Writer!HookOk "
                         f"[codec {cmds[owner[rest_idx[fu - 1]]]['codec']}]; all outcomes are as specified")
            else:
                rej(rest_idx[fu - 1])
            rest, rest_idx = rest[j:], rest_idx[j:]
            if not rest:
                break
            res = common.validate_trace("Trace_Writer", "Trace_Writer.cfg", rest, env={"VERIF_SCOPE": scope_path}, timeout=2400)
    return events, obs, scope_path, len(chunks)


def split_sessions(events):
    target = max(200, len(events) // common.NCPU + 1)
    chunks, idxs, cur, cur_i = [], [], [], []
    for gi, ev in enumerate(events):
        if ev["ev"] == "w_build" and len(cur) >= target:
            chunks.append(cur)
            idxs.append(cur_i)
            cur, cur_i = [], []
        cur.append(ev)
        cur_i.append(gi)
    if cur:
        chunks.append(cur)
        idxs.append(cur_i)
    return chunks, idxs


def run(tier, seed):
    t0 = time.time()
    rep = common.Report(PROP, tier, seed)
    common.build_harness()
    distinct, states = model_check(tier)
    scope, cmds = sessions(tier, seed)
    G = scope[0]
    events, obs, scope_path, ntr = validate(rep, scope, cmds, "enumerated op sequence")
    rng = random.Random(seed)
    rcmds = random_sessions(rng, 60 if tier == "quick" else 600, G)
    revents, robs, _, ntr2 = validate(rep, G, rcmds, "random op sequence")
    # binding: corrupt one block of an accepted session
    for gi, ev in enumerate(events):
        if ev["ev"] == "w_op" and ev["blocks"] and ev["res"] == "ok":
            start = max(j for j in range(gi + 1) if events[j]["ev"] == "w_build")
            good = events[start:gi + 1]
            bad = json.loads(json.dumps(good))
            bad[-1]["blocks"][0]["count"] += 1
            r1 = common.validate_trace("Trace_Writer", "Trace_Writer.cfg", good, env={"VERIF_SCOPE": scope_path})
            r2 = common.validate_trace("Trace_Writer", "Trace_Writer.cfg", bad, env={"VERIF_SCOPE": scope_path})
            if r1["accepted"] and r2["accepted"]:
                raise common.ToolError("Trace_Writer accepted a corrupted block count: the trace specification is vacuous")
            break
    cov = {
        "states": distinct, "transitions": states, "traces_validated_against_impl": ntr + ntr2,
        "evaluations": len(cmds) + len(rcmds), "distinct_nontrivial": len(cmds) + len(rcmds),
        "rule": "model: all op sequences <= MaxOps over {serialize ok (3 sizes), serialize failing, push 1-2 items, finish} for approx_block_size in "
                "{0,1,3,5} with invariants ValidBlocks / PrefixOfAccepted / AllAfterFlush / Quiescent / AssertUnreachable / NothingLostInside, two "
                "model mutants caught. Real writer: every op sequence up to length 4 (5 thorough) over {small, big, failing-at-once, failing-after-bytes, "
                "push 2, finish_block} closed by into_inner or drop, x approx_block_size x codec; the sink is inspected after EVERY call and the whole "
                "session is validated by TLC against ContainerWriterAbs on the real bytes; plus long random sessions over all six codecs.",
        "trace_events": len(events) + len(revents),
        "samples": [cmds[7], {"events": events[:3]}], "exhaustive": True,
    }
    common.write_evidence(PROP, tier, seed, "model_checking", cov,
                          ["oracle = ContainerWriterAbs stated on bytes (Trace_Writer.tla, ContainerFile.tla, SerdeModel.tla)",
                           "block payloads of compressed codecs are de-framed by calling the codec libraries directly",
                           "the sink is reliable in this property (sink faults: C16)",
                           f"harness hooks: {common.build_harness()['hooks']}"], time.time() - t0, rep.n)
    return rep.finish()


def replay(path):
    rec = json.load(open(path))
    cmd = {k: v for k, v in rec["scenario"]["cmd"].items() if k != "_si"}
    G = cmd["schema"]["nodes"]
    obs, walks = container.run_writer_sessions([cmd])
    evs = container.project_session(cmd, obs[0], 1, walks[0])
    scope_path = codec.write_scope([{"sid": "item", "nodes": G}], "c15-replay")
    r = common.validate_trace("Trace_Writer", "Trace_Writer.cfg", evs, env={"VERIF_SCOPE": scope_path})
    print(json.dumps({"steps": obs[0].get("steps"), "accepted": r["accepted"], "first_unmatched": r["first_unmatched"]})[:2000])
    if not r["accepted"]:
        print(f"VIOLATION property={PROP} replay={path}")
        return common.EXIT_VIOLATION
    return common.EXIT_OK

"""C19 - schema construction is total: any text or node graph gives Ok/Err, never a crash."""
import json
import random
import time

from .. import common, schemadoc, schemaev, scopes

PROP = "C19"


def text_cases(rng, tier):
    """near-miss schema documents and JSON of arbitrary shape / depth"""
    out = []
    trees = scopes.schema_trees("quick", random.Random(5))
    base = [schemadoc.render(schemadoc.spell(t, rng), rng, 0) for _, t in trees]
    for t in base:
        out.append(t)
        for _ in range(3 if tier == "quick" else 12):
            b = list(t)
            c = rng.randrange(5)
            i = rng.randrange(len(b))
            if c == 0:
                del b[i]
            elif c == 1:
                b.insert(i, rng.choice(list('{}[]",:0a\\ ')))
            elif c == 2:
                b[i] = rng.choice(list('{}[]",:0a\\'))
            elif c == 3:
                b = b[:i]
            else:
                j = rng.randrange(len(b))
                b[i], b[j] = b[j], b[i]
            out.append("".join(b))
    # forward references (use before definition): spellings with moved definitions, the same name referred to several times in a
    # row before it is defined, and the same never defined at all
    for _, t in trees:
        out.append(schemadoc.render(schemadoc.spell(schemadoc.move_definitions(t, rng), rng), rng, 0))
    fwd = ['{"type":"record","name":"T","fields":[{"name":"a","type":"B"},{"name":"b","type":"B"},{"name":"c","type":%s}]}',
           '{"type":"record","name":"T","fields":[{"name":"a","type":["null","B"]},{"name":"b","type":{"type":"array","items":"B"}},{"name":"c","type":"B"},'
           '{"name":"d","type":{"type":"map","values":"B"}},{"name":"e","type":%s}]}',
           '{"type":"record","name":"ns.T","fields":[{"name":"a","type":"B"},{"name":"b","type":"ns.B"},{"name":"c","type":".ns.B"},{"name":"d","type":"C"},{"name":"e","type":"B"},'
           '{"name":"f","type":%s},{"name":"g","type":{"type":"fixed","name":"C","size":2}}]}']
    for f in fwd:
        out.append(f % '{"type":"enum","name":"B","symbols":["S"]}')
        out.append(f % '"int"')            # B never defined: an error, not a crash
    # every JSON value shape at the positions of a record schema
    shapes = ["null", "true", "1", "1.5", "-0", "1e400", '""', '"x"', "[]", "{}", '[[]]', '{"type":{}}', '{"type":[]}', '{"type":null}', '{"type":1}']
    for sh in shapes:
        out.append(sh)
        out.append('{"type":"record","name":%s,"fields":[]}' % sh)
        out.append('{"type":"record","name":"R","fields":%s}' % sh)
        out.append('{"type":"record","name":"R","fields":[{"name":%s,"type":"int"}]}' % sh)
        out.append('{"type":"record","name":"R","fields":[{"name":"f","type":%s}]}' % sh)
        out.append('{"type":"enum","name":"E","symbols":%s}' % sh)
        out.append('{"type":"fixed","name":"F","size":%s}' % sh)
        out.append('{"type":"array","items":%s}' % sh)
        out.append('{"type":"map","values":%s}' % sh)
        out.append('{"type":"bytes","logicalType":%s}' % sh)
        out.append('{"type":"bytes","logicalType":"decimal","precision":%s,"scale":%s}' % (sh, sh))
        out.append('{"type":%s}' % sh)
        out.append('[%s]' % sh)
    for depth in ([1, 64, 127, 128, 129, 1000] if tier == "quick" else [1, 64, 127, 128, 129, 1000, 100000]):
        out.append('{"type":"array","items":' * depth + '"int"' + "}" * depth)
        out.append("[" * depth + '"int"' + "]" * depth)
        out.append('{"type":"record","name":"R","fields":[{"name":"f","type":' * depth + '"int"' + "}]}" * depth)
    # "diamonds": record R_i has two fields of type R_(i-1) - 45 small records, a few kilobytes of text; a check that walks every PATH through
    # the records instead of every record needs 2^45 steps
    for n in (10, 45):
        recs = ['{"type":"record","name":"R0","fields":[{"name":"x","type":"int"}]}']
        recs += ['{"type":"record","name":"R%d","fields":[{"name":"a","type":"R%d"},{"name":"b","type":"R%d"}]}' % (i, i - 1, i - 1) for i in range(1, n + 1)]
        out.append("[" + ",".join(recs) + "]")
        out.append('{"type":"record","name":"Top","fields":[{"name":"u","type":[' + ",".join(recs) + ']},{"name":"again","type":"R%d"}]}' % n)
    # attributes the library ignores, holding values a lenient first pass skips without looking inside
    for junk in ("[" * 200 + "]" * 200, '{"a":' * 200 + "1" + "}" * 200, "1e999", "-1e999", '"\\ud800"', '"\\udc00\\ud800"', "123456789012345678901234567890", "[1e999]"):
        out.append('{"type":"record","name":"R","fields":[{"name":"f","type":"int","default":%s}]}' % junk)
        out.append('{"type":"record","name":"R","doc":%s,"fields":[{"name":"f","type":"int"}]}' % junk)
        out.append('{"type":"enum","name":"E","symbols":["A"],"custom":%s}' % junk)
    out.append('"' + "n" * (1 << 20) + '"')
    out.append('{"type":"record","name":"' + "N" * (1 << 20) + '","fields":[]}')
    out.append('{"type":"fixed","name":"F","size":18446744073709551615}')
    out.append('{"type":"fixed","name":"F","size":-1}')
    out.append('{"type":"enum","name":"E","symbols":["A","A"]}')
    out.append('{"type":"record","name":"R","fields":[{"name":"a","type":"int"},{"name":"a","type":"int"}]}')
    out.append("﻿\"int\"")
    out.append("")
    return out


def deep_chain(n, kind="array"):
    nodes = []
    for i in range(n):
        if kind == "array":
            nodes.append({"k": "array", "lt": "none", "items": i + 2})
        else:
            nodes.append({"k": "union", "lt": "none", "variants": [i + 2]})
    nodes.append({"k": "int", "lt": "none"})
    return nodes


def run(tier, seed):
    t0 = time.time()
    rep = common.Report(PROP, tier, seed)
    common.build_harness()
    rng = random.Random(seed)
    # ---- A + B: all small node vectors with arbitrary keys; each of freeze / fingerprint / JSON in its own command so that
    #      a crash (stack overflow = the process dies) is attributed to the call that crashed
    r = schemaev.gen_graph_vectors(tier)
    vecs = [(schemaev.fix_nodes(s.get("nodes")), s["st"]) for s in r["scn"]]
    cmds = []
    for i, (nodes, st) in enumerate(vecs):
        for what in ("fp", "json", "freeze"):
            cmds.append(schemaev.build_cmd(nodes, len(cmds), what))
    obs = common.run_harness(cmds, per_cmd_timeout=20, stack_mb=8)
    merged = []
    for i, (nodes, st) in enumerate(vecs):
        o = {"res": "ok"}
        for j, what in enumerate(("fp", "json", "freeze")):
            oo = obs[3 * i + j]
            if oo.get("res") != "ok":
                o = {"res": oo.get("res"), "stderr": f"during {what}: " + str(oo.get("stderr", oo.get("msg", "")))[-200:], "what": what}
                break
            o.update({k: v for k, v in oo.items() if k != "id"})
        merged.append((nodes, o, {"class": st}))
    ntr = schemaev.validate_builds(rep, merged, ["fp", "json"], "node vector (TLC-enumerated)")
    # ---- deep acyclic chains and random larger vectors
    extra = []
    for n in ([10, 200, 1000] if tier == "quick" else [10, 200, 1000, 5000, 20000]):
        for kind in ("array", "union"):
            extra.append(deep_chain(n, kind))
    extra.append(deep_chain(100000, "array"))        # known finding D9 (no depth limit in the schema traversals)
    for _ in range(300 if tier == "quick" else 5000):
        n = rng.randrange(1, 7)
        nodes = []
        for i in range(n):
            k = rng.choice(["long", "array", "map", "union", "record", "enum", "fixed", "bytes"])
            key = lambda: rng.randrange(0, n + 2)  # noqa: E731
            node = {"k": k, "lt": rng.choice(["none", "none", "decimal", "duration", "uuid", "weird"])}
            if node["lt"] == "decimal":
                node.update(prec=rng.randrange(0, 40), scale=rng.randrange(0, 40))
            if k == "array":
                node["items"] = key()
            elif k == "map":
                node["values"] = key()
            elif k == "union":
                node["variants"] = [key() for _ in range(rng.randrange(0, 4))]
            elif k == "record":
                node.update(name=scopes.T(rng.choice(["", "x", ".x", "a.", "a..b", "a.x", f"n{i}"])),
                            fields=[{"n": scopes.T(rng.choice(["f", "g", "", "f", "h"])), "t": key()} for _ in range(rng.randrange(0, 5))])
            elif k == "enum":
                node.update(name=scopes.T(rng.choice(["", "E", "a.E", f"e{i}"])), symbols=[scopes.T(s) for s in rng.choice([[], ["A"], ["A", "A"], ["A", "B"]])])
            elif k == "fixed":
                node.update(name=scopes.T(rng.choice(["F", f"f{i}"])), size=rng.choice([0, 1, 11, 12, 16, 17]))
            nodes.append(node)
        extra.append(nodes)
    # every name of <= 3 characters over {".", "a", a two-byte letter} (and a few longer ones) on a record, an enum and a fixed: dots in every
    # position, empty components, components that end inside a multi-byte character when an index is off by one
    import itertools
    odd_names = ["".join(t) for n_ in (1, 2, 3) for t in itertools.product(".a\u00e9", repeat=n_)] + ["....", ".a.b", ".a.b.", "..a", "a.b.", ".\u00e9.\u00e9", ".a.\U0001F600", "\U0001F600."]
    for nm in odd_names:
        extra.append([{"k": "record", "lt": "none", "name": scopes.T(nm), "fields": [{"n": scopes.T("f"), "t": 2}]}, {"k": "long", "lt": "none"}])
        extra.append([{"k": "enum", "lt": "none", "name": scopes.T(nm), "symbols": [scopes.T("A")]}])
        extra.append([{"k": "fixed", "lt": "none", "name": scopes.T(nm), "size": 2}])
    # records whose schema repeats a field name (they can be built and frozen): using them must stay safe
    for names in (["a", "a", "b", "c"], ["a", "b", "a"], ["x", "x"], ["a", "b", "b", "c", "c"]):
        extra.append([{"k": "record", "lt": "none", "name": scopes.T("Dup"), "fields": [{"n": scopes.T(nm), "t": 2} for nm in names]}, {"k": "long", "lt": "none"}])
    ecmds = []
    for nodes in extra:
        for what in ("fp", "json", "freeze"):
            ecmds.append(schemaev.build_cmd(nodes, len(ecmds), what))
    eobs = common.run_harness(ecmds, per_cmd_timeout=30, stack_mb=8)
    n_crash = 0
    for c, o in zip(ecmds, eobs):
        if o.get("res") != "ok":
            n_crash += 1
            depth = len(c["nodes"])
            rep.violation(f"random / deep node vector ({depth} nodes): {c['what']} did not return: {o.get('res')} (signal {o.get('signal')})",
                          {"fam": "node_vector_free", "nodes": c["nodes"] if depth < 50 else f"chain of {depth}", "what": c["what"], "n_nodes": depth,
                           "shape": "deep_chain" if depth >= 100 else "random"}, expected="Ok or Err", observed={k: v for k, v in o.items() if k != "stderr"})
    # ---- text side
    texts = text_cases(rng, tier)
    tcmds = [{"op": "schema_parse", "id": i, "text": t} for i, t in enumerate(texts)]
    tobs = common.run_harness(tcmds, per_cmd_timeout=60, stack_mb=8)
    for c, o in zip(tcmds, tobs):
        if o.get("res") not in ("ok", "err"):
            rep.violation(f"parsing a text of {len(c['text'])} characters did not return: {o.get('res')}", {"fam": "schema_text", "text": c["text"][:2000], "len": len(c["text"])},
                          expected="Ok or Err", observed={k: v for k, v in o.items() if k != "stderr"})
    by_class = {}
    for _, st in vecs:
        by_class[st] = by_class.get(st, 0) + 1
    cov = {
        "states": r["states"], "transitions": r["states"], "traces_validated_against_impl": ntr,
        "evaluations": len(cmds) + len(ecmds) + len(tcmds), "distinct_nontrivial": len(vecs) + len(extra) + len(texts),
        "rule": "TLC enumerates ALL node vectors of <= 2 (3 thorough) nodes over long/array/map/union(1-2)/enum/record(0-2 fields, 3 namespaces) with keys in "
                "0..len+1 (dangling included) and classifies them (ok / unnamed cycle / dangling / empty; the traversal GraphDesc must terminate); each vector is "
                "fingerprinted, rendered and frozen by the real code in separate commands (a stack overflow kills the process and is recorded), and the answers are "
                "validated by TLC; frozen schemas are probed with Debug, serialization and decoding of short inputs. Plus random vectors with odd names / logical "
                "types, deep acyclic chains, mutated schema texts, every JSON value shape at every attribute, deep nesting, megabyte names.",
        "vectors_by_class": by_class, "random_or_deep_vectors": len(extra), "texts": len(texts),
        "samples": [vecs[len(vecs) // 2][0], texts[3][:200]], "exhaustive": True,
    }
    common.write_evidence(PROP, tier, seed, "model_checking", cov,
                          ["oracle = GraphDesc classification (SchemaDesc.tla); 'never a crash' is observed through the exit status of child processes (8 MiB stack)",
                           "exhaustive = over the stated node-vector space", f"harness hooks: {common.build_harness()['hooks']}"], time.time() - t0, rep.n)
    return rep.finish()


def replay(path):
    rec = json.load(open(path))
    sc = rec["scenario"]
    if sc["fam"] == "schema_text":
        o = common.run_harness([{"op": "schema_parse", "id": 0, "text": sc["text"]}], per_cmd_timeout=60)[0]
        ok = o.get("res") in ("ok", "err")
    elif sc["fam"] == "node_vector_free":
        if isinstance(sc["nodes"], str):
            n = int(sc["nodes"].split()[-1])
            nodes = deep_chain(n - 1)
        else:
            nodes = sc["nodes"]
        o = common.run_harness([schemaev.build_cmd(nodes, 0, sc.get("what", "all"))], per_cmd_timeout=30)[0]
        ok = o.get("res") == "ok"
    else:
        outs = common.run_harness([schemaev.build_cmd(sc["nodes"], j, w) for j, w in enumerate(("fp", "json", "freeze"))], per_cmd_timeout=30, nproc=1)
        ok = all(o.get("res") == "ok" for o in outs)
        o = {"res": "ok"}
        for oo in outs:
            o.update(oo)
        if ok:
            ok = common.validate_trace("Trace_Schema", "Trace_Schema.cfg", [schemaev.build_event(sc["nodes"], o, ["fp", "json"])])["accepted"]
    print(json.dumps({k: v for k, v in o.items() if k not in ("json_nodes", "nodes")})[:1200])
    if not ok:
        print(f"VIOLATION property={PROP} replay={path}")
        return common.EXIT_VIOLATION
    return common.EXIT_OK

"""C08 - the fingerprint is CRC-64-AVRO of the Parsing Canonical Form."""
import json
import random
import time

from .. import common, schemadoc, schemaev, scopes
from . import C07

PROP = "C08"


def run(tier, seed):
    t0 = time.time()
    rep = common.Report(PROP, tier, seed)
    hs = common.build_harness()
    # ---- A: Crc.tla sanity theorems (table-driven = bit-serial on a GF(2) basis, linear table, the Avro spec's example)
    crc = common.run_tlc("MC_Crc", "MC_Crc.cfg", workers=1, timeout=300)
    common.require_tlc_ok(crc, "Crc sanity theorems")
    basis = common.run_tlc("MC_CrcBasis", "MC_CrcBasis.cfg", workers=2, timeout=300)
    common.require_tlc_ok(basis, "MC_CrcBasis")
    # ---- B1: the implementation's table-driven step on the same (state, byte) pairs (hook)
    bcases = basis["scn"]
    n_basis = 0
    if hs["hooks"] == "on":
        obs = common.run_harness([{"op": "rabin", "id": i, "state": c["state"], "bytes": c["bytes"]} for i, c in enumerate(bcases)])
        for c, o in zip(bcases, obs):
            n_basis += 1
            if o.get("res") != "ok" or o.get("state") != c["exp"]:
                rep.violation(f"checksum step ({c['kind']}): state {c['state']} bytes {c['bytes']}: expected {c['exp']}, implementation gives {o.get('state')}",
                              {"fam": "rabin_step", "case": c}, expected=c["exp"], observed=o)
    # ---- B2 / C: fingerprints of parsed documents (all spellings of a schema have the fingerprint of its canonical form)
    rng = random.Random(seed + 8)
    cases = [c for c in C07.make_cases(tier, rng) if c[3] == "valid"]
    cmds = [{"op": "schema_parse", "id": i, "text": c[2]} for i, c in enumerate(cases)]
    obs = common.run_harness(cmds, per_cmd_timeout=30)
    items = []
    for c, o in zip(cases, obs):
        ev = C07.parse_event(c[1], o)
        ev["checks"] = ["fp"]
        items.append((c, o, ev))
        if o.get("res") == "ok" and (o["fp"] != o.get("fp_mut") or o["fp"] != o.get("direct_fp")):
            rep.violation(f"document '{c[0]}': the fingerprints reported by SchemaMut, the frozen Schema and Schema::from_str differ",
                          {"fam": "schema_doc", "text": c[2], "doc": c[1]}, observed={k: o.get(k) for k in ("fp", "fp_mut", "direct_fp")})
    ntr = validate_events(rep, [it[2] for it in items], lambda i: (f"document '{items[i][0][0]}': fingerprint / canonical form rejected by Trace_Schema",
                                                                 {"fam": "schema_doc", "text": items[i][0][2], "doc": items[i][0][1]},
                                                                 {k: items[i][1].get(k) for k in ("res", "fp", "msg")}))
    # ---- built graphs
    r = schemaev.gen_graph_vectors(tier)
    vecs = [schemaev.fix_nodes(s.get("nodes")) for s in r["scn"] if s["st"] == "ok" and s["inRange"] and s["unique"]]
    trees = [scopes.flatten(scopes.random_tree(rng, depth=rng.choice([2, 3, 4])))["nodes"] for _ in range(60 if tier == "quick" else 1500)]
    bobs = common.run_harness([schemaev.build_cmd(n, i) for i, n in enumerate(vecs + trees)], per_cmd_timeout=30)
    ntr += schemaev.validate_builds(rep, [(n, o, {}) for n, o in zip(vecs + trees, bobs)], ["fp"], "built graph: fingerprint")
    # ---- edited graphs: a fingerprint taken BEFORE an edit through nodes_mut() must not be the one reported after it
    ecmds, emeta = [], []
    for c in cases[:: (4 if tier == "quick" else 1)]:
        for edit in ("rename_field", "add_symbol", "swap_fields", "touch"):
            ecmds.append(dict(schemaev.build_cmd([], len(ecmds)), text=c[2], edit=edit, fingerprint_first=True))
            emeta.append((c, edit))
    eobs = common.run_harness(ecmds, per_cmd_timeout=30)
    eitems = [(o.get("nodes_after", []), o, {"text": c[2], "edit": edit, "fingerprint_first": True}) for (c, edit), o in zip(emeta, eobs)]
    ntr += schemaev.validate_builds(rep, eitems, ["fp"], "fingerprint after an edit (one was taken before it)", fam="edited")
    # binding
    for it in items:
        if it[2]["res"] == "ok":
            bad = json.loads(json.dumps(it[2]))
            bad["fp"][7] ^= 128
            if common.validate_trace("Trace_Schema", "Trace_Schema.cfg", [it[2]])["accepted"] and \
               common.validate_trace("Trace_Schema", "Trace_Schema.cfg", [bad])["accepted"]:
                raise common.ToolError("Trace_Schema accepted a corrupted fingerprint: vacuous")
            break
    cov = {
        "states": r["states"] + basis["states"], "transitions": r["states"] + basis["states"], "traces_validated_against_impl": ntr,
        "evaluations": n_basis + len(cases) + len(vecs) + len(trees), "distinct_nontrivial": n_basis + len(cases) + len(vecs) + len(trees),
        "rule": "Crc.tla: table-driven step = bit-serial definition on the 64 one-bit states x byte 0, the zero state x the 8 one-bit bytes, the zero pair, and "
                "GF(2)-linearity of the 256-entry table (=> equality on all 2^64 x 256 pairs), the Avro spec's \"int\" example and FP_TABLE[1]; the same pairs plus "
                "120 mixed ones on the implementation's step through the rabin_update hook. Fingerprints: every valid spelling of every target schema of C07's "
                "scope, all TLC-enumerated well-formed node vectors, random trees: fp = LE(CRC-64-AVRO(Pcf)) and the canonical form text (hook) = Pcf, computed by TLC.",
        "basis_cases": n_basis, "documents": len(cases), "built_graphs": len(vecs) + len(trees),
        "samples": [bcases[0], cases[3][2]], "exhaustive": False,
    }
    common.write_evidence(PROP, tier, seed, "model_checking", cov,
                          ["oracle = Crc.tla + SchemaDesc!Pcf, self-checked; GF(2) linearity argument written in Crc.tla / DESIGN.md",
                           f"harness hooks: {hs['hooks']} (without hooks the basis pairs are not replayed on the implementation's step)"], time.time() - t0, rep.n)
    return rep.finish()


def validate_events(rep, events, describe):
    return validate_events_generic("Trace_Schema", "Trace_Schema.cfg", rep, events, describe)


def validate_events_generic(module, cfg, rep, events, describe):
    idx = list(range(len(events)))
    nch = min(common.NCPU, max(1, len(events) // 40))
    chunks = [events[k::nch] for k in range(nch)]
    cidx = [idx[k::nch] for k in range(nch)]
    results = common.validate_traces_parallel(module, cfg, chunks, timeout=1500)
    for k, res in enumerate(results):
        rest, rest_idx = chunks[k], cidx[k]
        guard = 0
        while not res["accepted"] and guard < 8:
            guard += 1
            fu = res["first_unmatched"]
            if fu is None or fu < 1:
                raise common.ToolError(f"{module} failed without reject index:\n" + res["out"][-2500:])
            what, scenario, observed = describe(rest_idx[fu - 1])
            rep.violation(what, scenario, expected=module + ".tla", observed=observed)
            if rep.n >= 40:            # enough has been reported: the rest of the trace is not searched for further rejections
                break
            rest, rest_idx = rest[fu:], rest_idx[fu:]
            if not rest:
                break
            res = common.validate_trace(module, cfg, rest, timeout=1500)
    return nch


def replay(path):
    rec = json.load(open(path))
    sc = rec["scenario"]
    if sc["fam"] == "rabin_step":
        c = sc["case"]
        o = common.run_harness([{"op": "rabin", "id": 0, "state": c["state"], "bytes": c["bytes"]}])[0]
        ok = o.get("state") == c["exp"]
    elif sc["fam"] == "schema_doc":
        o = common.run_harness([{"op": "schema_parse", "id": 0, "text": sc["text"]}])[0]
        ev = C07.parse_event(sc["doc"], o)
        ev["checks"] = ["fp"]
        ok = common.validate_trace("Trace_Schema", "Trace_Schema.cfg", [ev])["accepted"] and (o.get("res") != "ok" or o["fp"] == o.get("fp_mut") == o.get("direct_fp"))
    else:
        ok = schemaev.replay_build(rec, PROP, ["fp"])
    if not ok:
        print(f"VIOLATION property={PROP} replay={path}")
        return common.EXIT_VIOLATION
    return common.EXIT_OK

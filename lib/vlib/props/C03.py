"""C03 - decoder conformance: every spec-valid encoding (incl. all block layouts) decodes to the defined value;
byte strings that are not an encoding are rejected."""
import json
import os
import random
import time

from .. import codec, common, pyavro, scopes

PROP = "C03"


def _cmds_for(scn, by_sid, tier):
    """commands + expectations for one TLC scenario"""
    out = []
    schema = {"nodes": by_sid[scn["sid"]]["nodes"]}
    rds = codec.readers(tier, len(scn["enc"]))
    encs = [("enc", scn["enc"])] + [("layout", l) for l in scn["lays"]]
    G = schema["nodes"]
    for kind, b in encs:
        for i, rd in enumerate(rds):
            # the natural hints with every reader; the alternative target families rotate over the readers
            for h in (codec.HINTS if (kind == "enc" or i == 0) else ["default"]):
                cmd = {"op": "de", "schema": schema, "bytes": b, "reader": rd}
                if h != "default":
                    cmd["hints"] = h
                if h in ("alt", "alt2"):
                    cmd["shape"] = scn["v"]
                out.append((cmd, {"must": "ok", "value": (scn["anyv"] if h == "any" else scn["v"]), "consumed": len(b)},
                            kind if h == "default" else f"{kind}/{h}"))
    for m in scn["mal"]:
        for rd in rds[:2]:
            out.append(({"op": "de", "schema": schema, "bytes": m, "reader": rd}, {"must": "err"}, "malformed"))
    for cut in range(len(scn["enc"])):
        for rd in rds[:2]:
            out.append(({"op": "de", "schema": schema, "bytes": scn["enc"][:cut], "reader": rd}, {"must": "err"}, "truncated"))
    return out


def judge(exp, obs):
    if exp["must"] == "ok":
        return obs.get("res") == "ok" and obs.get("value") == exp["value"] and obs.get("consumed") == exp["consumed"]
    if exp["must"] == "err":
        return obs.get("res") == "err"
    return obs.get("res") in ("ok", "err")


def run(tier, seed):
    t0 = time.time()
    rep = common.Report(PROP, tier, seed)
    common.build_harness()
    # ---- A + B: TLC enumerates and self-checks, the implementation replays
    r, by_sid = codec.gen_codec_scenarios(tier)
    triples = []
    for scn in r["scn"]:
        triples.extend(_cmds_for(scn, by_sid, tier))
    # dedupe identical commands
    seen, uniq = set(), []
    for c, e, k in triples:
        key = common.stable_id(c)
        if key not in seen:
            seen.add(key)
            c = dict(c, id=key)
            uniq.append((c, e, k))
    obs = common.run_harness([c for c, _, _ in uniq])
    kinds = {}
    for (c, e, k), o in zip(uniq, obs):
        kinds[k] = kinds.get(k, 0) + 1
        if not judge(e, o):
            rep.violation(f"decode of a {k} byte string: expected {e['must']}, observed {o.get('res')}",
                          {"fam": "de_case", "cmd": c}, expected=e, observed=o)
    # ---- C: random schemas / values / layouts and random corruptions, judged by TLC's Dec
    rng = random.Random(seed)
    n_ev = 3000 if tier == "quick" else 40000
    tv = trace_validate_random(rng, n_ev, rep)
    cov = {
        "states": r["states"], "transitions": r["states"],
        "traces_validated_against_impl": tv["traces"],
        "evaluations": len(uniq) + tv["events"],
        "distinct_nontrivial": len(uniq) - kinds.get("truncated", 0) + tv["events_nontrivial"],
        "rule": "TLC enumerates (schema, value) over the scope grammar x boundary values and emits the canonical encoding, "
                "its distinct block-layout variants, single-point malformations and all proper prefixes; each distinct "
                "(schema, bytes, reader) command counts once; truncations are counted as trivial. Random events: distinct by construction (seeded).",
        "replayed_by_kind": kinds,
        "trace_events": tv["events"],
        "samples": [uniq[0][0], uniq[len(uniq) // 2][0]] + tv["samples"],
        "exhaustive": False,
    }
    common.write_evidence(PROP, tier, seed, "model_checking", cov,
                          ["TLC's Dec (AvroBinary.tla) is the oracle; it is checked against its own Enc/Layouts/Mal on every run",
                           "Capture (schema-directed DeserializeSeed) reports faithfully what the deserializer shows it",
                           f"harness hooks: {common.build_harness()['hooks']}"],
                          time.time() - t0, rep.n)
    return rep.finish()


def trace_validate_random(rng, n_events, rep):
    """random (schema, value) -> bytes with random layouts, plus corrupted variants; events recorded from the
    real decoder are validated by Trace_Codec."""
    scope, cmds, metas = [], [], []
    per_schema = 25
    n_schemas = max(1, n_events // per_schema)
    for si in range(n_schemas):
        nodes = pyavro.random_schema(rng, depth=rng.choice([1, 2, 3, 4]))
        scope.append({"sid": f"r{si}", "nodes": nodes})
        for _ in range(per_schema):
            v = pyavro.random_value(rng, nodes, 1, depth=4, size=rng.choice([1, 2, 3, 6]))
            b = pyavro.encode(nodes, 1, v, rng if rng.random() < 0.8 else None)
            mode = rng.random()
            if mode < 0.25 and b:
                # corrupt: flip / insert / delete / truncate
                b = list(b)
                c = rng.randrange(4)
                i = rng.randrange(len(b))
                if c == 0:
                    b[i] = rng.randrange(256)
                elif c == 1:
                    b.insert(i, rng.randrange(256))
                elif c == 2:
                    del b[i]
                else:
                    b = b[:i]
            elif mode < 0.35:
                b = b + [rng.randrange(256) for _ in range(rng.randrange(1, 4))]   # trailing bytes: must be left untouched
            rd = rng.choice([{"kind": "slice"}, {"kind": "chunks", "sched": [1]}, {"kind": "chunks", "sched": [rng.randrange(1, 9)]}, {"kind": "chunks", "sched": []}])
            limits = {"depth": 64, "max_seq": 10000, "max_alloc": 1 << 20}
            cmds.append({"op": "de", "id": len(cmds), "schema": {"nodes": nodes}, "bytes": b, "reader": rd, "limits": limits})
            hint = "default"
            if rng.random() < 0.25:      # a target with an integer hint on decimals (DeView!Shown)
                dm = rng.choice(["u64", "i64", "u128", "i128"])
                cmds[-1]["decimal_mode"] = dm
                hint = "dec_" + dm
            metas.append((si + 1, b, limits, hint))
    # decimals at the boundaries of the integer hints: scale 0 (bytes, fixed 16, big-decimal) and scale 2, every hint
    P, F = scopes.prim, scopes.fixed
    dscope = [P("bytes", lt="decimal", prec=29, scale=0), F("D16", 16, lt="decimal", prec=29, scale=0), P("bytes", lt="big-decimal"),
              P("bytes", lt="decimal", prec=29, scale=2), scopes.arr(scopes.un(scopes.prim("null"), P("bytes", lt="decimal", prec=29, scale=0)))]
    bounds = [0, 1, -1, 255, (1 << 63) - 1, 1 << 63, -(1 << 63), -(1 << 63) - 1, (1 << 64) - 1, 1 << 64, (1 << 64) + 1234, (1 << 95) - 1, -(1 << 95), 1 << 80]
    for t in dscope:
        nodes = scopes.flatten(t)["nodes"]
        scope.append({"sid": f"dec{len(scope)}", "nodes": nodes})
        for x in bounds:
            leaf = nodes[-1] if nodes[0]["k"] == "array" else nodes[0]
            sc = 0 if leaf.get("lt") == "big-decimal" else leaf.get("scale", 0)
            dv = {"t": "dec", "v": pyavro.be16(x), "s": sc}
            v = dv if nodes[0]["k"] != "array" else {"t": "arr", "es": [{"t": "un", "b": 1, "x": dv}, {"t": "un", "b": 0, "x": {"t": "null"}}]}
            b = pyavro.encode(nodes, 1, v)
            for dm in ("u64", "i64", "u128", "i128"):
                for rd in ({"kind": "slice"}, {"kind": "chunks", "sched": [1]}):
                    limits = {"depth": 64, "max_seq": 10000, "max_alloc": 1 << 20}
                    cmds.append({"op": "de", "id": len(cmds), "schema": {"nodes": nodes}, "bytes": b, "reader": rd, "limits": limits, "decimal_mode": dm})
                    metas.append((len(scope), b, limits, "dec_" + dm))
    # `duration` annotating a fixed that is NOT 12 bytes long is not a duration: the fixed keeps its own size (what follows it is read from the
    # right place)
    for fsz in (16, 11, 13):
        t = scopes.rec("ns.HD", [("d", F(f"ns.Dur{fsz}", fsz, lt="duration")), ("after", scopes.prim("long")), ("s", scopes.prim("string"))])
        nodes = scopes.flatten(t)["nodes"]
        scope.append({"sid": f"dur{fsz}", "nodes": nodes})
        v = {"t": "rec", "es": [{"t": "fix", "v": list(range(1, fsz + 1))}, {"t": "long", "v": pyavro.limbs(-77)}, {"t": "str", "v": [111, 107]}]}
        b = pyavro.encode(nodes, 1, v)
        for rd in ({"kind": "slice"}, {"kind": "chunks", "sched": [3]}):
            for hints in ("default", "alt", "any"):
                limits = {"depth": 64, "max_seq": 10000, "max_alloc": 1 << 20}
                c = {"op": "de", "id": len(cmds), "schema": {"nodes": nodes}, "bytes": b, "reader": rd, "limits": limits}
                if hints != "default":
                    c["hints"] = hints
                    if hints == "alt":
                        c["shape"] = v
                cmds.append(c)
                metas.append((len(scope), b, limits, hints))
    # the same decimals in a union of null and two other branches, read as Option<integer> (the expected branch is given to the target)
    mscope = [scopes.un(scopes.prim("null"), P("bytes", lt="decimal", prec=29, scale=0), scopes.prim("string")),
              scopes.un(scopes.prim("long"), F("D16m", 16, lt="decimal", prec=29, scale=0), scopes.prim("null")),
              scopes.un(scopes.prim("null"), P("bytes", lt="big-decimal"), scopes.prim("boolean"), scopes.prim("double"))]
    for t in mscope:
        nodes = scopes.flatten(t)["nodes"]
        scope.append({"sid": f"decm{len(scope)}", "nodes": nodes})
        for x in bounds[:10]:
            dv = {"t": "dec", "v": pyavro.be16(x), "s": 0}
            v = {"t": "un", "b": 1, "x": dv}
            b = pyavro.encode(nodes, 1, v)
            for dm in ("u64", "i64", "u128", "i128"):
                for rd in ({"kind": "slice"}, {"kind": "chunks", "sched": [2]}):
                    limits = {"depth": 64, "max_seq": 10000, "max_alloc": 1 << 20}
                    cmds.append({"op": "de", "id": len(cmds), "schema": {"nodes": nodes}, "bytes": b, "reader": rd, "limits": limits, "decimal_mode": dm,
                                 "hints": "alt", "shape": v})
                    metas.append((len(scope), b, limits, "dec_" + dm))
    obs = common.run_harness(cmds)
    events = []
    for (si, b, lim, hint), o in zip(metas, obs):
        ev = {"ev": "de", "si": si, "bytes": b, "depth": lim["depth"], "maxseq": lim["max_seq"], "maxalloc": -1, "res": o.get("res"), "hints": hint}
        if o.get("res") == "ok":
            ev["value"] = o["value"]
            ev["consumed"] = o["consumed"]
        events.append(ev)
    d = common.workdir(f"c03-trace-{os.getpid()}")
    scope_path = os.path.join(d, "scope.ndjson")
    with open(scope_path, "w") as f:
        for s in scope:
            f.write(json.dumps(s, separators=(",", ":")) + "\n")
    nchunks = min(common.NCPU, max(1, len(events) // 200))
    chunks = [events[k::nchunks] for k in range(nchunks)]
    idxs = [list(range(len(events)))[k::nchunks] for k in range(nchunks)]
    results = common.validate_traces_parallel("Trace_Codec", "Trace_Codec.cfg", chunks, env={"VERIF_SCOPE": scope_path}, timeout=1500)
    for k, res in enumerate(results):
        if res["accepted"]:
            continue
        if res["first_unmatched"] is None or res["first_unmatched"] < 1:
            raise common.ToolError("trace validation failed without a reject index:\n" + res["out"][-2000:])
        gi = idxs[k][res["first_unmatched"] - 1]
        rep.violation(f"trace event rejected by Trace_Codec: decode answered {obs[gi].get('res')}",
                      {"fam": "de_case", "cmd": cmds[gi]}, expected="as Dec (AvroBinary.tla) defines", observed=obs[gi])
        # the remainder of this chunk is re-validated without the rejected event so that it is still checked
        rest = chunks[k][res["first_unmatched"]:]
        rest_idx = idxs[k][res["first_unmatched"]:]
        while rest:
            r2 = common.validate_trace("Trace_Codec", "Trace_Codec.cfg", rest, env={"VERIF_SCOPE": scope_path}, timeout=1500)
            if r2["accepted"]:
                break
            if r2["first_unmatched"] is None or r2["first_unmatched"] < 1:
                raise common.ToolError("trace validation failed without a reject index:\n" + r2["out"][-2000:])
            gi = rest_idx[r2["first_unmatched"] - 1]
            rep.violation(f"trace event rejected by Trace_Codec: decode answered {obs[gi].get('res')}",
                          {"fam": "de_case", "cmd": cmds[gi]}, expected="as Dec (AvroBinary.tla) defines", observed=obs[gi])
            rest, rest_idx = rest[r2["first_unmatched"]:], rest_idx[r2["first_unmatched"]:]
    # liveness of the binding: a corrupted event must be rejected
    bind_check(events, scope_path)
    ok_events = sum(1 for e in events if e["res"] == "ok")
    return {"traces": nchunks, "events": len(events), "events_nontrivial": ok_events,
            "samples": [events[0], events[len(events) // 3]]}


def bind_check(events, scope_path):
    """corrupt one recorded field of one accepted 'ok' event: the trace spec must reject it, otherwise the
    trace specification is vacuous (tool error, never a verdict)."""
    for e in events:
        if e["res"] == "ok" and e["consumed"] > 0:
            bad = dict(e, consumed=e["consumed"] + 1)
            r = common.validate_trace("Trace_Codec", "Trace_Codec.cfg", [bad], env={"VERIF_SCOPE": scope_path}, timeout=300)
            if r["accepted"]:
                raise common.ToolError("Trace_Codec accepted a corrupted event: the trace specification is vacuous")
            return
    raise common.ToolError("no ok event to run the binding check on")


def replay(path):
    rec = json.load(open(path))
    cmd = rec["scenario"]["cmd"]
    obs = common.run_harness([cmd])[0]
    print(json.dumps({"expected": rec.get("expected"), "observed_now": obs}, indent=1))
    exp = rec.get("expected")
    if isinstance(exp, dict) and "must" in exp:
        ok = judge(exp, obs)
    else:
        ok = obs == rec.get("observed") and False
    if not ok:
        print(f"VIOLATION property={PROP} replay={path}")
        return common.EXIT_VIOLATION
    return common.EXIT_OK

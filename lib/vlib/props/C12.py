"""C12 - skipping a value consumes exactly the bytes that reading it would."""
import json
import random
import time

from .. import codec, common, pyavro

PROP = "C12"
IGN = {"t": "ignored"}


def paths_of(G, key, v, depth=2):
    """paths (as Capture addresses them) of the sub-trees of v, down to `depth` levels; [] is the whole value"""
    out = [[]]
    if depth == 0:
        return out
    n = G[key - 1]
    t = v["t"]
    if t == "rec":
        for i, (f, x) in enumerate(zip(n["fields"], v["es"])):
            out += [[i] + p for p in paths_of(G, f["t"], x, depth - 1)]
    elif t == "arr" and v["es"]:
        # step 0 addresses every element: take the sub-paths all elements have in common (those of the first)
        subs = paths_of(G, n["items"], v["es"][0], depth - 1)
        out += [[0] + p for p in subs if all(_has_path(G, n["items"], e, p) for e in v["es"])]
    elif t == "map" and v["kv"]:
        subs = paths_of(G, n["values"], v["kv"][0][1], depth - 1)
        out += [[0] + p for p in subs if all(_has_path(G, n["values"], e[1], p) for e in v["kv"])]
    elif t == "un":
        out += [[v["b"]] + p for p in paths_of(G, n["variants"][v["b"]], v["x"], depth - 1)]
    return out


def _has_path(G, key, v, path):
    if not path:
        return True
    n = G[key - 1]
    t = v["t"]
    s = path[0]
    if t == "rec":
        return s < len(v["es"]) and _has_path(G, n["fields"][s]["t"], v["es"][s], path[1:])
    if t == "arr":
        return s == 0 and all(_has_path(G, n["items"], e, path[1:]) for e in v["es"])
    if t == "map":
        return s == 0 and all(_has_path(G, n["values"], e[1], path[1:]) for e in v["kv"])
    if t == "un":
        return s == v["b"] and _has_path(G, n["variants"][v["b"]], v["x"], path[1:])
    return False


def blank(G, key, v, path):
    """v with the sub-tree at `path` replaced by the ignored marker"""
    if not path:
        return IGN
    n = G[key - 1]
    t = v["t"]
    s = path[0]
    if t == "rec":
        return {"t": "rec", "es": [blank(G, f["t"], x, path[1:]) if i == s else x
                                   for i, (f, x) in enumerate(zip(n["fields"], v["es"]))]}
    if t == "arr":
        return {"t": "arr", "es": [blank(G, n["items"], x, path[1:]) for x in v["es"]]}
    if t == "map":
        return {"t": "map", "kv": [[k, blank(G, n["values"], x, path[1:])] for k, x in v["kv"]]}
    if t == "un":
        return {"t": "un", "b": v["b"], "x": blank(G, n["variants"][v["b"]], v["x"], path[1:])}
    raise ValueError(t)


def judge(exp, obs):
    return obs.get("res") == "ok" and obs.get("value") == exp["value"] and obs.get("consumed") == exp["consumed"]


def run(tier, seed):
    t0 = time.time()
    rep = common.Report(PROP, tier, seed)
    common.build_harness()
    r, by_sid = codec.gen_codec_scenarios(tier)
    # (refills of decreasing size too: a jump over a byte-sized block that spans several refills must count each refill for what it holds)
    rds = codec.readers(tier, 0) + [{"kind": "chunks", "sched": [6, 2]}, {"kind": "chunks", "sched": [5, 3, 1]}]
    cmds, exps = [], []
    k = 0
    sentinel = [2, 4, 6]
    for scn in r["scn"]:
        G = by_sid[scn["sid"]]["nodes"]
        schema = {"nodes": G}
        encs = [scn["enc"]] + scn["lays"]
        for path in paths_of(G, 1, scn["v"], 2):
            want = blank(G, 1, scn["v"], path)
            for b in encs:
                rd = rds[k % len(rds)]
                k += 1
                cmds.append({"op": "de", "id": len(cmds), "schema": schema, "bytes": b + sentinel, "reader": rd, "ignore": [path]})
                exps.append({"value": want, "consumed": len(b)})
    obs = common.run_harness(cmds)
    for c, e, o in zip(cmds, exps, obs):
        if not judge(e, o):
            rep.violation(f"ignoring the sub-tree at {c['ignore'][0]}: expected the rest unchanged and {e['consumed']} bytes consumed, "
                          f"observed {o.get('res')} / consumed {o.get('consumed')}", {"fam": "de_ignore", "cmd": c}, expected=e, observed=o)
    # ---- C: random values with random layouts, a random sub-tree ignored; judged against TLC's Dec through Trace_Skip
    rng = random.Random(seed)
    tv = random_skips(rng, 2000 if tier == "quick" else 25000, rep)
    cov = {
        "states": r["states"], "transitions": r["states"],
        "traces_validated_against_impl": tv["traces"],
        "evaluations": len(cmds) + tv["events"], "distinct_nontrivial": len(cmds) + tv["events"],
        "rule": "for every TLC-enumerated (schema, value), every encoding layout variant and every sub-tree path up to two levels deep "
                "(record field, all array elements, all map values, union branch as unit variant, the whole datum): decode with that sub-tree "
                "ignored, followed by sentinel bytes; TLC has checked on the same cases that the implementation-shaped Skip (AvroSkip.tla) "
                "ends where Dec ends. Random events: random schema/value/layout/path, validated by TLC (Trace_Skip).",
        "trace_events": tv["events"],
        "samples": [cmds[0], cmds[len(cmds) // 2]] + tv["samples"], "exhaustive": False,
    }
    common.write_evidence(PROP, tier, seed, "model_checking", cov,
                          ["oracle = AvroBinary.tla Dec; AvroSkip.tla is checked against it by TLC on every run",
                           "IgnoredAny seeds / unit_variant access are what 'a target that ignores part of the data' uses",
                           f"harness hooks: {common.build_harness()['hooks']}"], time.time() - t0, rep.n)
    return rep.finish()


def random_skips(rng, n_events, rep):
    scope, cmds, sis, paths = [], [], [], []
    per_schema = 20
    for si in range(max(1, n_events // per_schema)):
        nodes = pyavro.random_schema(rng, depth=rng.choice([2, 3, 4]))
        scope.append({"sid": f"r{si}", "nodes": nodes})
        for _ in range(per_schema):
            v = pyavro.random_value(rng, nodes, 1, depth=4, size=rng.choice([1, 2, 4]))
            b = pyavro.encode(nodes, 1, v, rng)
            path = rng.choice(paths_of(nodes, 1, v, 3))
            rd = rng.choice([{"kind": "slice"}, {"kind": "chunks", "sched": [1]}, {"kind": "chunks", "sched": [rng.randrange(1, 9)]},
                             # refills of decreasing / varying size (a skip that spans several refills must count each one for what it is)
                             {"kind": "chunks", "sched": sorted((rng.randrange(1, 12) for _ in range(rng.randrange(2, 5))), reverse=True)},
                             {"kind": "chunks", "sched": [rng.randrange(1, 12) for _ in range(rng.randrange(2, 6))]}])
            cmds.append({"op": "de", "id": len(cmds), "schema": {"nodes": nodes}, "bytes": b + [7, 7], "reader": rd, "ignore": [path],
                         "limits": {"depth": 64, "max_seq": 100000}})
            sis.append(si + 1)
            paths.append(path)
    obs = common.run_harness(cmds)
    events = []
    for si, c, o, p in zip(sis, cmds, obs, paths):
        ev = {"ev": "skip", "si": si, "bytes": c["bytes"], "path": p, "res": o.get("res")}
        if o.get("res") == "ok":
            ev["value"] = o["value"]
            ev["consumed"] = o["consumed"]
        events.append(ev)
    scope_path = codec.write_scope(scope, "c12-rscope")

    def rej(i):
        rep.violation(f"skip event rejected by Trace_Skip (res={obs[i].get('res')})", {"fam": "de_ignore", "cmd": cmds[i]},
                      expected="value = Dec's value with the sub-tree blanked; consumed = Dec's end (Trace_Skip.tla)", observed=obs[i])
    traces = codec.validate_events("Trace_Skip", "Trace_Skip.cfg", events, scope_path, rej)
    codec.binding_check_some("Trace_Skip", "Trace_Skip.cfg", (ev for ev in events if ev["res"] == "ok"), lambda e: dict(e, consumed=e["consumed"] + 1), scope_path)
    return {"traces": traces, "events": len(events), "samples": [events[0]]}


def replay(path):
    rec = json.load(open(path))
    cmd = rec["scenario"]["cmd"]
    o = common.run_harness([cmd])[0]
    print(json.dumps({"expected": rec.get("expected"), "observed_now": o})[:3000])
    exp = rec.get("expected")
    if isinstance(exp, dict):
        ok = judge(exp, o)
    else:
        scope_path = codec.write_scope([{"sid": "x", "nodes": cmd["schema"]["nodes"]}], "c12-replay")
        ev = {"ev": "skip", "si": 1, "bytes": cmd["bytes"], "path": cmd["ignore"][0], "res": o.get("res")}
        if o.get("res") == "ok":
            ev["value"], ev["consumed"] = o["value"], o["consumed"]
        ok = common.validate_trace("Trace_Skip", "Trace_Skip.cfg", [ev], env={"VERIF_SCOPE": scope_path})["accepted"]
    if not ok:
        print(f"VIOLATION property={PROP} replay={path}")
        return common.EXIT_VIOLATION
    return common.EXIT_OK

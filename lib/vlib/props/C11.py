"""C11 - slice and streamed input decode identically, however the stream is chunked."""
import itertools
import json
import random
import time

from .. import codec, common, container, pyavro, scopes

PROP = "C11"
THOROUGH_SEEDS = 2        # seeds per thorough run (bin/check)


def compositions(n):
    """all compositions of n (ordered partitions into positive parts)"""
    if n == 0:
        yield []
        return
    for mask in range(1 << (n - 1)):
        parts, cur = [], 1
        for i in range(n - 1):
            if mask >> i & 1:
                parts.append(cur)
                cur = 1
            else:
                cur += 1
        parts.append(cur)
        yield parts


def partitions_for(n, rng, tier):
    if n <= (8 if tier == "quick" else 10):
        return list(compositions(n))
    ps = [[k] for k in range(1, min(n, 64) + 1)]
    for _ in range(16 if tier == "quick" else 64):
        p, left = [], n
        while left > 0:
            k = rng.randrange(1, min(left, 9) + 1)
            p.append(k)
            left -= k
        ps.append(p)
    return ps


def same_outcome(a, b):
    """slice observation vs reader observation"""
    if a.get("res") not in ("ok", "err") or b.get("res") not in ("ok", "err"):
        return False
    if a["res"] != b["res"]:
        return False
    if a["res"] == "ok":
        return a.get("value") == b.get("value") and a.get("consumed") == b.get("consumed")
    return True


def run(tier, seed):
    t0 = time.time()
    rep = common.Report(PROP, tier, seed)
    common.build_harness()
    rng = random.Random(seed)
    # ---- A: primitives (varint fast path / byte-wise fallback, read_slice) x all strings x all first refills
    mc = common.run_tlc("MC_BufRead", "MC_BufRead_fixed.cfg", workers=8, timeout=900, xmx="4g")
    common.require_tlc_ok(mc, "MC_BufRead (buffered reader primitives agree with the slice reader)")
    asf = common.run_tlc("MC_BufRead", "MC_BufRead_asfound.cfg", workers=4, timeout=600)
    if "Invariant Agree is violated" not in asf["out"]:
        raise common.ToolError("MC_BufRead: the 5-byte fallback cap is not rejected by the model: invariant vacuous")
    # ---- B1: hostile varints on int / long / string / array nodes, every first refill, real code
    cmds = []
    alphabet = [0, 1, 2, 127, 128, 129, 255]
    schemas = {"int": [{"k": "int", "lt": "none"}], "long": [{"k": "long", "lt": "none"}], "string": [{"k": "string", "lt": "none"}],
               "arr": scopes.flatten(scopes.arr(scopes.prim("null")))["nodes"], "enum": scopes.flatten(scopes.enum("E", ["A", "B", "C"]))["nodes"],
               "opt": scopes.flatten(scopes.un(scopes.prim("null"), scopes.prim("int")))["nodes"]}
    strings = []
    for n in range(1, 8 if tier == "quick" else 9):
        pool = list(itertools.product([0, 1, 128, 130, 255], repeat=n)) if n <= 4 else None
        if pool is None:
            pool = [tuple([rng.choice([128, 129, 255])] * 0 + [rng.choice(alphabet) for _ in range(n)]) for _ in range(120)]
            pool += [tuple([128] * (n - 1) + [last]) for last in (0, 1, 2, 127)]
            pool += [tuple([255] * (n - 1) + [last]) for last in (0, 1, 15, 127)]
        strings.extend(pool)
    for name, G in schemas.items():
        for s in strings:
            b = list(s) + [7, 7]      # followed by data that must be left untouched
            base = {"op": "de", "schema": {"nodes": G}, "bytes": b, "limits": {"depth": 8, "max_seq": 50, "max_alloc": 1 << 20}}
            cmds.append(dict(base, id=len(cmds), reader={"kind": "slice"}, _grp=(name, s)))
            for k in sorted({1, 2, 3, len(s), len(b)}):
                cmds.append(dict(base, id=len(cmds), reader={"kind": "chunks", "sched": [k, 1]}, _grp=(name, s)))
            if name in ("int", "long"):     # the skipping paths read ints as unsigned varints
                cmds.append(dict(base, id=len(cmds), reader={"kind": "slice"}, ignore=[[]], _grp=(name + "/ignored", s)))
                for k in (1, 2, len(s)):
                    cmds.append(dict(base, id=len(cmds), reader={"kind": "chunks", "sched": [k, 1]}, ignore=[[]], _grp=(name + "/ignored", s)))
    # ---- B2: codec corpus (valid encodings, layouts, malformations) x partitions
    r, by_sid = codec.gen_codec_scenarios(tier)
    scn_list = r["scn"]
    rng.shuffle(scn_list)
    budget = 60000 if tier == "quick" else 600000
    for scn in scn_list:
        if len(cmds) > budget:
            break
        G = by_sid[scn["sid"]]["nodes"]
        # (every byte string followed by a stray byte - the datum must not consume it - and the valid encoding also as the very end of the input)
        for b, tail in [(scn["enc"], [9]), (scn["enc"], [])] + [(x, [9]) for x in scn["lays"][:2] + scn["mal"][:2]]:
            bb = b + tail
            if len(bb) > 40 or not bb:
                continue
            base = {"op": "de", "schema": {"nodes": G}, "bytes": bb}
            if len(cmds) % 5 == 4:
                base["ignore"] = [[]]          # a target that ignores the whole value (blocks with a byte size are then jumped over)
            cmds.append(dict(base, id=len(cmds), reader={"kind": "slice"}, _grp=(scn["sid"], tuple(bb), len(tail), "ignore" in base)))
            parts = partitions_for(len(bb), rng, tier)
            if len(parts) > 24:
                parts = rng.sample(parts, 24)
            for p in parts:
                cmds.append(dict(base, id=len(cmds), reader={"kind": "chunks", "sched": p}, _grp=(scn["sid"], tuple(bb), len(tail), "ignore" in base)))
    send = [{k: v for k, v in c.items() if k != "_grp"} for c in cmds]
    obs = common.run_harness(send)
    groups = {}
    for c, o in zip(cmds, obs):
        groups.setdefault(c["_grp"], []).append((c, o))
    n_groups = 0
    for grp, members in groups.items():
        ref = [m for m in members if m[0]["reader"]["kind"] == "slice"]
        if not ref:
            continue
        n_groups += 1
        rc, ro = ref[0]
        for c, o in members:
            if c is rc:
                continue
            if not same_outcome(ro, o):
                rep.violation(f"schema {grp[0]}, bytes {list(grp[1])[:12]}: slice gives {ro.get('res')}/{ro.get('consumed')}, "
                              f"reader with refills {c['reader'].get('sched')} gives {o.get('res')}/{o.get('consumed')} {o.get('msg', '')[:80]}",
                              {"fam": "slice_vs_reader", "slice_cmd": {k: v for k, v in rc.items() if k != "_grp"}, "cmd": {k: v for k, v in c.items() if k != "_grp"},
                               "schema_kind": grp[0].split("/")[0]},
                              expected=ro, observed=o)
    # ---- C1: single-object input
    so = single_object_cases(rng, tier, rep)
    # ---- C2: container files, every codec: chunked reader == slice reader for intact files (and files followed by garbage)
    cf = container_cases(rng, tier, rep)
    cov = {
        "states": mc["distinct"], "transitions": mc["states"], "traces_validated_against_impl": 0,
        "evaluations": len(cmds) + so + cf, "distinct_nontrivial": n_groups + so + cf,
        "rule": "model: every byte string over {00,01,02,7F,80,81,FF} of length <= 5 x every first-refill length x {i32,i64,u32,u64} varints and read_slice(n): "
                "buffered reader = slice reader (the as-found 5-byte fallback cap is rejected). Real code: hostile varint strings on int/long/string/array/enum/"
                "union nodes (also through the skipping paths) and the codec corpus (valid encodings, layouts, malformations, followed by a sentinel byte) under "
                "ALL compositions of the byte string into refills for lengths <= 8 (10 thorough), uniform and random irregular refills beyond; single-object input; "
                "container files of all six codecs under every uniform refill size and random refills. distinct_nontrivial = (schema, bytes) groups compared.",
        "groups": n_groups, "single_object_cases": so, "container_cases": cf,
        "samples": [send[1], send[len(send) // 2]], "exhaustive": False,
    }
    common.write_evidence(PROP, tier, seed, "model_checking", cov,
                          ["the oracle is equality of the two real readers' outcomes (value, consumed bytes, or error in both); the TLA+ model states why they must agree",
                           f"harness hooks: {common.build_harness()['hooks']}"], time.time() - t0, rep.n)
    return rep.finish()


def single_object_cases(rng, tier, rep):
    G = container.item_schema()
    vals = [container.item_value(1, ""), container.item_value(-70000, "héllo", 5)]
    # (and datums of zero bytes: the message is the 10-byte header alone)
    GZ = [{"k": "null", "lt": "none"}]
    GE = [{"k": "record", "lt": "none", "name": container.T("Empty"), "fields": []}]
    items = [(G, container.item_pres(G, v)) for v in vals] + [(GZ, {"p": "unit"}), (GE, {"p": "struct", "name": container.T("Empty"), "fs": []})]
    cmds = [{"op": "so_ser", "id": i, "schema": {"nodes": g}, "pres": pr} for i, (g, pr) in enumerate(items)]
    sers = common.run_harness(cmds)
    de = []
    for (g, _), s in zip(items, sers):
        if s.get("res") != "ok":
            raise common.ToolError("single-object serialization failed: " + json.dumps(s)[:300])
        b = s["bytes"]
        variants = [b, b + [1, 2], b[:5], b[:10], b[:11], [b[0] ^ 1] + b[1:], b[:4] + [b[4] ^ 255] + b[5:]]
        for vb in variants:
            grp = len(de)
            de.append(({"op": "so_de", "schema": {"nodes": g}, "bytes": vb, "reader": {"kind": "slice"}}, grp, True))
            for p in partitions_for(len(vb), rng, tier)[:40] if len(vb) > 10 else list(compositions(len(vb)))[:64]:
                de.append(({"op": "so_de", "schema": {"nodes": g}, "bytes": vb, "reader": {"kind": "chunks", "sched": p}}, grp, False))
    obs = common.run_harness([dict(c, id=i) for i, (c, _, _) in enumerate(de)])
    ref = {}
    for (c, grp, is_ref), o in zip(de, obs):
        if is_ref:
            ref[grp] = o
    for (c, grp, is_ref), o in zip(de, obs):
        if is_ref:
            continue
        a = ref[grp]
        ok = a.get("res") in ("ok", "err") and a.get("res") == o.get("res") and (a["res"] != "ok" or a.get("value") == o.get("value"))
        if ok and o.get("res") == "ok":
            # consumed: the header plus exactly the datum - the slice API does not report it, the datum-level comparison does
            pass
        if not ok:
            rep.violation(f"single-object input, refills {c['reader'].get('sched')}: slice gives {a.get('res')}, reader gives {o.get('res')}",
                          {"fam": "so_slice_vs_reader", "cmd": c}, expected=a, observed=o)
    return len(de)


def container_cases(rng, tier, rep):
    G = container.item_schema()
    ops = []
    for i in range(7):
        ops.append({"op": "serialize", "pres": container.item_pres(G, container.item_value(i * 1000 - 3000, "s" * (i % 4), None if i % 2 else i))})
        if i in (2, 3):
            ops.append({"op": "finish"})
    ops.append({"op": "into_inner"})
    wcmds = [container.writer_cmd(G, cd, 10 ** 6, ops, cid=i) for i, cd in enumerate(container.CODECS)]
    wobs = common.run_harness(wcmds)
    rc, meta = [], []
    for c, o in zip(wcmds, wobs):
        if o.get("res") != "ok":
            raise common.ToolError("could not write the reference container file")
        for suffix in ([], [0]):
            data = o["sink"] + suffix
            grp = len(meta)
            rc.append({"op": "reader", "bytes": data, "reader": {"kind": "slice"}, "calls": 11})
            meta.append((c["codec"], grp, True, suffix))
            sizes = list(range(1, min(len(data), 200 if tier != "quick" else 48) + 1))
            for k in sizes:
                rc.append({"op": "reader", "bytes": data, "reader": {"kind": "chunks", "sched": [k]}, "calls": 11})
                meta.append((c["codec"], grp, False, suffix))
            for _ in range(8 if tier == "quick" else 40):
                rc.append({"op": "reader", "bytes": data, "reader": {"kind": "chunks", "sched": [rng.randrange(1, 12) for _ in range(40)]}, "calls": 11})
                meta.append((c["codec"], grp, False, suffix))
            for cap in (1, 2, 3, 5, 16, 100):
                rc.append({"op": "reader", "bytes": data, "reader": {"kind": "bufreader", "cap": cap}, "calls": 11})
                meta.append((c["codec"], grp, False, suffix))
    obs = common.run_harness([dict(c, id=i) for i, c in enumerate(rc)], per_cmd_timeout=60)

    def proj(o):
        return (o.get("init"), [(r["r"], json.dumps(r.get("value"), sort_keys=True) if r["r"] == "some" else None) for r in o.get("results", [])])
    ref = {}
    for m, o in zip(meta, obs):
        if m[2]:
            ref[m[1]] = o
    for c, m, o in zip(rc, meta, obs):
        if m[2]:
            continue
        a = ref[m[1]]
        if proj(a) != proj(o):
            rep.violation(f"{m[0]} container file{' followed by a stray byte' if m[3] else ''}: reader {c['reader']} gives "
                          f"{[(r['r'], r.get('msg', '')[:40]) for r in o.get('results', [])][:9]} but the slice reader gives {[r['r'] for r in a.get('results', [])][:9]}",
                          {"fam": "container_slice_vs_reader", "cmd": c, "codec": m[0]}, expected=proj(a), observed=o.get("results"))
    return len(rc)


def replay(path):
    rec = json.load(open(path))
    sc = rec["scenario"]
    if sc["fam"] == "slice_vs_reader":
        a, b = common.run_harness([dict(sc["slice_cmd"], id=0), dict(sc["cmd"], id=1)], nproc=1)
        ok = same_outcome(a, b)
    elif sc["fam"] == "container_slice_vs_reader":
        c = sc["cmd"]
        a, b = common.run_harness([dict(c, id=0, reader={"kind": "slice"}), dict(c, id=1)], nproc=1)
        ok = ([(r["r"], r.get("value")) for r in a.get("results", [])] == [(r["r"], r.get("value")) for r in b.get("results", [])]
              and a.get("init") == b.get("init"))
    else:
        c = sc["cmd"]
        a, b = common.run_harness([dict(c, id=0, reader={"kind": "slice"}), dict(c, id=1)], nproc=1)
        ok = a.get("res") == b.get("res") and (a.get("res") != "ok" or a.get("value") == b.get("value"))
    print(json.dumps({"slice": a, "reader": b})[:2000])
    if not ok:
        print(f"VIOLATION property={PROP} replay={path}")
        return common.EXIT_VIOLATION
    return common.EXIT_OK

"""C06 - container files follow the Avro file layout and interoperate with other tools."""
import json
import random
import time

from .. import codec, common, container, pyavro
from . import C05, C15

PROP = "C06"
CODEC_NAMES = ["null", "deflate", "snappy", "bzip2", "xz", "zstandard"]


def run(tier, seed):
    t0 = time.time()
    rep = common.Report(PROP, tier, seed)
    hs = common.build_harness()
    rng = random.Random(seed + 6)
    # ---- reader side: files written by the specification (BuildFile), every plan
    r = common.run_tlc_sharded("MC_FilePlans", "MC_FilePlans.cfg", 12, timeout=1500, xmx="2g")
    common.require_tlc_ok(r, "MC_FilePlans (ParseFile o BuildFile = id; reference files)")
    plans = r["scn"]
    acmds, aidx = [], []
    files = [None] * len(plans)
    for i, p in enumerate(plans):
        if p["codecIdx"] <= 1:
            files[i] = p["file"]
        else:
            acmds.append({"op": "assemble", "id": len(acmds), "header": p["header"], "sync": p["file"][len(p["header"]) - 16:len(p["header"])],
                          "codec": CODEC_NAMES[p["codecIdx"] - 1], "blocks": [{"count": b["count"], "raw": b["raw"]} for b in p["blocks"]]})
            aidx.append(i)
    for i, o in zip(aidx, common.run_harness(acmds)):
        files[i] = o["bytes"]
    # hand-planned reference files beyond the enumerated plan space (framed by the harness from the codec libraries; header
    # written here from the specification's layout): blocks with more objects than bytes (zero-byte datums; hundreds of
    # zero longs that compress to a few bytes) and block sizes that DEcrease along the file, for every codec
    sync = [(37 * k + 11) % 256 for k in range(16)]

    def header(schema_json, codec_name):
        ents = [(b"avro.schema", schema_json.encode())] + ([(b"avro.codec", codec_name.encode())] if codec_name else [])
        out = [79, 98, 106, 1] + pyavro.enc_long(len(ents))
        for k, v in ents:
            out += pyavro.enc_long(len(k)) + list(k) + pyavro.enc_long(len(v)) + list(v)
        return out + [0] + sync

    LONG = lambda x: {"t": "long", "v": pyavro.limbs(x)}         # noqa: E731
    STR = lambda t: {"t": "str", "v": list(t.encode())}           # noqa: E731
    extra = []      # (what, schema json, values per block, raw bytes per block)
    extra.append(("zero-byte datums (schema null), blocks of 3 and 1 objects with empty payloads", '"null"', [[{"t": "null"}] * 3, [{"t": "null"}]], [[], []]))
    extra.append(("300 zero longs in one block, then 2", '"long"', [[LONG(0)] * 300, [LONG(1), LONG(-1)]], [[0] * 300, [2, 1]]))
    big, small = "x" * 200 + "yz" * 40, "q"
    extra.append(("a 283-byte block followed by a 2-byte block, then a 40-byte one", '"string"', [[STR(big)], [STR(small)], [STR("w" * 19), STR("v" * 19)]],
                  [pyavro.enc_long(len(big)) + list(big.encode()), [2, ord("q")], ([38] + [ord("w")] * 19) + ([38] + [ord("v")] * 19)]))
    n_plans = len(plans)
    for what, sj, vals, raws in extra:
        for ci, cn in enumerate(CODEC_NAMES):
            h = header(sj, cn)
            plans.append({"n": sum(len(b) for b in vals), "values": [v for b in vals for v in b], "user": [], "codecIdx": ci + 1, "blocks": [{"count": len(b)} for b in vals],
                          "extra": what})
            aidx2 = len(plans) - 1
            o = common.run_harness([{"op": "assemble", "id": 0, "header": h, "sync": sync, "codec": cn, "blocks": [{"count": len(b), "raw": r} for b, r in zip(vals, raws)]}])[0]
            if "bytes" not in o:
                raise common.ToolError(f"could not assemble a reference file: {o}")
            files.append(o["bytes"])
            assert len(files) - 1 == aidx2
    readers = [{"kind": "slice"}, {"kind": "chunks", "sched": [1]}, {"kind": "chunks", "sched": []}, {"kind": "bufreader", "cap": 3}]
    rcmds = [{"op": "reader", "id": i, "bytes": files[i], "reader": readers[i % 4], "calls": p["n"] + 2} for i, p in enumerate(plans)]
    for i in range(n_plans, len(plans)):       # the hand-planned files go through every reader kind
        for rd in readers[1:]:
            plans.append(plans[i])
            files.append(files[i])
            rcmds.append({"op": "reader", "id": len(rcmds), "bytes": files[i], "reader": rd, "calls": plans[i]["n"] + 2})
    robs = common.run_harness(rcmds, per_cmd_timeout=30)
    events, owner = [], []
    for i, (p, c, o) in enumerate(zip(plans, rcmds, robs)):
        what = (f"reference file{' (' + p['extra'] + ')' if p.get('extra') else ''}: {p['n']} values in blocks {[b['count'] for b in p['blocks']]}, codec "
                f"{'(no avro.codec entry)' if p['codecIdx'] == 0 else CODEC_NAMES[p['codecIdx'] - 1]}, {len(p['user'])} user keys, reader {c['reader']}")
        scen = {"fam": "reference_file", "cmd": c, "plan": {k: (p[k] if k != "values" else p[k][:12]) for k in ("n", "values", "user", "codecIdx")}, "codec_entry": "absent" if p["codecIdx"] == 0 else "present"}
        if o.get("res") != "ok" or o.get("init") != "ok":
            rep.violation(f"{what}: the reader could not open a conforming file: {o.get('msg', o.get('res'))}", scen, expected="values " + json.dumps(p["values"])[:200], observed=o)
            continue
        got_meta = sorted((bytes(k).decode("utf8", "replace"), v) for k, v in o.get("meta", []))
        want_meta = sorted((bytes(k).decode(), v) for k, v in p["user"])
        if got_meta != want_meta:
            rep.violation(f"{what}: user metadata {got_meta} differs from the file's {want_meta}", scen, expected=want_meta, observed=got_meta)
        events.append(C05.read_event(p["values"], o["results"]))
        owner.append((what, scen, o))
    ntr = validate_reads(rep, events, owner)
    # ---- writer side: real files of all codecs with user metadata, every byte of the header and every block judged by TLC
    G = container.item_schema()
    alpha = container.op_alphabet(G)
    wcmds = []
    for cd in container.CODECS:
        for sq in ["", "s", "sBx", "ppB", "sssssx", "BxBxB"]:
            for approx in (0, 20, 10 ** 6):
                ops = [json.loads(json.dumps(alpha[ch])) for ch in sq] + [{"op": "into_inner"}]
                meta = [[container.T(k), [rng.randrange(256) for _ in range(rng.randrange(0, 5))]] for k in rng.sample(["a", "user.meta", "zz", "avro.x"], rng.randrange(0, 4))]
                wcmds.append(container.writer_cmd(G, cd, approx, ops, meta=meta, cid=len(wcmds), level=rng.choice([None, 1, 9])))
    # the schema reached through a history (parsed from a different text, fingerprint asked, then edited into the wanted graph): the
    # header's avro.schema must be the text of the schema the values are encoded with
    for cd in ("null", "deflate"):
        for sq in ("s", "sBx"):
            ops = [json.loads(json.dumps(alpha[ch])) for ch in sq] + [{"op": "into_inner"}]
            c = container.writer_cmd(G, cd, 20, ops, cid=len(wcmds))
            c["schema"] = dict(c["schema"], via_edit=True)
            wcmds.append(c)
    # the sync marker left to the library (randomly generated): header and every block carry the same one
    for cd in container.CODECS:
        for k in range(2):
            ops = [json.loads(json.dumps(alpha[ch])) for ch in "sBxs"] + [{"op": "into_inner"}]
            c = container.writer_cmd(G, cd, 20, ops, cid=len(wcmds))
            c["random_sync"] = True
            wcmds.append(c)
    # zero-byte datums (schema null, a record without fields): blocks with a count and an empty payload, every codec
    Gnull = [{"k": "null", "lt": "none"}]
    Gempty = [{"k": "record", "lt": "none", "name": container.T("Empty"), "fields": []}]
    for si, (zg, zp) in enumerate(((Gnull, {"p": "unit"}), (Gempty, {"p": "struct", "name": container.T("Empty"), "fs": []})), start=2):
        for cd in container.CODECS:
            for approx in (0, 5):
                for n_items, with_push, with_finish in ((1, False, False), (3, False, True), (2, True, False)):
                    ops = [{"op": "serialize", "pres": zp} for _ in range(n_items)] + ([{"op": "finish"}] if with_finish else []) \
                        + ([{"op": "push", "bytes": [], "n": 2}] if with_push else []) + [{"op": "serialize", "pres": zp}, {"op": "into_inner"}]
                    c = container.writer_cmd(zg, cd, approx, ops, cid=len(wcmds))
                    c["_si"] = si
                    wcmds.append(c)
    wevents, wobs, _, ntw = C15.validate(rep, [G, Gnull, Gempty], wcmds, "layout of a written file")
    rs = [bytes(o["sink"][o["build"]["sink_len"] - 16:o["build"]["sink_len"]]) for c, o in zip(wcmds, wobs)
          if c.get("random_sync") and o.get("res") == "ok" and o.get("build", {}).get("res") == "ok"]
    if len(rs) >= 4 and len(set(rs)) < len(rs) // 2:
        rep.note(f"library-generated sync markers repeat: {len(set(rs))} distinct among {len(rs)} files (the Avro specification asks for a randomly generated marker)")
    cov = {
        "states": r["states"], "transitions": r["states"], "traces_validated_against_impl": ntr + ntw,
        "evaluations": len(plans) + len(wcmds), "distinct_nontrivial": len(plans) + len(wcmds),
        "rule": "reader side: TLC builds every reference file of the plan space (0..3 values x every partition into blocks x avro.codec absent / null / five "
                "compressed codecs (payloads framed by the harness with the codec libraries) x 0..2 user keys x every metadata key order x 7 block layouts of the "
                "metadata map, incl. negative counts with byte sizes), checks ParseFile(BuildFile(plan)) = plan, and the real reader must return the values and the user "
                "metadata. Writer side: real files of all six codecs / levels / block sizes with random user metadata: header bytes (magic, metadata map, avro.schema = "
                "schema JSON, avro.codec = name, user entries, sync), every block (count, size, sync, raw-deflate framing, snappy CRC-32 computed in TLA+) judged by TLC.",
        "reference_files": len(plans), "written_files": len(wcmds),
        "samples": [{k: plans[0][k] for k in ("n", "codecIdx", "file")}, {k: v for k, v in wcmds[3].items() if k != "schema"}], "exhaustive": True,
    }
    common.write_evidence(PROP, tier, seed, "model_checking", cov,
                          ["oracle = ContainerFile.tla (ParseFile / BuildFile), Crc.tla (CRC-32), Trace_Writer / Trace_Reader",
                           "the second implementation is the specification's own writer/parser; apache-avro is not used (see DESIGN.md)",
                           "exhaustive = over the stated plan space", f"harness hooks: {hs['hooks']}"], time.time() - t0, rep.n)
    return rep.finish()


def validate_reads(rep, events, owner):
    if not events:
        return 0
    nch = min(common.NCPU, max(1, len(events) // 200))
    chunks = [events[k::nch] for k in range(nch)]
    idx = [list(range(len(events)))[k::nch] for k in range(nch)]
    results = common.validate_traces_parallel("Trace_Reader", "Trace_Reader.cfg", chunks, timeout=900)
    for k, res in enumerate(results):
        rest, rest_idx = chunks[k], idx[k]
        guard = 0
        while not res["accepted"] and guard < 8:
            guard += 1
            fu = res["first_unmatched"]
            if fu is None or fu < 1:
                raise common.ToolError("Trace_Reader failed without reject index:\n" + res["out"][-2000:])
            what, scen, o = owner[rest_idx[fu - 1]]
            rep.violation(f"{what}: results {[(x['r'], x.get('msg', '')[:60]) for x in o['results']][:6]}", scen,
                          expected="the file's values in order, then end of stream", observed=o["results"])
            rest, rest_idx = rest[fu:], rest_idx[fu:]
            if not rest:
                break
            res = common.validate_trace("Trace_Reader", "Trace_Reader.cfg", rest, timeout=900)
    return nch


def replay(path):
    rec = json.load(open(path))
    sc = rec["scenario"]
    if sc["fam"] == "reference_file":
        o = common.run_harness([dict(sc["cmd"], id=0)])[0]
        print(json.dumps(o)[:1200])
        ok = o.get("res") == "ok" and o.get("init") == "ok"
        if ok:
            ok = common.validate_trace("Trace_Reader", "Trace_Reader.cfg", [C05.read_event(sc["plan"]["values"], o["results"])])["accepted"]
            ok = ok and sorted((bytes(k).decode("utf8", "replace"), v) for k, v in o.get("meta", [])) == sorted((bytes(k).decode(), v) for k, v in sc["plan"]["user"])
    else:
        from . import C15 as c15
        return c15.replay(path)
    if not ok:
        print(f"VIOLATION property={PROP} replay={path}")
        return common.EXIT_VIOLATION
    return common.EXIT_OK

"""C06 - container files follow the Avro file layout and interoperate with other tools."""
import json
import random
import time

from .. import codec, common, container, pyavro
from . import C05, C15

PROP = "C06"
CODEC_NAMES = ["null", "deflate", "snappy", "bzip2", "xz", "zstandard"]


def run(tier, seed):
    t0 = time.time()
    rep = common.Report(PROP, tier, seed)
    hs = common.build_harness()
    rng = random.Random(seed + 6)
    # ---- reader side: files written by the specification (BuildFile), every plan
    r = common.run_tlc_sharded("MC_FilePlans", "MC_FilePlans.cfg", 12, timeout=1500, xmx="2g")
    common.require_tlc_ok(r, "MC_FilePlans (ParseFile o BuildFile = id; reference files)")
    plans = r["scn"]
    acmds, aidx = [], []
    files = [None] * len(plans)
    for i, p in enumerate(plans):
        if p["codecIdx"] <= 1:
            files[i] = p["file"]
        else:
            acmds.append({"op": "assemble", "id": len(acmds), "header": p["header"], "sync": p["file"][len(p["header"]) - 16:len(p["header"])],
                          "codec": CODEC_NAMES[p["codecIdx"] - 1], "blocks": [{"count": b["count"], "raw": b["raw"]} for b in p["blocks"]]})
            aidx.append(i)
    for i, o in zip(aidx, common.run_harness(acmds)):
        files[i] = o["bytes"]
    readers = [{"kind": "slice"}, {"kind": "chunks", "sched": [1]}, {"kind": "chunks", "sched": []}, {"kind": "bufreader", "cap": 3}]
    rcmds = [{"op": "reader", "id": i, "bytes": files[i], "reader": readers[i % 4], "calls": p["n"] + 2} for i, p in enumerate(plans)]
    robs = common.run_harness(rcmds, per_cmd_timeout=30)
    events, owner = [], []
    for i, (p, c, o) in enumerate(zip(plans, rcmds, robs)):
        what = (f"reference file: {p['n']} values in blocks {[b['count'] for b in p['blocks']]}, codec "
                f"{'(no avro.codec entry)' if p['codecIdx'] == 0 else CODEC_NAMES[p['codecIdx'] - 1]}, {len(p['user'])} user keys, reader {c['reader']}")
        scen = {"fam": "reference_file", "cmd": c, "plan": {k: p[k] for k in ("n", "values", "user", "codecIdx")}, "codec_entry": "absent" if p["codecIdx"] == 0 else "present"}
        if o.get("res") != "ok" or o.get("init") != "ok":
            rep.violation(f"{what}: the reader could not open a conforming file: {o.get('msg', o.get('res'))}", scen, expected="values " + json.dumps(p["values"])[:200], observed=o)
            continue
        got_meta = sorted((bytes(k).decode("utf8", "replace"), v) for k, v in o.get("meta", []))
        want_meta = sorted((bytes(k).decode(), v) for k, v in p["user"])
        if got_meta != want_meta:
            rep.violation(f"{what}: user metadata {got_meta} differs from the file's {want_meta}", scen, expected=want_meta, observed=got_meta)
        events.append(C05.read_event(p["values"], o["results"]))
        owner.append((what, scen, o))
    ntr = validate_reads(rep, events, owner)
    # ---- writer side: real files of all codecs with user metadata, every byte of the header and every block judged by TLC
    G = container.item_schema()
    alpha = container.op_alphabet(G)
    wcmds = []
    for cd in container.CODECS:
        for sq in ["", "s", "sBx", "ppB", "sssssx", "BxBxB"]:
            for approx in (0, 20, 10 ** 6):
                ops = [json.loads(json.dumps(alpha[ch])) for ch in sq] + [{"op": "into_inner"}]
                meta = [[container.T(k), [rng.randrange(256) for _ in range(rng.randrange(0, 5))]] for k in rng.sample(["a", "user.meta", "zz", "avro.x"], rng.randrange(0, 4))]
                wcmds.append(container.writer_cmd(G, cd, approx, ops, meta=meta, cid=len(wcmds), level=rng.choice([None, 1, 9])))
    wevents, wobs, _, ntw = C15.validate(rep, G, wcmds, "layout of a written file")
    cov = {
        "states": r["states"], "transitions": r["states"], "traces_validated_against_impl": ntr + ntw,
        "evaluations": len(plans) + len(wcmds), "distinct_nontrivial": len(plans) + len(wcmds),
        "rule": "reader side: TLC builds every reference file of the plan space (0..3 values x every partition into blocks x avro.codec absent / null / five "
                "compressed codecs (payloads framed by the harness with the codec libraries) x 0..2 user keys x every metadata key order x 7 block layouts of the "
                "metadata map, incl. negative counts with byte sizes), checks ParseFile(BuildFile(plan)) = plan, and the real reader must return the values and the user "
                "metadata. Writer side: real files of all six codecs / levels / block sizes with random user metadata: header bytes (magic, metadata map, avro.schema = "
                "schema JSON, avro.codec = name, user entries, sync), every block (count, size, sync, raw-deflate framing, snappy CRC-32 computed in TLA+) judged by TLC.",
        "reference_files": len(plans), "written_files": len(wcmds),
        "samples": [{k: plans[0][k] for k in ("n", "codecIdx", "file")}, {k: v for k, v in wcmds[3].items() if k != "schema"}], "exhaustive": True,
    }
    common.write_evidence(PROP, tier, seed, "model_checking", cov,
                          ["oracle = ContainerFile.tla (ParseFile / BuildFile), Crc.tla (CRC-32), Trace_Writer / Trace_Reader",
                           "the second implementation is the specification's own writer/parser; apache-avro is not used (see DESIGN.md)",
                           "exhaustive = over the stated plan space", f"harness hooks: {hs['hooks']}"], time.time() - t0, rep.n)
    return rep.finish()


def validate_reads(rep, events, owner):
    if not events:
        return 0
    nch = min(common.NCPU, max(1, len(events) // 200))
    chunks = [events[k::nch] for k in range(nch)]
    idx = [list(range(len(events)))[k::nch] for k in range(nch)]
    results = common.validate_traces_parallel("Trace_Reader", "Trace_Reader.cfg", chunks, timeout=900)
    for k, res in enumerate(results):
        rest, rest_idx = chunks[k], idx[k]
        guard = 0
        while not res["accepted"] and guard < 8:
            guard += 1
            fu = res["first_unmatched"]
            if fu is None or fu < 1:
                raise common.ToolError("Trace_Reader failed without reject index:\n" + res["out"][-2000:])
            what, scen, o = owner[rest_idx[fu - 1]]
            rep.violation(f"{what}: results {[(x['r'], x.get('msg', '')[:60]) for x in o['results']][:6]}", scen,
                          expected="the file's values in order, then end of stream", observed=o["results"])
            rest, rest_idx = rest[fu:], rest_idx[fu:]
            if not rest:
                break
            res = common.validate_trace("Trace_Reader", "Trace_Reader.cfg", rest, timeout=900)
    return nch


def replay(path):
    rec = json.load(open(path))
    sc = rec["scenario"]
    if sc["fam"] == "reference_file":
        o = common.run_harness([dict(sc["cmd"], id=0)])[0]
        print(json.dumps(o)[:1200])
        ok = o.get("res") == "ok" and o.get("init") == "ok"
        if ok:
            ok = common.validate_trace("Trace_Reader", "Trace_Reader.cfg", [C05.read_event(sc["plan"]["values"], o["results"])])["accepted"]
            ok = ok and sorted((bytes(k).decode("utf8", "replace"), v) for k, v in o.get("meta", [])) == sorted((bytes(k).decode(), v) for k, v in sc["plan"]["user"])
    else:
        from . import C15 as c15
        return c15.replay(path)
    if not ok:
        print(f"VIOLATION property={PROP} replay={path}")
        return common.EXIT_VIOLATION
    return common.EXIT_OK

"""C18 - single-object encoding: marker + schema fingerprint + datum, verified on read."""
import copy
import json
import random
import time

from .. import codec, common, pyavro, scopes
from . import C08

PROP = "C18"


def variants_of(tree, rng):
    """schemas with a DIFFERENT canonical form but (mostly) the same wire shape: a renamed field, renamed type, other
    namespace, reordered enum symbols, resized fixed - a message written under the original must not decode under them"""
    out = []

    def walk(t, f):
        t = copy.deepcopy(t)

        def rec_(x):
            if "ref" in x:
                return
            f(x)
            for c in (x.get("variants") or []) + ([x["items"]] if "items" in x else []) + ([x["values"]] if "values" in x else []) + \
                    [fl["t"] for fl in x.get("fields", [])]:
                rec_(c)
        rec_(t)
        return t

    def rename_field(x):
        if x.get("k") == "record" and x["fields"]:
            x["fields"][0]["n"] = x["fields"][0]["n"] + "_v2"

    def swap_symbols(x):
        if x.get("k") == "enum" and len(x["symbols"]) > 1:
            x["symbols"] = x["symbols"][::-1]

    def add_field(x):
        if x.get("k") == "record":
            x["fields"].append({"n": "zz_added", "t": scopes.prim("null")})

    out.append(("rename_field", walk(tree, rename_field)))
    out.append(("swap_symbols", walk(tree, swap_symbols)))
    out.append(("add_null_field", walk(tree, add_field)))
    # rename every named type consistently (definitions and references): other fullnames, same structure
    s = json.dumps(tree)
    names = sorted({n for _, n in occurrences_all(tree)}, key=len, reverse=True)
    s2 = s
    for n in names:
        s2 = s2.replace(json.dumps(n), json.dumps("other." + n.rsplit(".", 1)[-1] + "X"))
    out.append(("rename_types", json.loads(s2)))
    return out


def occurrences_all(tree):
    from .. import schemadoc
    return schemadoc.occurrences(tree)


def so_ser_event(nodes, cmd, o):
    ev = {"ev": "so_ser", "nodes": nodes, "pres": cmd["pres"], "res": o.get("res")}
    if o.get("res") == "ok":
        ev["bytes"] = o["bytes"]
    return ev


def so_de_event(nodes, b, o):
    ev = {"ev": "so_de", "nodes": nodes, "bytes": b, "res": o.get("res")}
    if o.get("res") == "ok":
        ev["value"] = o["value"]
        ev["consumed"] = o.get("consumed", -1)
    return ev


def run(tier, seed):
    t0 = time.time()
    rep = common.Report(PROP, tier, seed)
    hs = common.build_harness()
    crc = common.run_tlc("MC_Crc", "MC_Crc.cfg", workers=1, timeout=300)
    common.require_tlc_ok(crc, "Crc sanity theorems")
    # ---- the call-level model of the writer and of the reader's header (SingleObject.tla): all sink / source schedules, three mutants
    so_cfgs = ["MC_SingleObject.cfg" if tier == "quick" else "MC_SingleObject_thorough.cfg", "MC_SingleObject_r.cfg", "MC_SingleObject_p2.cfg", "MC_SingleObject_p3.cfg"]
    so_runs = [common.run_tlc("SingleObject", c, workers=4, timeout=900) for c in so_cfgs]
    for c, r_ in zip(so_cfgs, so_runs):
        common.require_tlc_ok(r_, f"SingleObject model ({c})")
    for m in (1, 2, 3):
        mr = common.run_tlc("SingleObject", f"MC_SingleObject_mut{m}.cfg", workers=2, timeout=300)
        if mr["ok"] or "is violated" not in mr["out"]:
            raise common.ToolError(f"SingleObject mutant {m} not detected: invariants are vacuous")
    so_scn = [x for x in so_runs[0]["scn"] if x.get("side") == "w"]
    rd_scn = {}
    for x in so_runs[1]["scn"]:                  # interruptions change nothing a ChunkedReader can show: one replay per chunking
        if x.get("side") == "r":
            k = (tuple(c for c in x["sched"] if c != 100), x["srcLen"], x["markerOk"], x["fpOk"])
            if rd_scn.setdefault(k, x["res"]) != x["res"]:
                raise common.ToolError(f"SingleObject: the reader's verdict depends on interruptions {k}")
    if len(so_scn) < 100 or len(rd_scn) < 100:
        raise common.ToolError(f"SingleObject emitted only {len(so_scn)} / {len(rd_scn)} behaviours")
    # replay: the model's Parts for PartsId = 1 is one three-byte write_all after the header = a long of three bytes under schema "long"
    Gl = scopes.flatten(scopes.prim("long"))["nodes"]
    vl = {"t": "long", "v": pyavro.limbs(20000)}
    CODE = {0: "zero", 100: "interrupted", 101: "error"}
    rp_cmds = [{"op": "so_ser", "id": i, "schema": {"nodes": Gl}, "pres": codec.canon_pres(Gl, 1, vl, "named"),
                "sink": [CODE.get(x, x) for x in sc["sched"]]} for i, sc in enumerate(so_scn)]
    ref = common.run_harness([{"op": "so_ser", "id": 0, "schema": {"nodes": Gl}, "pres": codec.canon_pres(Gl, 1, vl, "named")}])[0]
    n_replayed = 0
    if ref.get("res") != "ok" or len(ref.get("bytes", [])) != 13:
        rep.violation(f"single-object message of a three-byte long is not 13 bytes: {ref.get('res')} {len(ref.get('bytes', []))}",
                      {"fam": "so_replay", "cmd": rp_cmds[0], "sched": []}, observed=ref)
    else:
        for c, sc, o in zip(rp_cmds, so_scn, common.run_harness(rp_cmds)):
            n_replayed += 1
            want = "ok" if sc["res"] == "run" else sc["res"]            # past the schedule the sink accepts everything
            got = o.get("bytes") if o.get("res") == "ok" else o.get("got")
            if o.get("res") != want:
                rep.violation(f"to_single_object over sink schedule {sc['sched']}: model says {want}, code returned {o.get('res')} {o.get('msg', '')[:80]}",
                              {"fam": "so_replay", "cmd": c, "sched": sc["sched"], "want": want}, observed=o)
            elif got is None or got != ref["bytes"][:len(got)] or (want == "ok" and got != ref["bytes"]):
                rep.violation(f"to_single_object over sink schedule {sc['sched']}: the sink did not receive a prefix of (all of) the message",
                              {"fam": "so_replay", "cmd": c, "sched": sc["sched"], "want": want}, observed=o)
            elif want == "err" and len(got) != sc["accepted"]:
                rep.note(f"sink schedule {sc['sched']}: {len(got)} bytes accepted before the failure, the call-level model says {sc['accepted']}")
        # the reader's behaviours: the message cut to the model's length, marker / fingerprint damaged as the model says, the header handed
        # out in the model's chunks (the last size goes on for the datum); Ok exactly when the model reaches the datum decoder AND the datum is whole
        rd_cmds, rd_want = [], []
        for (chunks, n, mok, fok), res in sorted(rd_scn.items(), key=lambda kv: json.dumps(kv[0])):
            for flip_m, flip_f in ((0, 2), (1, 9), (1, 5)):
                b = list(ref["bytes"])
                if not mok:
                    b[flip_m] ^= 1 + 127 * flip_m
                if not fok:
                    b[flip_f] ^= 16
                rd_cmds.append({"op": "so_de", "id": len(rd_cmds), "schema": {"nodes": Gl}, "bytes": b[:n],
                                "reader": {"kind": "chunks", "sched": list(chunks) or [1]}})
                rd_want.append("ok" if res == "datum" and n == 13 else "err")
                if mok and fok:
                    break
        for c, want, o in zip(rd_cmds, rd_want, common.run_harness(rd_cmds)):
            n_replayed += 1
            if o.get("res") != want or (want == "ok" and (o.get("consumed") != 13 or o.get("value") != vl)):
                rep.violation(f"from_single_object_reader over source chunks {c['reader']['sched']} of a {len(c['bytes'])}-byte message: model says {want}, "
                              f"code returned {o.get('res')} {o.get('msg', '')[:80]} consumed={o.get('consumed')}",
                              {"fam": "so_replay_rd", "cmd": c, "want": want}, observed=o)
    rng = random.Random(seed + 18)
    trees = [t for _, t in scopes.schema_trees(tier, rng)]
    events, descr = [], []
    ser_cmds, ser_meta = [], []
    for t in trees:
        G = scopes.flatten(t)["nodes"]
        inhabited = pyavro.heights(G)[0] < 10 ** 9        # a type such as R {next: [R]} has no finite value
        for _ in range((2 if tier == "quick" else 6) if inhabited else 0):
            v = pyavro.random_value(rng, G, 1, depth=3, size=2)
            pres = codec.canon_pres(G, 1, v, rng.choice(["named", "rust"]))
            ser_cmds.append({"op": "so_ser", "id": len(ser_cmds), "schema": {"nodes": G}, "pres": pres, "via_writer": rng.random() < 0.5})
            ser_meta.append((t, G, v))
            # the same through a sink that accepts a few bytes per call / is interrupted: what it received is what was written
            sched = rng.choice([[1], [3], [9], [1, "interrupted", 2], [5, 5, "interrupted", 1]])
            ser_cmds.append({"op": "so_ser", "id": len(ser_cmds), "schema": {"nodes": G}, "pres": pres, "sink": sched, "repeat_last": rng.random() < 0.7})
            ser_meta.append((t, G, v))
            # the same schema reached through a history: another graph's fingerprint asked first, then an edit, then freeze
            ser_cmds.append({"op": "so_ser", "id": len(ser_cmds), "schema": {"nodes": G, "via_edit": True}, "pres": pres})
            ser_meta.append((t, G, v))
        # a presentation that does not fit: must fail, nothing to decode
        ser_cmds.append({"op": "so_ser", "id": len(ser_cmds), "schema": {"nodes": G}, "pres": {"p": "tuple", "es": [{"p": "fail"}]}})
        ser_meta.append((t, G, None))
    # schemas holding a fixed whose size is beyond 32 bits, under values that never instantiate it: the header carries the fingerprint of
    # THAT schema (a size reduced modulo 2^32 would give the fingerprint of another schema)
    for big in (2 ** 32 + 8, 2 ** 31, 2 ** 63):
        tb = scopes.rec("a.HB", [("a", scopes.arr(scopes.fixed("a.BigF", big))), ("u", scopes.un(scopes.prim("null"), scopes.ref("a.BigF"))), ("n", scopes.prim("long"))])
        Gb = scopes.flatten(tb)["nodes"]
        vb = {"t": "rec", "es": [{"t": "arr", "es": []}, {"t": "un", "b": 0, "x": {"t": "null"}}, {"t": "long", "v": pyavro.limbs(big % 1000)}]}
        for via in (False, True):
            ser_cmds.append({"op": "so_ser", "id": len(ser_cmds), "schema": {"nodes": Gb}, "pres": codec.canon_pres(Gb, 1, vb, "named"), "via_writer": via})
            ser_meta.append((tb, Gb, vb))
    sobs = common.run_harness(ser_cmds)
    de_cmds, de_meta = [], []
    for c, (t, G, v), o in zip(ser_cmds, ser_meta, sobs):
        events.append(so_ser_event(G, c, o))
        descr.append(("so_ser", c, o))
        if o.get("res") != "ok":
            continue
        b = o["bytes"]
        readers = [{"kind": "slice"}, {"kind": "chunks", "sched": [1]}, {"kind": "chunks", "sched": [rng.randrange(2, 12)]}]
        # intact, followed by garbage, truncated at every header length and a few datum lengths, every header byte corrupted
        variants = [("intact", b), ("trailing", b + [0, 255])] + [(f"cut@{n}", b[:n]) for n in list(range(0, 11)) + [len(b) - 1]]
        for i in range(min(10, len(b))):          # (a message shorter than its header is judged by TLC as a so_ser event)
            for m in (1, 128):
                bb = list(b)
                bb[i] ^= m
                variants.append((f"header[{i}]^{m}", bb))
        for name, vb in variants:
            rd = readers[len(de_cmds) % 3] if name != "intact" else None
            for r_ in ([rd] if rd else readers):
                de_cmds.append({"op": "so_de", "id": len(de_cmds), "schema": {"nodes": G}, "bytes": vb, "reader": r_})
                de_meta.append((G, vb, name))
        # the same message under schemas with a different canonical form
        for vname, vt in variants_of(t, rng):
            try:
                G2 = scopes.flatten(vt)["nodes"]
            except Exception:
                continue
            if json.dumps(G2) == json.dumps(G):
                continue
            de_cmds.append({"op": "so_de", "id": len(de_cmds), "schema": {"nodes": G2}, "bytes": b, "reader": readers[len(de_cmds) % 3]})
            de_meta.append((G2, b, "other_schema:" + vname))
    dobs = common.run_harness(de_cmds)
    for c, (G, vb, name), o in zip(de_cmds, de_meta, dobs):
        if o.get("res") not in ("ok", "err"):
            rep.violation(f"single-object decoding ({name}) did not return: {o.get('res')}", {"fam": "so_de", "cmd": c, "what": name}, observed=o)
            continue
        events.append(so_de_event(G, vb, o))
        descr.append(("so_de:" + name, c, o))
    ntr = C08.validate_events_generic("Trace_SingleObject", "Trace_SingleObject.cfg", rep, events,
                                      lambda i: (f"single-object event {descr[i][0]} rejected by Trace_SingleObject (res={descr[i][2].get('res')} {descr[i][2].get('msg', '')[:80]})",
                                                 {"fam": descr[i][0].split(":")[0], "cmd": descr[i][1], "what": descr[i][0]}, descr[i][2]))
    for ev in events:
        if ev["ev"] == "so_ser" and ev["res"] == "ok":
            bad = json.loads(json.dumps(ev))
            bad["bytes"][5] ^= 4
            if common.validate_trace("Trace_SingleObject", "Trace_SingleObject.cfg", [ev])["accepted"] and \
               common.validate_trace("Trace_SingleObject", "Trace_SingleObject.cfg", [bad])["accepted"]:
                raise common.ToolError("Trace_SingleObject accepted a corrupted fingerprint: vacuous")
            break
    kinds = {}
    for d in descr:
        k = d[0].split("@")[0].split("[")[0]
        kinds[k] = kinds.get(k, 0) + 1
    cov = {
        "states": len(events) + 1, "transitions": len(events), "traces_validated_against_impl": ntr,
        "evaluations": len(events), "distinct_nontrivial": len(events),
        "rule": "for every target schema of the schema scope (+ random trees): random values serialized with to_single_object / to_single_object_vec, decoded with "
                "the slice and chunked readers; the message followed by garbage, cut at every length 0..10 and len-1, each of the 10 header bytes corrupted (2 masks); "
                "the same message decoded under schemas with a different canonical form (renamed field, reversed enum symbols, added null field, renamed types). "
                "TLC recomputes marker ++ LE(CRC-64-AVRO(Pcf(schema))) ++ Enc(value) and the decoding verdict for every event.",
        "call_level_model": {"module": "SingleObject.tla", "configs": so_cfgs, "distinct_states": [r_["distinct"] for r_ in so_runs],
                             "mutants_refuted": 3, "behaviours_replayed_into_real_code": n_replayed, "writer_schedules": len(so_scn), "reader_chunkings": len(rd_scn),
                             "what": "write_all(marker), write_all(fingerprint), datum write calls over every sink schedule of MaxCalls calls (accept 1..8 / Interrupted / Ok(0) / hard error); "
                                     "read_exact(10) over every source schedule, then marker and fingerprint comparison; invariants SinkIsPrefix, OkMeansWhole, FaultSurfaces, ReaderSound, ReaderShort"},
        "by_kind": kinds, "samples": [ser_cmds[0], {k: v for k, v in de_cmds[5].items()}], "exhaustive": False,
    }
    common.write_evidence(PROP, tier, seed, "model_checking", cov,
                          ["oracle = SchemaDesc!Pcf + Crc!Fingerprint + AvroBinary (Trace_SingleObject.tla)", f"harness hooks: {hs['hooks']}"], time.time() - t0, rep.n)
    return rep.finish()


def replay(path):
    rec = json.load(open(path))
    sc = rec["scenario"]
    c = sc["cmd"]
    o = common.run_harness([dict(c, id=0)])[0]
    if sc.get("fam") == "so_replay":
        ref = common.run_harness([{k: v for k, v in dict(c, id=0).items() if k != "sink"}])[0]
        print(json.dumps(o)[:1200])
        got = o.get("bytes") if o.get("res") == "ok" else o.get("got")
        want = sc.get("want", "ok")
        good = ref.get("res") == "ok" and len(ref["bytes"]) == 13 and o.get("res") == want and got is not None and got == ref["bytes"][:len(got)] \
            and (want != "ok" or got == ref["bytes"])
        if not good:
            print(f"VIOLATION property={PROP} replay={path}")
            return common.EXIT_VIOLATION
        return common.EXIT_OK
    if sc.get("fam") == "so_replay_rd":
        print(json.dumps(o)[:1200])
        if o.get("res") != sc["want"] or (sc["want"] == "ok" and o.get("consumed") != 13):
            print(f"VIOLATION property={PROP} replay={path}")
            return common.EXIT_VIOLATION
        return common.EXIT_OK
    nodes = c["schema"]["nodes"]
    ev = so_ser_event(nodes, c, o) if c["op"] == "so_ser" else so_de_event(nodes, c["bytes"], o)
    print(json.dumps(o)[:1200])
    ok = o.get("res") in ("ok", "err") and common.validate_trace("Trace_SingleObject", "Trace_SingleObject.cfg", [ev])["accepted"]
    if not ok:
        print(f"VIOLATION property={PROP} replay={path}")
        return common.EXIT_VIOLATION
    return common.EXIT_OK

"""C18 - single-object encoding: marker + schema fingerprint + datum, verified on read."""
import copy
import json
import random
import time

from .. import codec, common, pyavro, scopes
from . import C08

PROP = "C18"


def variants_of(tree, rng):
    """schemas with a DIFFERENT canonical form but (mostly) the same wire shape: a renamed field, renamed type, other
    namespace, reordered enum symbols, resized fixed - a message written under the original must not decode under them"""
    out = []

    def walk(t, f):
        t = copy.deepcopy(t)

        def rec_(x):
            if "ref" in x:
                return
            f(x)
            for c in (x.get("variants") or []) + ([x["items"]] if "items" in x else []) + ([x["values"]] if "values" in x else []) + \
                    [fl["t"] for fl in x.get("fields", [])]:
                rec_(c)
        rec_(t)
        return t

    def rename_field(x):
        if x.get("k") == "record" and x["fields"]:
            x["fields"][0]["n"] = x["fields"][0]["n"] + "_v2"

    def swap_symbols(x):
        if x.get("k") == "enum" and len(x["symbols"]) > 1:
            x["symbols"] = x["symbols"][::-1]

    def add_field(x):
        if x.get("k") == "record":
            x["fields"].append({"n": "zz_added", "t": scopes.prim("null")})

    out.append(("rename_field", walk(tree, rename_field)))
    out.append(("swap_symbols", walk(tree, swap_symbols)))
    out.append(("add_null_field", walk(tree, add_field)))
    # rename every named type consistently (definitions and references): other fullnames, same structure
    s = json.dumps(tree)
    names = sorted({n for _, n in occurrences_all(tree)}, key=len, reverse=True)
    s2 = s
    for n in names:
        s2 = s2.replace(json.dumps(n), json.dumps("other." + n.rsplit(".", 1)[-1] + "X"))
    out.append(("rename_types", json.loads(s2)))
    return out


def occurrences_all(tree):
    from .. import schemadoc
    return schemadoc.occurrences(tree)


def so_ser_event(nodes, cmd, o):
    ev = {"ev": "so_ser", "nodes": nodes, "pres": cmd["pres"], "res": o.get("res")}
    if o.get("res") == "ok":
        ev["bytes"] = o["bytes"]
    return ev


def so_de_event(nodes, b, o):
    ev = {"ev": "so_de", "nodes": nodes, "bytes": b, "res": o.get("res")}
    if o.get("res") == "ok":
        ev["value"] = o["value"]
        ev["consumed"] = o.get("consumed", -1)
    return ev


def run(tier, seed):
    t0 = time.time()
    rep = common.Report(PROP, tier, seed)
    hs = common.build_harness()
    crc = common.run_tlc("MC_Crc", "MC_Crc.cfg", workers=1, timeout=300)
    common.require_tlc_ok(crc, "Crc sanity theorems")
    rng = random.Random(seed + 18)
    trees = [t for _, t in scopes.schema_trees(tier, rng)]
    events, descr = [], []
    ser_cmds, ser_meta = [], []
    for t in trees:
        G = scopes.flatten(t)["nodes"]
        inhabited = pyavro.heights(G)[0] < 10 ** 9        # a type such as R {next: [R]} has no finite value
        for _ in range((2 if tier == "quick" else 6) if inhabited else 0):
            v = pyavro.random_value(rng, G, 1, depth=3, size=2)
            pres = codec.canon_pres(G, 1, v, rng.choice(["named", "rust"]))
            ser_cmds.append({"op": "so_ser", "id": len(ser_cmds), "schema": {"nodes": G}, "pres": pres, "via_writer": rng.random() < 0.5})
            ser_meta.append((t, G, v))
            # the same through a sink that accepts a few bytes per call / is interrupted: what it received is what was written
            sched = rng.choice([[1], [3], [9], [1, "interrupted", 2], [5, 5, "interrupted", 1]])
            ser_cmds.append({"op": "so_ser", "id": len(ser_cmds), "schema": {"nodes": G}, "pres": pres, "sink": sched, "repeat_last": rng.random() < 0.7})
            ser_meta.append((t, G, v))
            # the same schema reached through a history: another graph's fingerprint asked first, then an edit, then freeze
            ser_cmds.append({"op": "so_ser", "id": len(ser_cmds), "schema": {"nodes": G, "via_edit": True}, "pres": pres})
            ser_meta.append((t, G, v))
        # a presentation that does not fit: must fail, nothing to decode
        ser_cmds.append({"op": "so_ser", "id": len(ser_cmds), "schema": {"nodes": G}, "pres": {"p": "tuple", "es": [{"p": "fail"}]}})
        ser_meta.append((t, G, None))
    # schemas holding a fixed whose size is beyond 32 bits, under values that never instantiate it: the header carries the fingerprint of
    # THAT schema (a size reduced modulo 2^32 would give the fingerprint of another schema)
    for big in (2 ** 32 + 8, 2 ** 31, 2 ** 63):
        tb = scopes.rec("a.HB", [("a", scopes.arr(scopes.fixed("a.BigF", big))), ("u", scopes.un(scopes.prim("null"), scopes.ref("a.BigF"))), ("n", scopes.prim("long"))])
        Gb = scopes.flatten(tb)["nodes"]
        vb = {"t": "rec", "es": [{"t": "arr", "es": []}, {"t": "un", "b": 0, "x": {"t": "null"}}, {"t": "long", "v": pyavro.limbs(big % 1000)}]}
        for via in (False, True):
            ser_cmds.append({"op": "so_ser", "id": len(ser_cmds), "schema": {"nodes": Gb}, "pres": codec.canon_pres(Gb, 1, vb, "named"), "via_writer": via})
            ser_meta.append((tb, Gb, vb))
    sobs = common.run_harness(ser_cmds)
    de_cmds, de_meta = [], []
    for c, (t, G, v), o in zip(ser_cmds, ser_meta, sobs):
        events.append(so_ser_event(G, c, o))
        descr.append(("so_ser", c, o))
        if o.get("res") != "ok":
            continue
        b = o["bytes"]
        readers = [{"kind": "slice"}, {"kind": "chunks", "sched": [1]}, {"kind": "chunks", "sched": [rng.randrange(2, 12)]}]
        # intact, followed by garbage, truncated at every header length and a few datum lengths, every header byte corrupted
        variants = [("intact", b), ("trailing", b + [0, 255])] + [(f"cut@{n}", b[:n]) for n in list(range(0, 11)) + [len(b) - 1]]
        for i in range(min(10, len(b))):          # (a message shorter than its header is judged by TLC as a so_ser event)
            for m in (1, 128):
                bb = list(b)
                bb[i] ^= m
                variants.append((f"header[{i}]^{m}", bb))
        for name, vb in variants:
            rd = readers[len(de_cmds) % 3] if name != "intact" else None
            for r_ in ([rd] if rd else readers):
                de_cmds.append({"op": "so_de", "id": len(de_cmds), "schema": {"nodes": G}, "bytes": vb, "reader": r_})
                de_meta.append((G, vb, name))
        # the same message under schemas with a different canonical form
        for vname, vt in variants_of(t, rng):
            try:
                G2 = scopes.flatten(vt)["nodes"]
            except Exception:
                continue
            if json.dumps(G2) == json.dumps(G):
                continue
            de_cmds.append({"op": "so_de", "id": len(de_cmds), "schema": {"nodes": G2}, "bytes": b, "reader": readers[len(de_cmds) % 3]})
            de_meta.append((G2, b, "other_schema:" + vname))
    dobs = common.run_harness(de_cmds)
    for c, (G, vb, name), o in zip(de_cmds, de_meta, dobs):
        if o.get("res") not in ("ok", "err"):
            rep.violation(f"single-object decoding ({name}) did not return: {o.get('res')}", {"fam": "so_de", "cmd": c, "what": name}, observed=o)
            continue
        events.append(so_de_event(G, vb, o))
        descr.append(("so_de:" + name, c, o))
    ntr = C08.validate_events_generic("Trace_SingleObject", "Trace_SingleObject.cfg", rep, events,
                                      lambda i: (f"single-object event {descr[i][0]} rejected by Trace_SingleObject (res={descr[i][2].get('res')} {descr[i][2].get('msg', '')[:80]})",
                                                 {"fam": descr[i][0].split(":")[0], "cmd": descr[i][1], "what": descr[i][0]}, descr[i][2]))
    for ev in events:
        if ev["ev"] == "so_ser" and ev["res"] == "ok":
            bad = json.loads(json.dumps(ev))
            bad["bytes"][5] ^= 4
            if common.validate_trace("Trace_SingleObject", "Trace_SingleObject.cfg", [ev])["accepted"] and \
               common.validate_trace("Trace_SingleObject", "Trace_SingleObject.cfg", [bad])["accepted"]:
                raise common.ToolError("Trace_SingleObject accepted a corrupted fingerprint: vacuous")
            break
    kinds = {}
    for d in descr:
        k = d[0].split("@")[0].split("[")[0]
        kinds[k] = kinds.get(k, 0) + 1
    cov = {
        "states": len(events) + 1, "transitions": len(events), "traces_validated_against_impl": ntr,
        "evaluations": len(events), "distinct_nontrivial": len(events),
        "rule": "for every target schema of the schema scope (+ random trees): random values serialized with to_single_object / to_single_object_vec, decoded with "
                "the slice and chunked readers; the message followed by garbage, cut at every length 0..10 and len-1, each of the 10 header bytes corrupted (2 masks); "
                "the same message decoded under schemas with a different canonical form (renamed field, reversed enum symbols, added null field, renamed types). "
                "TLC recomputes marker ++ LE(CRC-64-AVRO(Pcf(schema))) ++ Enc(value) and the decoding verdict for every event.",
        "by_kind": kinds, "samples": [ser_cmds[0], {k: v for k, v in de_cmds[5].items()}], "exhaustive": False,
    }
    common.write_evidence(PROP, tier, seed, "model_checking", cov,
                          ["oracle = SchemaDesc!Pcf + Crc!Fingerprint + AvroBinary (Trace_SingleObject.tla)", f"harness hooks: {hs['hooks']}"], time.time() - t0, rep.n)
    return rep.finish()


def replay(path):
    rec = json.load(open(path))
    sc = rec["scenario"]
    c = sc["cmd"]
    o = common.run_harness([dict(c, id=0)])[0]
    nodes = c["schema"]["nodes"]
    ev = so_ser_event(nodes, c, o) if c["op"] == "so_ser" else so_de_event(nodes, c["bytes"], o)
    print(json.dumps(o)[:1200])
    ok = o.get("res") in ("ok", "err") and common.validate_trace("Trace_SingleObject", "Trace_SingleObject.cfg", [ev])["accepted"]
    if not ok:
        print(f"VIOLATION property={PROP} replay={path}")
        return common.EXIT_VIOLATION
    return common.EXIT_OK

"""C20 - derived schemas fit their types: every value serializes and round-trips.

Shapes (TLC-enumerated by MC_Derive + hand-written + seeded random) are turned into Rust source deriving
BuildSchema + Serialize + Deserialize, compiled once against /repo's working tree, and exercised by the `vd`
harness.  TLC judges: Trace_Derive (build deterministic, valid Avro, one definition per fullname, Fits the type,
the JSON text denotes the same schema) and Trace_Codec ("ser": the presentation of every value must serialize,
to an encoding of the denoted value, under the *derived* node vector).  The typed round trip (== on the Rust
value) is observed by the harness."""
import fcntl
import json
import os
import random
import shutil
import subprocess
import time

from .. import codec, common, derivegen as dg

PROP = "C20"
THOROUGH_SEEDS = 1        # seeds per thorough run (bin/check)
VD = os.path.join(common.VERIF, "harness_derive")
VD_BIN = os.path.join(common.HARNESS, "target", "vd", "debug", "vd")


class CompileError(Exception):
    pass


def build_vd(program):
    lock_src = os.path.join(common.REPO, "Cargo.lock")
    if os.path.exists(lock_src) and not os.path.exists(os.path.join(VD, "Cargo.lock")):
        shutil.copy(lock_src, os.path.join(VD, "Cargo.lock"))
    with open(os.path.join(VD, "src", "gen.rs"), "w") as f:
        f.write(program)
    env = dict(os.environ, CARGO_NET_OFFLINE="true")
    t0 = time.time()
    p = subprocess.run(["cargo", "build", "--offline", "--quiet"], cwd=VD, env=env, stdout=subprocess.PIPE, stderr=subprocess.STDOUT, text=True)
    if p.returncode != 0:
        errs = [ln for ln in p.stdout.splitlines() if ln.startswith("error")]
        in_gen = "src/gen.rs" in p.stdout or "src/main.rs" in p.stdout
        raise CompileError(("generated" if in_gen else "repo") + "\n" + "\n".join(errs[:20]) + "\n" + p.stdout[-3000:])
    common.log(f"derive harness built in {time.time() - t0:.1f}s")


def run_vd(ids, timeout=600):
    """-> {id: observation}; a family during which the process died is recorded as {"build": "crash"}"""
    out = {}
    args = []
    guard = 0
    while guard < 20:
        guard += 1
        try:
            p = subprocess.run([VD_BIN] + args, stdout=subprocess.PIPE, stderr=subprocess.PIPE, text=True, timeout=timeout,
                               env=dict(os.environ, VH_STACK_MB="64"))
            rc, so, se = p.returncode, p.stdout, p.stderr
        except subprocess.TimeoutExpired as e:
            rc, so, se = -9, (e.stdout or b"").decode() if isinstance(e.stdout, bytes) else (e.stdout or ""), "timeout"
        begun = None
        for ln in so.splitlines():
            try:
                o = json.loads(ln)
            except ValueError:
                continue
            if o.get("stage") == "begin":
                begun = o["id"]
            elif o.get("stage") == "end":
                out[o["id"]] = o
                begun = None
        if rc == 0 and begun is None:
            break
        if begun is None:
            raise common.ToolError(f"derive harness failed (rc {rc}) outside any family:\n{se[-2000:]}")
        out[begun] = {"id": begun, "build": "crash", "msg": f"process ended with rc {rc} ({se.strip()[-300:]})"}
        args = ["--after", begun]
    return out


def observed_branch_names(fam, o):
    """(enum, variant) -> the Avro name of the branch found at the variant's position in the derived union, located by walking the
    type against the derived graph (fields and variants by position).  Used only to give the variants the serde names the property
    presupposes when the derive names a branch differently from the documentation."""
    res = {}
    if o.get("build") != "ok":
        return res
    G = o["nodes"]
    dn = dg.defs_by_name(fam)
    seen = set()

    def node(k):
        return G[k - 1] if isinstance(k, int) and 1 <= k <= len(G) else None

    def walk(te, k, args=()):
        n = node(k)
        if n is None:
            return
        te = dg.peel(te)
        kind = te["k"]
        if kind == "param":
            return walk(args[te["i"]], k)
        if kind == "opt":
            if n["k"] == "union" and len(n["variants"]) == 2:
                walk(te["t"], n["variants"][1], args)
        elif kind == "vec":
            if n["k"] == "array":
                walk(te["t"], n["items"], args)
        elif kind in ("map", "hmap"):
            if n["k"] == "map":
                walk(te["t"], n["values"], args)
        elif kind == "ref":
            d = dn[te["d"]]
            a = [dg.subst(x, args) if args else x for x in te["args"]]
            key = (d["rust"], json.dumps(a, sort_keys=True), k)
            if key in seen:
                return
            seen.add(key)
            if d["kind"] == "struct" and n["k"] == "record" and len(n["fields"]) == len(d["fields"]):
                for f, nf in zip(d["fields"], n["fields"]):
                    walk(f["t"], nf["t"], a)
            elif d["kind"] == "newtype":
                walk(d["t"], k, a)
            elif d["kind"] == "union_enum" and n["k"] == "union" and len(n["variants"]) == len(d["variants"]):
                for v, vk in zip(d["variants"], n["variants"]):
                    vn = node(vk)
                    if vn is not None:
                        res.setdefault((d["rust"], v["n"]), bytes(codec.branch_name(vn)).decode())
                    if v["t"] is not None:
                        walk(v["t"], vk, a)

    walk(fam["root"], 1)
    return res


def make_families(tier, rng, scn_fams):
    fams = dg.hand_families()
    for f in scn_fams:
        f["id"] = len(fams)
        fams.append(f)
    for _ in range(40 if tier == "quick" else 400):
        fams.append(dg.random_family(rng, len(fams)))
    return fams


def derive_event(fam, o):
    defs, root = dg.mono(fam)
    ev = {"ev": "derive", "defs": defs, "root": root, "build": o.get("build", "crash"), "nodes": o.get("nodes", []), "nodes2": o.get("nodes2", []),
          "freeze": o.get("freeze", "none"), "json_parse": o.get("json_parse", "none"),
          "json_nodes": o.get("json_nodes", []) if isinstance(o.get("json_nodes"), list) else []}
    return ev


def mc_derive(tier):
    """TLC: the model of the derive's construction (Build) fits every shape of the enumerated scope, and every value's
    presentation serializes and round-trips under it; the shapes come back as scenarios"""
    cfg = "MC_Derive_quick.cfg" if tier == "quick" else "MC_Derive_thorough.cfg"
    if not os.path.exists(os.path.join(common.SPEC, cfg)):
        return None, []
    env = {"VERIF_NSHARDS": 1, "VERIF_SHARD": 0, "VERIF_SAMPLE": 1}
    res = common.run_tlc("MC_Derive", cfg, env=env, workers=2, timeout=1500)
    common.require_tlc_ok(res, "MC_Derive")
    scn = res["scn"]
    # the as-found construction (root not registered) must be refuted by the model checker: non-vacuity of UniqueFullnames
    mut = common.run_tlc("MC_Derive", "MC_Derive_asfound.cfg", env=env, workers=2, timeout=600)
    if mut["ok"]:
        raise common.ToolError("MC_Derive accepts the as-found construction (root type built twice): the model is vacuous")
    return res, scn


def run(tier, seed):
    t0 = time.time()
    rep = common.Report(PROP, tier, seed)
    os.makedirs(common.WORK, exist_ok=True)
    lockf = open(os.path.join(common.WORK, "c20.lock"), "w")
    fcntl.flock(lockf, fcntl.LOCK_EX)
    rng = random.Random(seed)
    mc, scn = mc_derive(tier)
    srng = random.Random(seed + 2)
    scn = srng.sample(scn, min(len(scn), 100 if tier == "quick" else 1200)) if scn else []
    scn_fams = [dg.family_from_scenario(s) for s in scn]
    fams = make_families(tier, rng, scn_fams)
    nval = 6 if tier == "quick" else 16
    vrng = random.Random(seed + 1)
    values = {}

    def gen_all():
        st = vrng.getstate()
        for f in fams:
            values[f["id"]] = [dg.gen_value(f, f["root"], vrng, 3) for _ in range(nval)]
        vrng.setstate(st)       # same values again if a second pass is needed

    gen_all()
    try:
        build_vd(dg.rust_program([(f, values[f["id"]]) for f in fams]))
    except CompileError as e:
        kind, _, text = str(e).partition("\n")
        if kind == "repo":
            raise common.ToolError("the derive harness does not build against /repo:\n" + text)
        rep.violation("types of the supported shapes deriving BuildSchema do not compile: " + text.splitlines()[0][:200],
                      {"fam": "derive_compile", "errors": text[:4000]}, expected="the generated program compiles", observed=text[:2000])
        common.write_evidence(PROP, tier, seed, "exploration", {"states": 1, "transitions": 1, "traces_validated_against_impl": 0,
                                                                "rule": "generated types failed to compile", "exhaustive": False}, [], time.time() - t0, rep.n)
        return rep.finish()
    obs = run_vd([f["id"] for f in fams])
    # naming pass: if a derived branch name differs from the documented one, give the variants the observed names and rebuild once
    overrides = {}
    for f in fams:
        o = obs.get(f"f{f['id']}", {})
        for (en, vn), name in observed_branch_names(f, o).items():
            d = dg.defs_by_name(f)[en]
            v = [x for x in d["variants"] if x["n"] == vn][0]
            if dg.branch_name(f, en, v) != name:
                overrides[(f["id"], en, vn)] = name
    naming_note = None
    if overrides:
        naming_note = f"{len(overrides)} union branches are named differently from the documented naming; variants renamed to the observed names"
        common.log(naming_note + ": " + json.dumps([[list(k), v] for k, v in list(overrides.items())[:6]]))
        dg.RENAME_OVERRIDES.clear()
        dg.RENAME_OVERRIDES.update(overrides)
        gen_all()
        try:
            build_vd(dg.rust_program([(f, values[f["id"]]) for f in fams]))
            obs = run_vd([f["id"] for f in fams])
        except CompileError as e:
            raise common.ToolError("second pass of the derive harness does not build:\n" + str(e)[:3000])
    obs2 = run_vd([f["id"] for f in fams])        # a second process: determinism across processes

    # --- derive events -> Trace_Derive
    events, owners = [], []
    for f in fams:
        fid = f"f{f['id']}"
        o = obs.get(fid)
        if o is None:
            raise common.ToolError(f"no observation for family {fid}")
        events.append(derive_event(f, o))
        owners.append(f)
        o2 = obs2.get(fid, {})
        if o.get("build") == "ok" and (o2.get("nodes") != o["nodes"] or o2.get("json") != o.get("json")):
            rep.violation(f"family {fid} ({f['note']}): the schema built in a second process differs", scen(f, None), expected="deterministic", observed=[o.get("json"), o2.get("json")])

    def rejected_shape(i):
        f = owners[i]
        o = obs[f"f{f['id']}"]
        rep.violation(f"family f{f['id']} ({f['note']}, {f['cls']}): derived schema rejected by Trace_Derive: build={o.get('build')} freeze={o.get('freeze')} "
                      f"{o.get('freeze_msg', '')[:100]} json_parse={o.get('json_parse')} {o.get('json_msg', '')[:100]} json={str(o.get('json'))[:300]}",
                      scen(f, None), expected="DeriveOk (Trace_Derive.tla)", observed={k: v for k, v in o.items() if k != "values"})

    ntr = codec.validate_events("Trace_Derive", "Trace_Derive.cfg", events, None, rejected_shape, chunk=12)

    # --- value events -> Trace_Codec over the derived node vectors
    scope, sevents, sowner = [], [], []
    nvals = 0
    for f in fams:
        o = obs[f"f{f['id']}"]
        if o.get("freeze") != "ok":
            continue
        scope.append({"name": f"f{f['id']}", "nodes": o["nodes"]})
        si = len(scope)
        for vi, ((expr, pres), r) in enumerate(zip(values[f["id"]], o.get("values", []))):
            nvals += 1
            if r.get("ser") == "panic":
                rep.violation(f"family f{f['id']} ({f['note']}): value {expr[:120]}: panic {r.get('msg', '')[:150]}", scen(f, vi, expr), observed=r)
                continue
            if r.get("ser") != "ok":        # the property demands success, whatever latitude SerdeModel leaves
                rep.violation(f"family f{f['id']} ({f['note']}, {f['cls']}): value {expr[:160]} does not serialize under the derived schema: {r.get('msg', '')[:200]}",
                              scen(f, vi, expr), expected="every value of the type serializes", observed=r)
                continue
            ev = {"ev": "ser", "si": si, "pres": pres, "slow": False, "res": r["ser"], "bytes": r.get("bytes", [])}
            sevents.append(ev)
            sowner.append((f, vi, expr, r))
            if r.get("ser") == "ok" and r.get("de") != "eq":
                rep.violation(f"family f{f['id']} ({f['note']}, {f['cls']}): value {expr[:160]} serialized but did not deserialize to an equal value: {r.get('de')} {r.get('msg', '')[:200]}",
                              scen(f, vi, expr), expected="from_datum_slice(to_datum(v)) == v", observed=r)
    scope_path = codec.write_scope(scope, "c20")

    def rejected_value(i):
        f, vi, expr, r = sowner[i]
        rep.violation(f"family f{f['id']} ({f['note']}, {f['cls']}): value {expr[:160]}: serialization {r.get('ser')} {r.get('msg', '')[:200]} - rejected by SerAllowed under the derived schema",
                      scen(f, vi, expr), expected="SerAllowed: must succeed with an encoding of the denoted value", observed=r)

    ntr += codec.validate_events("Trace_Codec", "Trace_Codec.cfg", sevents, scope_path, rejected_value, chunk=150)

    # conformance of the construction model: the real node vector = Derive!Build's, up to renaming (informational: the
    # property does not prescribe node order, so a difference is recorded, not reported)
    same = sum(1 for f in scn_fams if obs[f"f{f['id']}"].get("build") == "ok"
               and dg.normalise_names(obs[f"f{f['id']}"]["nodes"]) == dg.normalise_names(f["model_nodes"]))
    common.log(f"construction model: {same} of {len(scn_fams)} TLC-enumerated shapes give exactly Derive!Build's node vector (up to renaming)")

    # binding: a corrupted derive event must be rejected
    for ev, f in zip(events, owners):
        if f["cls"] == "plain" and ev["build"] == "ok" and any(n["k"] == "record" and n["fields"] for n in ev["nodes"]):
            def corrupt(e):
                e = json.loads(json.dumps(e))
                n = [x for x in e["nodes"] if x["k"] == "record" and x["fields"]][0]
                n["fields"][0]["n"] = n["fields"][0]["n"] + [88]
                e["nodes2"] = e["nodes"]
                return e
            codec.binding_check("Trace_Derive", "Trace_Derive.cfg", ev, corrupt, None)
            break

    kinds = {}
    for f in fams:
        for d in f["defs"]:
            kinds[d["kind"]] = kinds.get(d["kind"], 0) + 1
    cov = {
        "states": (mc or {}).get("distinct", 0) or len(events), "transitions": (mc or {}).get("states", 0) or len(events),
        "traces_validated_against_impl": ntr, "evaluations": len(fams) + nvals, "distinct_nontrivial": len(fams),
        "rule": "type families: TLC-enumerated shapes (MC_Derive scope), hand-written (every primitive, recursion through Vec / Option<Box> / map, mutual recursion, "
                "shared sub-types, unit enums, union enums with every branch kind incl. fixed variants, newtype structs, generics instantiated several times and at "
                "themselves, logical types, namespace overrides, Box/Rc/Arc, maps, collection roots, empty record) and seeded random trees; each compiled with "
                "#[derive(BuildSchema, Serialize, Deserialize)]; per family: schema_mut() twice + a second process, schema(), JSON re-parse, N random values "
                "serialized and deserialized. TLC: Trace_Derive (Fits, ValidDerived, JSON denotes the same graph) and Trace_Codec/SerAllowed on the derived nodes.",
        "families": len(fams), "tlc_enumerated_families": len(scn_fams), "identical_to_build_model": same, "values": nvals, "definitions_by_kind": kinds,
        "naming": naming_note or "all union branches carry the documented names",
        "samples": [fams[7]["note"], fams[-1]["defs"][0]], "exhaustive": False,
    }
    common.write_evidence(PROP, tier, seed, "exploration", cov,
                          ["rustc and serde_derive are trusted (the presentation of a value is computed from the type definition and confirmed by the bytes TLC accepts)",
                           "monomorphisation of generic definitions for TLC is done by the driver",
                           "byte arrays / vectors carry #[serde(with = \"serde_bytes\")]; unsigned values are drawn within the range of the Avro type"],
                          time.time() - t0, rep.n)
    return rep.finish()


def scen(f, vi, expr=None):
    cls = f["cls"]
    return {"fam": "derive", "cls": cls, "family": {k: v for k, v in f.items()}, "value_index": vi, "value_expr": expr,
            "overrides": [[list(k), v] for k, v in dg.RENAME_OVERRIDES.items()]}


def replay(path):
    rec = json.load(open(path))
    sc = rec["scenario"]
    if sc.get("fam") == "derive_compile":
        print("re-run the check: the generated program did not compile")
        print(f"VIOLATION property={PROP} replay={path}")
        return common.EXIT_VIOLATION
    f = sc["family"]
    f["id"] = 0
    dg.RENAME_OVERRIDES.clear()
    for k, v in sc.get("overrides", []):
        dg.RENAME_OVERRIDES[(0, k[1], k[2])] = v
    vrng = random.Random(1)
    vals = [dg.gen_value(f, f["root"], vrng, 3) for _ in range(8)]
    try:
        build_vd(dg.rust_program([(f, vals)]))
    except CompileError as e:
        print(str(e)[:3000])
        print(f"VIOLATION property={PROP} replay={path}")
        return common.EXIT_VIOLATION
    o = run_vd([0])["f0"]
    print(json.dumps({k: v for k, v in o.items() if k not in ("nodes", "nodes2", "json_nodes")})[:3000])
    ok = common.validate_trace("Trace_Derive", "Trace_Derive.cfg", [derive_event(f, o)])["accepted"]
    if ok:
        scope_path = codec.write_scope([{"name": "f0", "nodes": o["nodes"]}], "c20r")
        for (expr, pres), r in zip(vals, o.get("values", [])):
            ev = {"ev": "ser", "si": 1, "pres": pres, "slow": False, "res": r.get("ser"), "bytes": r.get("bytes", [])}
            if r.get("ser") != "ok" or r.get("de") != "eq" or not common.validate_trace("Trace_Codec", "Trace_Codec.cfg", [ev], env={"VERIF_SCOPE": scope_path})["accepted"]:
                print("value", expr[:200], r)
                ok = False
                break
    if not ok:
        print(f"VIOLATION property={PROP} replay={path}")
        return common.EXIT_VIOLATION
    return common.EXIT_OK

"""C14 - reusing a serializer configuration never changes output; failures leave it clean."""
import json
import random
import time

from .. import codec, common
from . import C13

PROP = "C14"
THOROUGH_SEEDS = 2        # seeds per thorough run (bin/check)


def call_event(si, cmd, obs):
    ev = {"ev": "call", "si": si, "pres": cmd["pres"], "slow": bool(cmd.get("slow_seq", False)),
          "budget": cmd["fail_after"] if cmd.get("fail_after") is not None else -1, "res": obs.get("res")}
    if obs.get("res") == "ok":
        ev["bytes"] = obs["bytes"]
    return ev


def judge_call(cell, budget, o):
    """stateless expectation for one call (Trace_SerPool!CallAllowed), decided locally when the bytes are canonical"""
    res = o.get("res")
    if res not in ("ok", "err"):
        return False
    L = min((len(b) for b in cell["okb"]), default=None)
    if res == "err":
        if cell["m"] != "ok":
            return True
        if budget is not None and L is not None and budget < L:
            return True
        # the canonical encoding fits, a layout with more blocks may not: TLC decides (Trace_SerPool!CallAllowed)
        return None if budget is not None else False
    if cell["m"] == "err":
        return False
    if budget is not None and len(o["bytes"]) > budget:
        return False
    if cell["any"] or o["bytes"] in cell["okb"]:
        return True
    return None


def run(tier, seed):
    t0 = time.time()
    rep = common.Report(PROP, tier, seed)
    common.build_harness()
    # ---- A: design-level model checking of the pools (histories of calls with failure at every point), with mutants
    from .. import scopes
    scope = scopes.record_scope(tier)
    scope_path = codec.write_scope(scope, "c14-scope")
    nsh = len(scope)
    mc = common.run_tlc_sharded("MC_SerPool", "MC_SerPool.cfg", nsh, env={"VERIF_SCOPE": scope_path}, timeout=1500, xmx="3g", workers=2,
                                parallel=min(8, nsh))
    common.require_tlc_ok(mc, "MC_SerPool (pool invariants over histories)")
    for mut in ("MC_SerPool_mut1.cfg", "MC_SerPool_mut2.cfg"):
        m = common.run_tlc("MC_SerPool", mut, env={"VERIF_SCOPE": scope_path, "VERIF_NSHARDS": nsh, "VERIF_SHARD": 2}, workers=2, timeout=600)
        if "Invariant PoolAlwaysClean is violated" not in m["out"] and "Invariant ReuseEqFresh is violated" not in m["out"]:
            raise common.ToolError(f"model-level mutant {mut} is not detected by MC_SerPool: the invariants are vacuous\n" + m["out"][-1500:])
    # ---- B: cells from MC_Record composed into histories on ONE configuration per schema
    r, scope2, _ = C13.gen_record_cells(tier)
    by_sid = {s["sid"]: s for s in scope2}
    si_of = {s["sid"]: i + 1 for i, s in enumerate(scope2)}
    rng = random.Random(seed)
    cells_by_sid = {}
    for c in r["scn"]:
        cells_by_sid.setdefault(c["sid"], []).append(c)
    cmds, meta = [], []      # meta: (cell, budget, session)
    session = 0
    n_hist = 250 if tier == "quick" else 3000
    for sid, cells in sorted(cells_by_sid.items()):
        cells.sort(key=lambda c: json.dumps(c["pres"], sort_keys=True))
        failing = [c for c in cells if c["m"] != "ok"]
        okish = [c for c in cells if c["m"] == "ok" and c["okb"]] or [c for c in cells if c["okb"]] or cells
        for h in range(n_hist):
            session += 1
            cfg = f"s{session}"
            length = rng.choice([2, 3, 3, 4, 6, 10])
            for step in range(length):
                last = step == length - 1
                if last:
                    cell, budget = rng.choice(okish), None                   # the probe: must give the fresh-configuration bytes
                else:
                    cell = rng.choice(failing if rng.random() < 0.5 else cells)
                    budget = None
                    if cell["okb"] and rng.random() < 0.6:
                        budget = rng.randrange(0, len(cell["okb"][0]) + 2)     # the sink fails after `budget` bytes
                cmd = {"op": "ser", "id": len(cmds), "schema": {"nodes": by_sid[sid]["nodes"]}, "pres": cell["pres"], "slow_seq": True, "cfg": cfg}
                if budget is not None:
                    cmd["fail_after"] = budget
                cmds.append(cmd)
                meta.append((cell, budget, session))
    # sessions must run in order inside one process each: shard by session
    obs = run_sessions(cmds, meta)
    doubtful = []
    for i, ((cell, budget, sess), cmd, o) in enumerate(zip(meta, cmds, obs)):
        v = judge_call(cell, budget, o)
        if v is None:
            doubtful.append(i)
        elif not v:
            hist = [j for j in range(len(cmds)) if meta[j][2] == sess and j <= i]
            rep.violation(f"call #{len(hist)} of a session on a reused configuration (schema {cell['sid']}, sink budget {budget}): "
                          f"specification says {cell['m']}, serializer answered {o.get('res')} {o.get('msg', '')[:120]}",
                          {"fam": "record_history", "cmds": [cmds[j] for j in hist]},
                          expected={"m": cell["m"], "okb": cell["okb"], "budget": budget}, observed=o)
    # ---- C: the same sessions as traces (stateless CallAllowed + the model's pools threaded), incl. doubtful bytes
    events, ev_idx = [], []
    last_sess = None
    budget_rate = 1.0 if tier != "quick" else 0.35
    # sessions holding a call that only TLC can judge come first (the number of events validated is bounded)
    dsess = {meta[i][2] for i in doubtful}
    order = sorted(range(len(cmds)), key=lambda i: (meta[i][2] not in dsess, i))
    for i in order:
        (cell, budget, sess), cmd, o = meta[i], cmds[i], obs[i]
        if sess != last_sess:
            events.append({"ev": "reset"})
            ev_idx.append(None)
            last_sess = sess
        events.append(call_event(si_of[cell["sid"]], cmd, o))
        ev_idx.append(i)
        if isinstance(o.get("pool"), list):        # hook: buffers the real configuration keeps pooled after the call
            events.append({"ev": "h_pool", "lens": o["pool"]})
            ev_idx.append(i)
    # validate a bounded number of whole sessions (TLC evaluates Den + the SerImpl model per call)
    max_events = 8000 if tier == "quick" else 80000
    events, ev_idx = cut_at_session(events, ev_idx, max_events)
    scope2_path = codec.write_scope(scope2, "c14-scope2")

    def rej(gi):
        i = ev_idx[gi]
        if i is None:
            raise common.ToolError("Trace_SerPool rejected a reset event")
        if events[gi].get("ev") == "h_pool":
            # the property is about the bytes of later serializations (judged on every call event); a buffer the configuration keeps
            # pooled with stale content is the mechanism C14 names, but not by itself an observable failure: recorded, not an alarm
            rep.note(f"a pooled buffer is not empty after a call (hook: lengths {events[gi].get('lens')}), schema {meta[i][0]['sid']}")
            return
        cell, budget, sess = meta[i]
        hist = [j for j in range(len(cmds)) if meta[j][2] == sess and j <= i]
        rep.violation(f"session event rejected by Trace_SerPool (schema {cell['sid']}, budget {budget}): res={obs[i].get('res')}",
                      {"fam": "record_history", "cmds": [cmds[j] for j in hist]}, expected="CallAllowed (Trace_SerPool.tla)", observed=obs[i])
    traces = validate_sessions(events, scope2_path, rej)
    codec.binding_check_some("Trace_SerPool", "Trace_SerPool.cfg", (ev for ev in events if ev.get("ev") == "call" and ev["res"] == "ok" and len(ev["bytes"]) > 1),
                             lambda e: dict(e, bytes=e["bytes"][:-1]), scope2_path)
    cov = {
        "states": mc["distinct"] + r["states"], "transitions": mc["states"] + r["states"],
        "traces_validated_against_impl": traces,
        "evaluations": len(cmds), "distinct_nontrivial": session,
        "rule": "MC_SerPool: all calls of the record catalogue x sink budgets from every reachable pool state (invariants PoolAlwaysClean, "
                "ReuseEqFresh; two model-level mutants must be caught). Real code: seeded random sessions of 2..10 calls on ONE configuration "
                "(cells of MC_Record incl. failing ones, sink failing after n bytes at random n, last call a must-ok probe); every call is judged "
                "by the stateless specification; distinct_nontrivial = number of sessions.",
        "pool_hook_events": sum(1 for e in events if e.get("ev") == "h_pool"), "model_pool_states": mc["distinct"], "model_transitions": mc["states"], "trace_events": len(events),
        "doubtful_bytes_checked_by_tlc": len(doubtful),
        "samples": [{"session": [cmds[j] for j in range(len(cmds)) if meta[j][2] == 1]}], "exhaustive": False,
    }
    common.write_evidence(PROP, tier, seed, "model_checking", cov,
                          ["oracle = stateless SerdeModel!Den + sink budget (Trace_SerPool!CallAllowed); SerImpl.tla is the design model of the pools",
                           f"harness hooks: {common.build_harness()['hooks']}"], time.time() - t0, rep.n)
    return rep.finish()


def run_sessions(cmds, meta):
    """commands of one session must be executed in order by the same harness process"""
    import concurrent.futures as cf
    sessions = {}
    for i, m in enumerate(meta):
        sessions.setdefault(m[2], []).append(i)
    groups = [[] for _ in range(common.NCPU)]
    for k, (s, idxs) in enumerate(sorted(sessions.items())):
        groups[k % common.NCPU].extend(idxs)
    out = [None] * len(cmds)
    with cf.ThreadPoolExecutor(common.NCPU) as ex:
        futs = {ex.submit(common.run_harness, [cmds[i] for i in g], 1): g for g in groups if g}
        for f, g in futs.items():
            for i, o in zip(g, f.result()):
                out[i] = o
    return out


def cut_at_session(events, ev_idx, max_events):
    if len(events) <= max_events:
        return events, ev_idx
    cut = max_events
    while cut < len(events) and events[cut].get("ev") != "reset":
        cut += 1
    return events[:cut], ev_idx[:cut]


def validate_sessions(events, scope_path, rej):
    """split at session boundaries so that every chunk starts with a reset"""
    chunks, idxs, cur, cur_i = [], [], [], []
    target = max(150, len(events) // common.NCPU)
    for gi, ev in enumerate(events):
        if ev.get("ev") == "reset" and len(cur) >= target:
            chunks.append(cur)
            idxs.append(cur_i)
            cur, cur_i = [], []
        cur.append(ev)
        cur_i.append(gi)
    if cur:
        chunks.append(cur)
        idxs.append(cur_i)
    results = common.validate_traces_parallel("Trace_SerPool", "Trace_SerPool.cfg", chunks, env={"VERIF_SCOPE": scope_path}, timeout=1500)
    for k, res in enumerate(results):
        rest, rest_i, guard = chunks[k], idxs[k], 0
        while not res["accepted"] and guard < 8:
            guard += 1
            fu = res["first_unmatched"]
            if fu is None or fu < 1 or fu > len(rest):
                if "ModelPoolClean" in res["out"]:
                    raise common.ToolError("the SerImpl model's own pools became dirty while following a real session:\n" + res["out"][-1500:])
                raise common.ToolError("Trace_SerPool failed without a reject index:\n" + res["out"][-2500:])
            rej(rest_i[fu - 1])
            if rest[fu - 1].get("ev") == "h_pool":
                # a note only: go on with the same session, without its pool observations
                a = fu - 1
                while a > 0 and rest[a].get("ev") != "reset":
                    a -= 1
                j = fu
                while j < len(rest) and rest[j].get("ev") != "reset":
                    j += 1
                keep = [(e, x) for e, x in zip(rest[a:j], rest_i[a:j]) if e.get("ev") != "h_pool"]
                rest, rest_i = [e for e, _ in keep] + rest[j:], [x for _, x in keep] + rest_i[j:]
            else:
                j = fu
                while j < len(rest) and rest[j].get("ev") != "reset":
                    j += 1
                rest, rest_i = rest[j:], rest_i[j:]
            if not rest:
                break
            res = common.validate_trace("Trace_SerPool", "Trace_SerPool.cfg", rest, env={"VERIF_SCOPE": scope_path}, timeout=1500)
    return len(chunks)


def replay(path):
    rec = json.load(open(path))
    cmds = rec["scenario"]["cmds"]
    obs = common.run_harness(cmds, nproc=1)
    o = obs[-1]
    print(json.dumps({"expected": rec.get("expected"), "observed_now": o})[:3000])
    scope_path = codec.write_scope([{"sid": "x", "nodes": cmds[-1]["schema"]["nodes"]}], "c14-replay")
    events = [{"ev": "reset"}] + [call_event(1, c, ob) for c, ob in zip(cmds, obs)]
    ok = common.validate_trace("Trace_SerPool", "Trace_SerPool.cfg", events, env={"VERIF_SCOPE": scope_path})["accepted"]
    if not ok:
        print(f"VIOLATION property={PROP} replay={path}")
        return common.EXIT_VIOLATION
    return common.EXIT_OK

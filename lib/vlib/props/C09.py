"""C09 - schema JSON: preserved when parsed, regenerated equivalently when built / edited."""
import json
import random
import time

from .. import common, schemadoc, schemaev, scopes
from . import C07, C08

PROP = "C09"


def minified(text):
    """no insignificant whitespace: outside string literals there is no space / tab / newline"""
    in_str, esc = False, False
    for ch in text:
        if in_str:
            if esc:
                esc = False
            elif ch == "\\":
                esc = True
            elif ch == '"':
                in_str = False
        elif ch == '"':
            in_str = True
        elif ch in " \t\r\n":
            return False
    return True


def run(tier, seed):
    t0 = time.time()
    rep = common.Report(PROP, tier, seed)
    hs = common.build_harness()
    rng = random.Random(seed + 9)
    # ---- parsed, unedited documents: json() is the original document, every key kept, minified; and denotes the same schema
    cases = [c for c in C07.make_cases(tier, rng) if c[3] == "valid"]
    obs = common.run_harness([{"op": "schema_parse", "id": i, "text": c[2]} for i, c in enumerate(cases)], per_cmd_timeout=30)
    items = []
    for c, o in zip(cases, obs):
        ev = C07.parse_event(c[1], o)
        ev["checks"] = ["json"]
        items.append((c, o, ev))
        if o.get("res") == "ok":
            try:
                same = json.loads(o["json"]) == json.loads(c[2])
            except Exception:
                same = False
            if not o.get("direct_json_same", True):
                rep.violation(f"document '{c[0]}': text.parse::<Schema>() and text.parse::<SchemaMut>()?.freeze() keep different JSON texts",
                              {"fam": "schema_doc", "text": c[2], "doc": c[1]}, expected="the same (original, minified) document through both entry points", observed=o["json"][:1500])
            if not same or not minified(o["json"]):
                rep.violation(f"document '{c[0]}': Schema::json() is not the original document minified with every key preserved",
                              {"fam": "schema_doc", "text": c[2], "doc": c[1]}, expected="JSON-equal to the source, no insignificant whitespace", observed=o["json"][:1500])
    ntr = C08.validate_events(rep, [it[2] for it in items], lambda i: (f"document '{items[i][0][0]}': the schema's own JSON does not parse back to the same schema",
                                                                     {"fam": "schema_doc", "text": items[i][0][2], "doc": items[i][0][1]},
                                                                     {k: items[i][1].get(k) for k in ("res", "json", "msg")}))
    # ---- built graphs: all TLC-enumerated node vectors + random trees with many namespace arrangements
    r = schemaev.gen_graph_vectors(tier)
    vecs = [schemaev.fix_nodes(s.get("nodes")) for s in r["scn"]]
    trees = [scopes.flatten(scopes.random_tree(rng, depth=rng.choice([2, 3, 4, 5])))["nodes"] for _ in range(150 if tier == "quick" else 3000)]
    named = [scopes.flatten(t)["nodes"] for _, t in scopes.schema_trees("quick")]
    # numbers beyond 32 bits in a built graph (its JSON is regenerated, not kept): a fixed size and a decimal precision
    named.append(scopes.flatten(scopes.rec("a.HP", [("d", scopes.prim("bytes", lt="decimal", prec=2 ** 32 + 10, scale=3)), ("f", scopes.fixed("a.BF", 2 ** 32 + 7)),
                                                    ("e", scopes.fixed("a.FP", 20, lt="decimal", prec=2 ** 32, scale=0))]))["nodes"])
    allv = vecs + trees + named
    bobs = common.run_harness([schemaev.build_cmd(n, i) for i, n in enumerate(allv)], per_cmd_timeout=30)
    ntr += schemaev.validate_builds(rep, [(n, o, {}) for n, o in zip(allv, bobs)], ["json"], "built graph: regenerated JSON")
    # ---- parsed then edited through nodes_mut(): the reported JSON must describe the EDITED schema
    ecmds, emeta = [], []
    for c in cases[:: (3 if tier == "quick" else 1)]:
        for edit in ("touch", "rename_field", "add_symbol", "swap_fields"):
            for fp_first in (False, True):
                ecmds.append(dict(schemaev.build_cmd([], len(ecmds)), text=c[2], edit=edit, fingerprint_first=fp_first))
                emeta.append((c, edit, fp_first))
    eobs = common.run_harness(ecmds, per_cmd_timeout=30)
    eitems = []
    for (c, edit, fp_first), cmd, o in zip(emeta, ecmds, eobs):
        nodes = o.get("nodes_after", [])
        eitems.append((nodes, o, {"text": c[2], "edit": edit, "fingerprint_first": fp_first}))
    ntr += schemaev.validate_builds(rep, eitems, ["json", "fp"], "parsed then edited schema", fam="edited")
    cov = {
        "states": r["states"], "transitions": r["states"], "traces_validated_against_impl": ntr,
        "evaluations": len(cases) + len(allv) + len(ecmds), "distinct_nontrivial": len(cases) + len(allv) + len(ecmds),
        "rule": "parsed documents (C07's valid spellings with extra attributes and odd layouts): json() JSON-equal to the source, minified, and parses back to "
                "Resolve(doc); built graphs: ALL TLC-enumerated node vectors (shared unnamed nodes, cycles through named nodes, every namespace relation between "
                "parent and child; unnamed cycles must fail), random trees, the hand-written namespace arrangements: GraphDesc(parse(json())) = GraphDesc(G) and equal "
                "fingerprints; parsed documents edited through nodes_mut() (no-op touch, renamed field, added symbol, swapped fields; with and without a fingerprint "
                "taken before the edit): the JSON and fingerprint of the frozen schema describe the edited graph.",
        "documents": len(cases), "built_graphs": len(allv), "edit_scenarios": len(ecmds),
        "samples": [cases[2][2], allv[len(vecs) // 2]], "exhaustive": True,
    }
    common.write_evidence(PROP, tier, seed, "model_checking", cov,
                          ["oracle = SchemaDesc.tla (GraphDesc / Resolve), Crc.tla", "exhaustive = over the TLC-enumerated node-vector space",
                           f"harness hooks: {hs['hooks']}"], time.time() - t0, rep.n)
    return rep.finish()


def replay(path):
    rec = json.load(open(path))
    sc = rec["scenario"]
    if sc["fam"] == "schema_doc":
        o = common.run_harness([{"op": "schema_parse", "id": 0, "text": sc["text"]}])[0]
        ev = C07.parse_event(sc["doc"], o)
        ev["checks"] = ["json"]
        ok = common.validate_trace("Trace_Schema", "Trace_Schema.cfg", [ev])["accepted"]
        if ok and o.get("res") == "ok":
            ok = json.loads(o["json"]) == json.loads(sc["text"]) and minified(o["json"])
    else:
        if sc["fam"] == "edited":
            sc["nodes"] = []
        ok = schemaev.replay_build(rec, PROP, ["json", "fp"] if sc["fam"] == "edited" else ["json"])
    if not ok:
        print(f"VIOLATION property={PROP} replay={path}")
        return common.EXIT_VIOLATION
    return common.EXIT_OK

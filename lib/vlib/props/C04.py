"""C04 - decoding untrusted bytes is total and resource-bounded under the configured limits."""
import json
import random
import time

from .. import codec, common, pyavro, scopes

PROP = "C04"
HUGE = [1 << 31, 1 << 62, (1 << 63) - 1, -(1 << 63), -1, -(1 << 31), 10 ** 6 + 1]


def hostile_variants(rng, G, v):
    """valid encoding of v with a hostile number spliced in at one length / count position, or garbage appended"""
    b = pyavro.encode(G, 1, v)
    out = []
    # positions of varints are not tracked: re-encode with a patched encoder instead
    state = {"n": 0, "target": None, "value": None}
    real_enc_long = pyavro.enc_long

    def count_sites(x):
        state["n"] += 1
        return real_enc_long(x)

    pyavro.enc_long = count_sites
    try:
        pyavro.encode(G, 1, v)
    finally:
        pyavro.enc_long = real_enc_long
    n_sites = state["n"]
    for _ in range(min(4, n_sites)):
        target, val = rng.randrange(n_sites), rng.choice(HUGE)
        st = {"i": 0}

        def patched(x, target=target, val=val, st=st):
            i = st["i"]
            st["i"] += 1
            return real_enc_long(val if i == target else x)
        pyavro.enc_long = patched
        try:
            out.append(pyavro.encode(G, 1, v))
        finally:
            pyavro.enc_long = real_enc_long
    out.append(b + [2] * 40)
    return out


def run(tier, seed):
    t0 = time.time()
    rep = common.Report(PROP, tier, seed)
    hs = common.build_harness()
    rng = random.Random(seed + 4)
    # ---- A: the decoder machine: bounded, measure strictly decreasing (termination, step bound), agrees with Dec
    mc = common.run_tlc("BlockDecoder", f"MC_BlockDecoder_{tier}.cfg", workers=12, timeout=3000, xmx="8g")
    common.require_tlc_ok(mc, "BlockDecoder (bounds, decreasing measure, agreement with Dec)")
    mut = common.run_tlc("BlockDecoder", "MC_BlockDecoder_mut.cfg", workers=4, timeout=600, xmx="4g")
    if "Invariant Bounded is violated" not in mut["out"]:
        raise common.ToolError("BlockDecoder: the per-block max_seq_size mutant is not rejected: invariants vacuous")
    # ---- B: the same (schema, bytes, limits) triples on the real decoder (slice, 1-byte refills, whole buffer)
    scn = mc["scn"]
    rng.shuffle(scn)
    take = scn if tier != "quick" else scn[:25000]
    cmds, exp = [], []
    for s in take:
        for rd in ({"kind": "slice"}, {"kind": "chunks", "sched": [1]}):
            cmds.append({"op": "de", "id": len(cmds), "schema": {"nodes": s["nodes"]}, "bytes": s["bytes"], "reader": rd,
                         "limits": {"depth": s["depth"], "max_seq": s["maxseq"], "max_alloc": 1 << 16}})
            exp.append(s)
    obs = common.run_harness(cmds, per_cmd_timeout=20, stack_mb=2)
    n_free = 0
    for c, s, o in zip(cmds, exp, obs):
        res = o.get("res")
        if res not in ("ok", "err"):
            rep.violation(f"decoding {s['bytes']} (depth limit {s['depth']}, max_seq {s['maxseq']}) did not return: {res}", {"fam": "de_limits", "cmd": c},
                          expected=s["dec"], observed=o)
        elif s["dec"] == "ok" and not (res == "ok" and o.get("consumed") == s["consumed"]):
            rep.violation(f"decoding {s['bytes']} (depth {s['depth']}, max_seq {s['maxseq']}): the specification's machine accepts ({s['consumed']} bytes), "
                          f"the decoder answered {res} / {o.get('consumed')}", {"fam": "de_limits", "cmd": c}, expected=s, observed=o)
        elif s["dec"] == "err" and res != "err":
            rep.violation(f"decoding {s['bytes']} (depth {s['depth']}, max_seq {s['maxseq']}): must be rejected (limit exceeded or not an encoding), decoder answered ok",
                          {"fam": "de_limits", "cmd": c}, expected=s, observed=o)
        elif s["dec"] == "free":
            n_free += 1
    # ---- C: hostile inputs far outside the enumeration, judged by Dec through Trace_Codec, with resource observations
    hostile = hostile_cases(rng, tier)
    send = [dict(c, id=i) for i, (c, _, _) in enumerate(hostile)]
    hobs = common.run_harness(send, per_cmd_timeout=30, stack_mb=2)
    scope, events, owner = [], [], []
    sidx = {}
    for i, ((c, G, what), o) in enumerate(zip(hostile, hobs)):
        res = o.get("res")
        L = len(c["bytes"])
        lim = c["limits"]
        if res not in ("ok", "err"):
            rep.violation(f"{what}: decoding {L} hostile bytes did not return: {res} (signal {o.get('signal')})", {"fam": "hostile", "cmd": send[i], "what": what},
                          expected="Ok or Err", observed={k: v for k, v in o.items() if k != "stderr"})
            continue
        if c["op"] == "de_sum":
            # resource bounds: functions of the input length and the limits, never of numbers written in the input
            if c["reader"]["kind"] == "slice" and res == "ok" and o["allocs"] != 0:
                rep.violation(f"{what}: the slice path allocated ({o['allocs']} allocations, {o['alloc_bytes']} bytes) on a successful decode",
                              {"fam": "hostile", "cmd": send[i], "what": what}, expected={"allocs": 0}, observed=o)
            bound_bytes = 64 * (L + 1) + 4 * lim.get("max_alloc", 0) + 4096
            if o["peak"] > bound_bytes:
                rep.violation(f"{what}: peak memory {o['peak']} bytes for {L} input bytes (limits {lim})", {"fam": "hostile", "cmd": send[i], "what": what},
                              expected={"peak <=": bound_bytes}, observed=o)
            bound_fill = 64 * (L + 1) + 8 * lim["max_seq"] * (lim["depth"] + 1)
            if o["fill_calls"] > bound_fill:
                rep.violation(f"{what}: {o['fill_calls']} buffer refill calls for {L} input bytes", {"fam": "hostile", "cmd": send[i], "what": what},
                              expected={"fill_calls <=": bound_fill}, observed=o)
            if o["ms"] > 5000:
                rep.violation(f"{what}: {o['ms']} ms for {L} input bytes", {"fam": "hostile", "cmd": send[i], "what": what}, expected="bounded work", observed=o)
            continue
        if what.startswith("max_alloc_size") and c["reader"].get("sched") == [1]:
            n = c["bytes"][0] >> 1            # the first field's length (small, one-byte varint)
            if n >= 2 and n > lim["max_alloc"] and res != "err":
                rep.violation(f"{what}: a {n}-byte field arriving one byte at a time was accepted although max_alloc_size = {lim['max_alloc']}",
                              {"fam": "hostile", "cmd": send[i], "what": what}, expected="Err", observed=o)
        key = json.dumps(G)
        if key not in sidx:
            sidx[key] = len(scope) + 1
            scope.append({"sid": f"h{len(scope)}", "nodes": G})
        ev = {"ev": "de", "si": sidx[key], "bytes": c["bytes"], "depth": lim["depth"], "maxseq": lim["max_seq"],
              "maxalloc": -1 if c["reader"]["kind"] == "slice" else lim.get("max_alloc", 1 << 29), "res": res, "maxbuf": max_buffered(c["reader"])}
        if res == "ok":
            ev["value"], ev["consumed"] = o["value"], o["consumed"]
        events.append(ev)
        owner.append(i)
    scope_path = codec.write_scope(scope, "c04-scope")

    def rej(gi):
        i = owner[gi]
        rep.violation(f"{hostile[i][2]}: hostile decode event rejected by Trace_Codec (res={hobs[i].get('res')})", {"fam": "hostile", "cmd": send[i], "what": hostile[i][2]},
                      expected="Dec with the configured limits (AvroBinary.tla)", observed=hobs[i])
    ntr = codec.validate_events("Trace_Codec", "Trace_Codec.cfg", events, scope_path, rej, chunk=150)
    # ---- D: the limits hold for IGNORING targets too: recursive schemas nested around the depth limit, sequences around max_seq, with the
    #         recursive part (or everything) skipped; judged by Trace_Skip with the event's limits (a valid encoding that only a limit
    #         refuses must be refused when skipped as well)
    sk_scope, sk_cmds, sk_si, sk_paths = [], [], [], []
    LONG = lambda x: {"t": "long", "v": pyavro.limbs(x)}     # noqa: E731
    rm = scopes.flatten(scopes.rec("RM", [("v", scopes.prim("long")), ("m", scopes.mp(scopes.ref("RM")))]))["nodes"]
    rt = scopes.flatten(scopes.rec("RT", [("v", scopes.prim("long")), ("kids", scopes.arr(scopes.ref("RT")))]))["nodes"]
    rl = scopes.flatten(scopes.rec("RL", [("v", scopes.prim("long")), ("next", scopes.un(scopes.prim("null"), scopes.ref("RL")))]))["nodes"]

    def nest(kind, d):
        if kind == "m":
            v = {"t": "rec", "es": [LONG(0), {"t": "map", "kv": []}]}
            for i in range(d):
                v = {"t": "rec", "es": [LONG(i + 1), {"t": "map", "kv": [[[107], v]]}]}
        elif kind == "t":
            v = {"t": "rec", "es": [LONG(0), {"t": "arr", "es": []}]}
            for i in range(d):
                v = {"t": "rec", "es": [LONG(i + 1), {"t": "arr", "es": [v]}]}
        else:
            v = {"t": "rec", "es": [LONG(0), {"t": "un", "b": 0, "x": {"t": "null"}}]}
            for i in range(d):
                v = {"t": "rec", "es": [LONG(i + 1), {"t": "un", "b": 1, "x": v}]}
        return v
    for G, kind in ((rm, "m"), (rt, "t"), (rl, "l")):
        sk_scope.append({"sid": f"skip_{kind}", "nodes": G})
        for L in (6, 9):
            for d in range(0, 2 * L + 3):
                b = pyavro.encode(G, 1, nest(kind, d))
                for path in ([], [1]):
                    for rd in ({"kind": "slice"}, {"kind": "chunks", "sched": [3]}):
                        sk_cmds.append({"op": "de", "id": len(sk_cmds), "schema": {"nodes": G}, "bytes": b, "reader": rd, "ignore": [path],
                                        "limits": {"depth": L, "max_seq": 1000, "max_alloc": 1 << 16}})
                        sk_si.append(len(sk_scope))
                        sk_paths.append(path)
    # a long array / map of records, skipped, around max_seq
    for n in (3, 4, 5, 9):
        for layout_rng in (None, random.Random(n)):
            v = {"t": "rec", "es": [LONG(1), {"t": "arr", "es": [nest("t", 0) for _ in range(n)]}]}
            b = pyavro.encode(rt, 1, v, layout_rng)
            for path in ([], [1]):
                sk_cmds.append({"op": "de", "id": len(sk_cmds), "schema": {"nodes": rt}, "bytes": b, "reader": {"kind": "slice"}, "ignore": [path],
                                "limits": {"depth": 32, "max_seq": 4, "max_alloc": 1 << 16}})
                sk_si.append(2)
                sk_paths.append(path)
    # a block that announces an astronomic (positive) count of zero-byte elements, read by an ignoring target: without a byte size
    # to jump over, every element has to be visited, so max_seq_size must stop it (otherwise 12 bytes ask for 2^40 iterations)
    an = scopes.flatten(scopes.arr(scopes.prim("null")))["nodes"]
    aan = scopes.flatten(scopes.rec("W", [("a", scopes.arr(scopes.arr(scopes.prim("null")))), ("z", scopes.prim("long"))]))["nodes"]
    sk_scope.append({"sid": "skip_arrnull", "nodes": an})
    sk_scope.append({"sid": "skip_arrarrnull", "nodes": aan})
    for G_, si_, floods_ in ((an, len(sk_scope) - 1, [pyavro.enc_long(1 << 40) + [0], pyavro.enc_long(300) + [0], pyavro.enc_long(99) + pyavro.enc_long(99) + [0]]),
                             (aan, len(sk_scope), [pyavro.enc_long(1) + pyavro.enc_long(1 << 40) + [0, 0, 2], pyavro.enc_long(150) + [0] * 150 + [0, 2]])):
        for fl in floods_:
            for path in ([], [0] if G_ is aan else []):
                for rd in ({"kind": "slice"}, {"kind": "chunks", "sched": [5]}):
                    sk_cmds.append({"op": "de", "id": len(sk_cmds), "schema": {"nodes": G_}, "bytes": fl, "reader": rd, "ignore": [path],
                                    "limits": {"depth": 32, "max_seq": 100, "max_alloc": 1 << 16}})
                    sk_si.append(si_)
                    sk_paths.append(path)
    # blocks written with a byte size (negative counts), CUT anywhere, read by an ignoring target through a reader: jumping over a block whose
    # bytes are not all there must return (an error), never wait for input that does not come
    for n in (3, 5):
        v = {"t": "rec", "es": [LONG(1), {"t": "arr", "es": [nest("t", 0) for _ in range(n)]}]}
        for sd in (1, 2, 3):
            b = pyavro.encode(rt, 1, v, random.Random(100 * n + sd))
            for cut in range(1, len(b)):
                for path in ([], [1]):
                    sk_cmds.append({"op": "de", "id": len(sk_cmds), "schema": {"nodes": rt}, "bytes": b[:cut], "reader": {"kind": "chunks", "sched": [1 + cut % 4]}, "ignore": [path],
                                    "limits": {"depth": 32, "max_seq": 1000, "max_alloc": 1 << 16}})
                    sk_si.append(2)
                    sk_paths.append(path)
    sk_obs = common.run_harness(sk_cmds, per_cmd_timeout=30)
    sk_events = []
    for si, c, o, pth in zip(sk_si, sk_cmds, sk_obs, sk_paths):
        if o.get("res") not in ("ok", "err"):
            rep.violation(f"ignoring target on a nested value (limits {c['limits']}): did not return: {o.get('res')}", {"fam": "skip_limits", "cmd": c}, observed=o)
            continue
        ev = {"ev": "skip", "si": si, "bytes": c["bytes"], "path": pth, "res": o["res"], "depth": c["limits"]["depth"], "maxseq": c["limits"]["max_seq"]}
        if o["res"] == "ok":
            ev["value"], ev["consumed"] = o["value"], o["consumed"]
        sk_events.append((ev, c, o))
    sk_scope_path = codec.write_scope(sk_scope, "c04-skip")

    def sk_rej(i):
        ev, c, o = sk_events[i]
        rep.violation(f"ignoring target, limits {c['limits']}, {len(c['bytes'])} bytes: answered {o['res']} - not what Dec with these limits allows (Trace_Skip)",
                      {"fam": "skip_limits", "cmd": c}, expected="a valid encoding refused only by a limit is refused when skipped too", observed=o)
    n_sk = codec.validate_events("Trace_Skip", "Trace_Skip.cfg", [e for e, _, _ in sk_events], sk_scope_path, sk_rej)
    cov = {
        "skip_with_limits_events": len(sk_events),
        "states": mc["distinct"], "transitions": mc["states"], "traces_validated_against_impl": ntr,
        "evaluations": len(cmds) + len(hostile), "distinct_nontrivial": len(take) + len(hostile),
        "rule": "model: ALL byte strings over {00,01,02,03,04,7F,80,FF} of length <= 3 (4 thorough) x 8 schemas (zero-byte elements, nested collections, the "
                "recursive record, a union reaching itself, strings) x allowed_depth {0..3} x max_seq_size {0,1,2,5}: invariants Bounded, AgreesWithDec and the action "
                "property Decreases (lexicographic measure) on every step; per-block-count mutant rejected. Real decoder: the terminal states' (schema, bytes, limits) "
                "replayed on slice and 1-byte readers in 2 MiB-stack child processes. Hostile inputs: huge / negative counts and lengths spliced at every varint site of "
                "valid encodings of random values, endless 02 on recursive schemas, max_alloc_size at / below / above field lengths, default-sized limits; outcome judged "
                "by TLC's Dec; allocations (counting allocator, non-allocating target), peak memory, refill calls and time checked against bounds in len and the limits.",
        "machine_terminal_states_replayed": len(take), "free_cells": n_free, "hostile_cases": len(hostile),
        "samples": [cmds[0], {k: v for k, v in send[0].items() if k != "schema"}], "exhaustive": tier != "quick",
    }
    common.write_evidence(PROP, tier, seed, "model_checking", cov,
                          ["oracle = BlockDecoder.tla (machine) refined against AvroBinary!Dec; crashes, allocations, refills and time are observations "
                           "(child process exit status, counting allocator, counters), compared with bounds stated here",
                           f"harness hooks: {hs['hooks']}"], time.time() - t0, rep.n)
    return rep.finish()


def max_buffered(rd):
    """the most bytes the harness's chunked reader ever holds at once (-1: unknown / a slice)"""
    if rd.get("kind") == "chunks" and len(rd.get("sched", [])) == 1:
        return rd["sched"][0]
    return -1


def hostile_cases(rng, tier):
    out = []
    n_schemas = 40 if tier == "quick" else 400
    lims = [{"depth": 64, "max_seq": 1000, "max_alloc": 1 << 16}, {"depth": 3, "max_seq": 10, "max_alloc": 8}, {"depth": 64, "max_seq": 10 ** 4, "max_alloc": 0}]
    for _ in range(n_schemas):
        G = pyavro.random_schema(rng, depth=rng.choice([2, 3, 4]))
        for _ in range(3):
            v = pyavro.random_value(rng, G, 1, depth=4, size=3)
            for b in hostile_variants(rng, G, v):
                lim = rng.choice(lims)
                rd = rng.choice([{"kind": "slice"}, {"kind": "chunks", "sched": [1]}, {"kind": "chunks", "sched": [rng.randrange(1, 9)]}])
                out.append(({"op": "de", "schema": {"nodes": G}, "bytes": b, "reader": rd, "limits": lim}, G, "spliced huge count/length"))
                out.append(({"op": "de_sum", "schema": {"nodes": G}, "bytes": b, "reader": rd, "limits": lim}, G, "spliced huge count/length (resources)"))
    # recursive schemas and zero-byte elements under a flood of 02 / large counts
    rec = scopes.flatten(scopes.rec("R", [("v", scopes.prim("long")), ("next", scopes.un(scopes.prim("null"), scopes.ref("R")))]))["nodes"]
    tree = scopes.flatten(scopes.rec("T", [("kids", scopes.arr(scopes.ref("T")))]))["nodes"]
    arrnull = scopes.flatten(scopes.arr(scopes.prim("null")))["nodes"]
    arrarr = scopes.flatten(scopes.arr(scopes.arr(scopes.arr(scopes.prim("null")))))["nodes"]
    mapnull = scopes.flatten(scopes.mp(scopes.prim("null")))["nodes"]
    for G, name in ((rec, "recursive list"), (tree, "recursive tree"), (arrnull, "array<null>"), (arrarr, "array^3<null>"), (mapnull, "map<null>")):
        for flood in ([2] * 5000, [2, 2] * 3000, [4] * 4000, pyavro.enc_long(10 ** 6) * 3, pyavro.enc_long(1 << 40), pyavro.enc_long(-(1 << 62)) + pyavro.enc_long(1 << 30),
                      pyavro.enc_long(999) + [0] * 10, [254, 255, 255, 255, 15] * 3):
            for lim in ({"depth": 64, "max_seq": 1000, "max_alloc": 1 << 16}, {"depth": 1000, "max_seq": 10 ** 5, "max_alloc": 1 << 16},
                        {"depth": 64, "max_seq": 10 ** 9, "max_alloc": 1 << 29}):
                if lim["max_seq"] == 10 ** 9 and (name in ("array<null>", "array^3<null>") or len(flood) < 100):
                    continue      # (with the DEFAULT limit a 3-byte array<null> legitimately iterates 10^9 times: bounded by the limit, not checked here)
                for rd in ({"kind": "slice"}, {"kind": "chunks", "sched": [7]}):
                    op = "de_sum"
                    out.append(({"op": op, "schema": {"nodes": G}, "bytes": list(flood), "reader": rd, "limits": lim}, G, f"{name} flooded"))
    # every leaf kind (and one container of it) x ALL byte strings of length <= 3 over a boundary alphabet
    import itertools
    P, F = scopes.prim, scopes.fixed
    leaves = [P("null"), P("boolean"), P("int"), P("long"), P("float"), P("double"), P("bytes"), P("string"), P("string", lt="uuid"),
              P("int", lt="date"), P("long", lt="timestamp-micros"), F("ns.F2", 2), F("F0", 0), scopes.enum("E", [[65], [66], [67]]),
              P("bytes", lt="decimal", prec=10, scale=2), F("D2", 2, lt="decimal", prec=4, scale=1), F("D0", 0, lt="decimal", prec=4, scale=1),
              P("bytes", lt="big-decimal"), F("Du", 12, lt="duration")]
    alphabet = [0, 1, 2, 3, 4, 24, 127, 128, 255]
    strings = [list(t) for n in range(0, 4) for t in itertools.product(alphabet, repeat=n)]
    if tier == "quick":
        strings = [b for b in strings if len(b) < 3 or (b[0] in (0, 2, 4, 128, 255) and b[2] in (0, 1, 128, 255))]
    for leaf in leaves:
        for wi, wrap in enumerate((lambda x: x, scopes.arr, lambda x: scopes.un(scopes.prim("null"), x))):
            if wi == 2 and leaf["k"] == "null":
                continue        # [null, null] is not a schema
            try:
                G = scopes.flatten(wrap(leaf))["nodes"]
            except Exception:
                continue
            for bi, b in enumerate(strings):
                rd = {"kind": "slice"} if bi % 3 else {"kind": "chunks", "sched": [1]}
                out.append(({"op": "de", "schema": {"nodes": G}, "bytes": b, "reader": rd, "limits": {"depth": 8, "max_seq": 100, "max_alloc": 1 << 16}}, G,
                            "leaf kind x all short byte strings"))
    # max_alloc_size around a field length (reader input)
    strs = scopes.flatten(scopes.rec("S", [("a", scopes.prim("string")), ("b", scopes.prim("bytes"))]))["nodes"]
    for n in (0, 1, 7, 8, 9, 100):
        v = {"t": "rec", "es": [{"t": "str", "v": [97] * n}, {"t": "bytes", "v": [1] * n}]}
        b = pyavro.encode(strs, 1, v)
        for ma in (0, n - 1, n, n + 1, 1 << 20):
            if ma < 0:
                continue
            for sched in ([1], [3], []):
                out.append(({"op": "de", "schema": {"nodes": strs}, "bytes": b, "reader": {"kind": "chunks", "sched": sched},
                             "limits": {"depth": 64, "max_seq": 100, "max_alloc": ma}}, strs, "max_alloc_size around the field length"))
    # several fields of INCREASING size, each at most the cap larger than the one before (a scratch buffer that only grows):
    # every field above the cap must be rejected when it cannot be wholly buffered
    many = scopes.flatten(scopes.rec("M", [("a", scopes.prim("string")), ("b", scopes.prim("bytes")), ("c", scopes.prim("string")), ("d", scopes.prim("bytes")),
                                           ("m", scopes.mp(scopes.prim("string")))]))["nodes"]
    for step in (8, 30):
        for cap in (step + 2, 2 * step + 2, 10 * step):
            sizes = [step, 2 * step, 3 * step, 4 * step]
            v = {"t": "rec", "es": [{"t": "str", "v": [97] * sizes[0]}, {"t": "bytes", "v": [1] * sizes[1]}, {"t": "str", "v": [98] * sizes[2]},
                                    {"t": "bytes", "v": [2] * sizes[3]}, {"t": "map", "kv": [[[107] * (sizes[0] // 2), {"t": "str", "v": [99] * sizes[1]}]]}]}
            b = pyavro.encode(many, 1, v)
            for sched in ([1], [5], [step + 1], []):
                out.append(({"op": "de", "schema": {"nodes": many}, "bytes": b, "reader": {"kind": "chunks", "sched": sched},
                             "limits": {"depth": 64, "max_seq": 100, "max_alloc": cap}}, many, "fields of increasing size around the allocation cap"))
    # the depth budget also holds for tuple-like targets (tuples, arrays [T; N], tuple structs read nested arrays through other entry points
    # than Vec does): nested arrays around the limit, read by the alternative target families with the expected shape
    for k in (1, 2, 3, 4, 6):
        t = scopes.prim("long")
        for _ in range(k):
            t = scopes.arr(t)
        Gk = scopes.flatten(t)["nodes"]
        v = {"t": "long", "v": pyavro.limbs(5)}
        for _ in range(k):
            v = {"t": "arr", "es": [v, v] if v["t"] == "long" else [v]}
        b = pyavro.encode(Gk, 1, v)
        for depth in (k - 1, k, k + 1, k + 2):
            if depth < 0:
                continue
            # (not the "alt2" family: its Option / enum wrappers are descents of their own and legitimately use up depth)
            for hints in ("alt", "default"):
                for rd in ({"kind": "slice"}, {"kind": "chunks", "sched": [2]}):
                    c = {"op": "de", "schema": {"nodes": Gk}, "bytes": b, "reader": rd, "limits": {"depth": depth, "max_seq": 100, "max_alloc": 1 << 16}}
                    if hints != "default":
                        c.update(hints=hints, shape=v)
                    out.append((c, Gk, f"{k} nested arrays, depth limit {depth}, {hints} targets"))
    # Option<T> targets over two-branch unions: ALL byte strings of length <= 2 over a boundary alphabet (branch indexes outside the union,
    # negative, huge)
    alpha = [0, 1, 2, 3, 4, 5, 6, 127, 128, 254, 255]
    for t in (scopes.un(scopes.prim("null"), scopes.prim("int")), scopes.un(scopes.prim("int"), scopes.prim("null")), scopes.un(scopes.prim("null"), scopes.prim("string"))):
        Gu = scopes.flatten(t)["nodes"]
        for bs in [[a] for a in alpha] + [[a, b2] for a in alpha for b2 in alpha]:
            out.append(({"op": "de", "schema": {"nodes": Gu}, "bytes": bs, "reader": {"kind": "slice"}, "hints": "alt",
                         "limits": {"depth": 64, "max_seq": 100, "max_alloc": 1 << 16}}, Gu, "Option<T> target over a two-branch union, arbitrary bytes"))
    # the slice path allocates nothing of its own whatever serde entry point the target uses for the top-level value (what f64, u64, i64,
    # u128, i128, String, &str, Vec<u8>, Option<_> ... targets call): valid encodings of leaves, decimals of every representation, unions
    P, F = scopes.prim, scopes.fixed
    typed = [(P("bytes", lt="decimal", prec=20, scale=0), [{"t": "dec", "v": pyavro.be16(x), "s": 0} for x in (0, -1, 12345678901234567, -(1 << 70))]),
             (P("bytes", lt="decimal", prec=20, scale=3), [{"t": "dec", "v": pyavro.be16(x), "s": 3} for x in (0, 1, -123456, 1 << 62)]),
             (F("DF", 9, lt="decimal", prec=20, scale=2), [{"t": "dec", "v": pyavro.be16(x), "s": 2} for x in (0, -5, 1 << 60)]),
             (P("bytes", lt="big-decimal"), [{"t": "dec", "v": pyavro.be16(x), "s": sc} for x, sc in ((0, 0), (-7, 0), (123456789, 4))]),
             (P("string"), [{"t": "str", "v": [104, 105]}, {"t": "str", "v": []}]), (P("bytes"), [{"t": "bytes", "v": [0, 255, 7]}]),
             (P("long"), [{"t": "long", "v": pyavro.limbs(x)} for x in (0, -1, 1 << 40)]), (P("double"), [{"t": "f64", "v": [0, 0, 0, 0, 0, 0, 240, 63]}]),
             (F("F4", 4), [{"t": "fix", "v": [1, 2, 3, 4]}]), (P("string", lt="uuid"), [{"t": "str", "v": [ord(c) for c in "00000000-0000-0000-0000-000000000000"]}]),
             (scopes.un(P("null"), P("long")), [{"t": "un", "b": 1, "x": {"t": "long", "v": pyavro.limbs(9)}}, {"t": "un", "b": 0, "x": {"t": "null"}}]),
             (scopes.un(P("null"), P("bytes", lt="decimal", prec=9, scale=0), P("string")),
              [{"t": "un", "b": 1, "x": {"t": "dec", "v": pyavro.be16(77), "s": 0}}, {"t": "un", "b": 2, "x": {"t": "str", "v": [122]}}])]
    tops = ["any", "f64", "f32", "u64", "i64", "i32", "u128", "i128", "str", "string", "bytes", "byte_buf", "option", "ignored"]
    for t, vs in typed:
        G = scopes.flatten(t)["nodes"]
        for v in vs:
            b = pyavro.encode(G, 1, v)
            for top in tops:
                out.append(({"op": "de_sum", "schema": {"nodes": G}, "bytes": b, "reader": {"kind": "slice"}, "top_hint": top,
                             "limits": {"depth": 64, "max_seq": 1000, "max_alloc": 1 << 16}}, G, f"typed entry point deserialize_{top}: no allocation on the slice path"))
    return out


def replay(path):
    rec = json.load(open(path))
    sc = rec["scenario"]
    cmd = dict(sc["cmd"], id=0)
    o = common.run_harness([cmd], per_cmd_timeout=30, stack_mb=2)[0]
    print(json.dumps({k: v for k, v in o.items() if k != "stderr"})[:1200])
    ok = o.get("res") in ("ok", "err")
    exp = rec.get("expected")
    if ok and cmd["op"] == "de" and isinstance(exp, dict) and "dec" in exp:
        if exp["dec"] == "ok":
            ok = o["res"] == "ok" and o.get("consumed") == exp["consumed"]
        elif exp["dec"] == "err":
            ok = o["res"] == "err"
    elif ok and cmd["op"] == "de":
        G = cmd["schema"]["nodes"]
        scope_path = codec.write_scope([{"sid": "x", "nodes": G}], "c04-replay")
        lim = cmd["limits"]
        ev = {"ev": "de", "si": 1, "bytes": cmd["bytes"], "depth": lim["depth"], "maxseq": lim["max_seq"],
              "maxalloc": -1 if cmd["reader"]["kind"] == "slice" else lim.get("max_alloc", 1 << 29), "res": o["res"], "maxbuf": max_buffered(cmd["reader"])}
        if o["res"] == "ok":
            ev["value"], ev["consumed"] = o["value"], o["consumed"]
        ok = common.validate_trace("Trace_Codec", "Trace_Codec.cfg", [ev], env={"VERIF_SCOPE": scope_path})["accepted"]
    elif ok:
        L, lim = len(cmd["bytes"]), cmd["limits"]
        ok = (not (cmd["reader"]["kind"] == "slice" and o["res"] == "ok" and o["allocs"] != 0)
              and o["peak"] <= 64 * (L + 1) + 4 * lim.get("max_alloc", 0) + 4096 and o["ms"] <= 5000
              and o["fill_calls"] <= 64 * (L + 1) + 8 * lim["max_seq"] * (lim["depth"] + 1))
    if not ok:
        print(f"VIOLATION property={PROP} replay={path}")
        return common.EXIT_VIOLATION
    return common.EXIT_OK

"""C01 - datum round trip: decode(encode(v, S), S) = v for every schema and conforming value, for dynamically
typed values and for the entry points Rust types use."""
import json
import random
import time

from .. import codec, common, pyavro

PROP = "C01"
THOROUGH_SEEDS = 2        # seeds per thorough run (bin/check)
STYLES = ["named", "rust", "bare"]


def rt_event(si, cmd, obs):
    """harness observation of a ser_de command -> trace event"""
    ev = {"ev": "rt", "si": si, "pres": cmd["pres"], "slow": bool(cmd.get("slow_seq", False)), "res": obs.get("res"),
          "hints": ("dec_" + cmd["decimal_mode"]) if cmd.get("decimal_mode") else cmd.get("hints", "default")}
    if obs.get("res") == "ok":
        ev["bytes"] = obs["bytes"]
        de = obs["de"]
        ev["de"] = {"res": de.get("res"), "consumed": de.get("consumed", -1), "value": de.get("value", {"t": "none"})}
    return ev


def run(tier, seed):
    t0 = time.time()
    rep = common.Report(PROP, tier, seed)
    common.build_harness()
    r, by_sid = codec.gen_codec_scenarios(tier)
    sids = sorted(by_sid)
    scope = [by_sid[s] for s in sids]
    si_of = {s: i + 1 for i, s in enumerate(sids)}
    cmds, exps = [], []
    rds = codec.readers(tier, 0)
    k = 0
    for scn in r["scn"]:
        schema = {"nodes": by_sid[scn["sid"]]["nodes"]}
        G = schema["nodes"]
        seen = set()
        for st in STYLES:
            pres = scn["pres"][st]
            key = json.dumps(pres, sort_keys=True)
            if key in seen:
                continue
            seen.add(key)
            # every presentation style x rotating reader x rotating target family
            for j in range(2 if tier == "quick" else 3):
                rd = rds[(k + j) % len(rds)]
                h = codec.HINTS[(k + j) % len(codec.HINTS)]
                k += 1
                cmd = {"op": "ser_de", "id": len(cmds), "schema": schema, "pres": pres, "reader": rd, "suffix": [171, 205]}
                if h != "default":
                    cmd["hints"] = h
                if h in ("alt", "alt2"):
                    cmd["shape"] = scn["v"]
                cmds.append(cmd)
                exps.append({"sid": scn["sid"], "enc": scn["enc"], "value": (scn["anyv"] if h == "any" else scn["v"]), "hints": h, "style": st})
    obs = common.run_harness(cmds)
    doubtful = []   # bytes differ from Enc: some other legal layout?  -> TLC decides
    n_borrow_checked = 0
    for c, e, o in zip(cmds, exps, obs):
        good = (o.get("res") == "ok" and o["de"].get("res") == "ok" and o["de"].get("value") == e["value"]
                and o["de"].get("consumed") == len(o["bytes"]))
        if good and o["bytes"] != e["enc"]:
            if e["hints"] == "default":
                doubtful.append((c, e, o))
            continue
        if good and c["reader"]["kind"] == "slice":
            # borrowed &str / &[u8] must point into the input slice
            n_borrow_checked += 1
            if o["de"].get("borrowed_outside", 0) != 0:
                rep.violation("a borrowed str/bytes does not point into the input slice", {"fam": "ser_de", "cmd": c},
                              expected={"borrowed_outside": 0}, observed=o)
        if not good:
            rep.violation(f"round trip of a conforming value ({e['style']} presentation, {e['hints']} target, reader {c['reader']}): "
                          f"ser={o.get('res')} de={o.get('de', {}).get('res')}", {"fam": "ser_de", "cmd": c},
                          expected={"ser": "ok", "bytes": e["enc"], "value": e["value"]}, observed=o)
    scope_path = codec.write_scope(scope, "c01-scope")
    if doubtful:
        evs = [rt_event(si_of[e["sid"]], c, o) for c, e, o in doubtful]

        def rej(i):
            c, e, o = doubtful[i]
            rep.violation("serialization returned Ok with bytes that are not an encoding of the value", {"fam": "ser_de", "cmd": c},
                          expected={"bytes": e["enc"]}, observed=o)
        codec.validate_events("Trace_Codec", "Trace_Codec.cfg", evs, scope_path, rej)
    # ---- C: random schemas / values, named + rust presentations, all judged by TLC (Den + Dec)
    rng = random.Random(seed)
    tv = random_roundtrips(rng, 2500 if tier == "quick" else 30000, rep, depth_extremes=(tier != "quick"))
    cov = {
        "states": r["states"], "transitions": r["states"],
        "traces_validated_against_impl": tv["traces"],
        "evaluations": len(cmds) + tv["events"],
        "distinct_nontrivial": len(cmds) + tv["events"],
        "rule": "TLC enumerates (schema, value) and emits the canonical presentations (named / rust / bare) whose Den it has checked "
                "to be must-ok and to denote v; each distinct (schema, presentation, reader, target family) round trip counts once. "
                "Random events: (random schema, random value, presentation) round trips, trace-validated by TLC.",
        "doubtful_bytes_checked_by_tlc": len(doubtful),
        "borrow_checks": n_borrow_checked,
        "trace_events": tv["events"],
        "samples": [cmds[0], cmds[len(cmds) // 2]] + tv["samples"],
        "exhaustive": False,
    }
    common.write_evidence(PROP, tier, seed, "model_checking", cov,
                          ["oracle = AvroBinary.tla (Enc/Dec) + SerdeModel.tla (Den/Canon), self-checked by TLC on every run",
                           "typed Rust targets are represented by the serde entry points they use (hint families default/alt/any of Capture)",
                           f"harness hooks: {common.build_harness()['hooks']}"],
                          time.time() - t0, rep.n)
    return rep.finish()


def random_roundtrips(rng, n_events, rep, depth_extremes=False):
    scope, cmds, sis = [], [], []
    per_schema = 20
    for si in range(max(1, n_events // per_schema)):
        nodes = pyavro.random_schema(rng, depth=rng.choice([1, 2, 3, 4, 5]))
        scope.append({"sid": f"r{si}", "nodes": nodes})
        for _ in range(per_schema):
            v = pyavro.random_value(rng, nodes, 1, depth=5, size=rng.choice([1, 2, 4, 8]))
            style = rng.choice(["named", "named", "rust"])
            pres = codec.canon_pres(nodes, 1, v, style)
            rd = rng.choice([{"kind": "slice"}, {"kind": "chunks", "sched": [1]}, {"kind": "chunks", "sched": [rng.randrange(1, 17)]},
                             {"kind": "chunks", "sched": []}])
            cmds.append({"op": "ser_de", "id": len(cmds), "schema": {"nodes": nodes}, "pres": pres, "reader": rd,
                         "suffix": [rng.randrange(256)] if rng.random() < 0.5 else []})
            h = rng.choice(["default", "default", "alt", "any", "alt2"])      # family of serde hints of the target (DeView!Shown)
            if h != "default":
                cmds[-1]["hints"] = h
                if h == "alt2":
                    cmds[-1]["shape"] = v
                if h == "alt":
                    cmds[-1]["shape"] = v
                    if rng.random() < 0.4:      # integer targets for decimals (also inside Option<_> over unions of several branches)
                        cmds[-1]["decimal_mode"] = rng.choice(["u64", "i64", "u128", "i128"])
            sis.append(si + 1)
    # Option<integer> targets over unions of null and SEVERAL branches one of which is a decimal (the deserializer wraps the branch there)
    from .. import scopes
    P, F = scopes.prim, scopes.fixed
    for t in (scopes.un(P("null"), P("bytes", lt="decimal", prec=29, scale=0), P("string")),
              scopes.un(P("long"), F("D16m", 16, lt="decimal", prec=29, scale=0), P("null")),
              scopes.un(P("null"), P("bytes", lt="big-decimal"), P("boolean"), P("double"))):
        nodes = scopes.flatten(t)["nodes"]
        scope.append({"sid": f"decm{len(scope)}", "nodes": nodes})
        for x in (0, -1, 255, (1 << 63) - 1, 1 << 63, -(1 << 63) - 1, (1 << 64) + 1234, -(1 << 95)):
            v = {"t": "un", "b": 1, "x": {"t": "dec", "v": pyavro.be16(x), "s": 0}}
            for dm in ("u64", "i64", "u128", "i128"):
                cmds.append({"op": "ser_de", "id": len(cmds), "schema": {"nodes": nodes}, "pres": codec.canon_pres(nodes, 1, v, "named"),
                             "reader": rng.choice([{"kind": "slice"}, {"kind": "chunks", "sched": [1]}]), "suffix": [], "hints": "alt", "shape": v, "decimal_mode": dm})
                sis.append(len(scope))
    obs = common.run_harness(cmds)
    events = [rt_event(si, c, o) for si, c, o in zip(sis, cmds, obs)]
    scope_path = codec.write_scope(scope, "c01-rscope")

    def rej(i):
        rep.violation(f"round-trip event rejected by Trace_Codec (ser={obs[i].get('res')}, de={obs[i].get('de', {}).get('res')})",
                      {"fam": "ser_de", "cmd": cmds[i]}, expected="SerAllowed and decoded = denoted value (Trace_Codec.tla)", observed=obs[i])
    traces = codec.validate_events("Trace_Codec", "Trace_Codec.cfg", events, scope_path, rej)
    codec.binding_check_some("Trace_Codec", "Trace_Codec.cfg", (ev for ev in events if ev["res"] == "ok" and ev["de"]["res"] == "ok" and ev["de"]["consumed"] > 0),
                             lambda e: dict(e, de=dict(e["de"], consumed=e["de"]["consumed"] + 1)), scope_path)
    return {"traces": traces, "events": len(events), "samples": [events[0], events[len(events) // 2]]}


def replay(path):
    rec = json.load(open(path))
    cmd = rec["scenario"]["cmd"]
    o = common.run_harness([cmd])[0]
    print(json.dumps({"expected": rec.get("expected"), "observed_now": o})[:3000])
    exp = rec.get("expected")
    ok = False
    if isinstance(exp, dict) and "value" in exp:
        ok = (o.get("res") == "ok" and o["de"].get("res") == "ok" and o["de"].get("value") == exp["value"]
              and o["de"].get("consumed") == len(o["bytes"]))
    else:
        scope_path = codec.write_scope([{"sid": "x", "nodes": cmd["schema"]["nodes"]}], "c01-replay")
        r = common.validate_trace("Trace_Codec", "Trace_Codec.cfg", [rt_event(1, cmd, o)], env={"VERIF_SCOPE": scope_path})
        ok = r["accepted"]
    if not ok:
        print(f"VIOLATION property={PROP} replay={path}")
        return common.EXIT_VIOLATION
    return common.EXIT_OK

"""C13 - record bytes independent of field order; omitted nullable fields encode as null; unknown / duplicate /
missing required fields are errors, never a panic or misplaced fields."""
import json
import random
import time

from .. import codec, common, pyavro, scopes
from . import C02

PROP = "C13"


def gen_record_cells(tier):
    scope = scopes.record_scope(tier)
    path = codec.write_scope(scope, "c13-scope")
    r = common.run_tlc_sharded("MC_Record", "MC_Record.cfg", common.NCPU, env={"VERIF_SCOPE": path},
                               timeout=1200 if tier == "quick" else 3400, xmx="3g")
    common.require_tlc_ok(r, "MC_Record (RecordAbs consistency, SerImpl refinement, cell generation)")
    return r, scope, path


def run(tier, seed):
    t0 = time.time()
    rep = common.Report(PROP, tier, seed)
    common.build_harness()
    r, scope, scope_path = gen_record_cells(tier)
    by_sid = {s["sid"]: s for s in scope}
    si_of = {s["sid"]: i + 1 for i, s in enumerate(scope)}
    cells = r["scn"]
    cmds = [{"op": "ser", "id": i, "schema": {"nodes": by_sid[c["sid"]]["nodes"]}, "pres": c["pres"], "slow_seq": True}
            for i, c in enumerate(cells)]
    obs = common.run_harness(cmds)
    doubtful = []
    by_m = {"ok": 0, "err": 0, "free": 0}
    for c, cmd, o in zip(cells, cmds, obs):
        by_m[c["m"]] += 1
        v = C02.cell_ok(c, o)
        if v is None:
            doubtful.append((c, cmd, o))
        elif not v:
            names = [bytes(f[0]).decode() for f in (c["pres"].get("fs") or [])] or [bytes(e[0]["v"]).decode() for e in c["pres"].get("kv", [])]
            rep.violation(f"record {c['sid']} presented as {c['pres']['p']} with fields {names}: specification says {c['m']}, "
                          f"serializer answered {o.get('res')}" + (f" bytes {o.get('bytes')} not among {c['okb']}" if o.get("res") == "ok" else ""),
                          {"fam": "ser_cell", "cmd": cmd, "sid": c["sid"]}, expected={"m": c["m"], "any": c["any"], "okb": c["okb"]}, observed=o)
    if doubtful:
        evs = [C02.ser_event(si_of[c["sid"]], cmd, o) for c, cmd, o in doubtful]

        def rej(i):
            c, cmd, o = doubtful[i]
            rep.violation(f"record {c['sid']}: Ok with bytes {o.get('bytes')} that are not the schema-order encoding",
                          {"fam": "ser_cell", "cmd": cmd, "sid": c["sid"]}, expected={"m": c["m"], "okb": c["okb"]}, observed=o)
        codec.validate_events("Trace_Codec", "Trace_Codec.cfg", evs, scope_path, rej)
    rng = random.Random(seed)
    tv = random_records(rng, 1500 if tier == "quick" else 20000, rep)
    cov = {
        "states": r["states"], "transitions": r["states"], "traces_validated_against_impl": tv["traces"],
        "evaluations": len(cells) + tv["events"], "distinct_nontrivial": len(cells) + tv["events"],
        "rule": "TLC enumerates, per record schema, ALL sequences of length <= fields+1 over (field names + an unknown name) as struct / "
                "map(entry) / map(key,value), with rotating field-value presentations (nested records in and out of order, omitted nullable, "
                "missing required, duplicates while buffered, wrong types, failing values, arrays of records, sequences buffered as bytes), "
                "computes RecordAbs = SerdeModel!Den and checks that the implementation-shaped machinery (SerImpl.tla) refines it; each cell is "
                "executed on the real serializer. Random events: wide random records (to 24 fields, nested) in random orders with omissions / "
                "duplicates / unknown fields, judged by TLC.",
        "cells_by_verdict": by_m, "doubtful_bytes_checked_by_tlc": len(doubtful), "trace_events": tv["events"],
        "samples": [cmds[0], cmds[len(cmds) // 2]] + tv["samples"], "exhaustive": True,
    }
    common.write_evidence(PROP, tier, seed, "model_checking", cov,
                          ["oracle = SerdeModel.tla DenRecord (RecordAbs), refined by SerImpl.tla (checked by TLC on every cell)",
                           "exhaustive = over the stated presentation space for the scope's record schemas",
                           f"harness hooks: {common.build_harness()['hooks']}"], time.time() - t0, rep.n)
    return rep.finish()


def wide_record_schema(rng):
    """a record with many fields of mixed kinds, nested records, records in arrays and unions"""
    nc = [0]

    def nm(p):
        nc[0] += 1
        return f"{p}{nc[0]}"

    def field_type(d):
        c = rng.randrange(9 if d > 0 else 6)
        if c == 0:
            return scopes.prim("long")
        if c == 1:
            return scopes.prim("string")
        if c == 2:
            return scopes.prim("null")
        if c == 3:
            return scopes.un(scopes.prim("null"), scopes.prim(rng.choice(["string", "long", "bytes"])))
        if c == 4:
            return scopes.un(scopes.prim(rng.choice(["int", "double"])), scopes.prim("null"))
        if c == 5:
            return scopes.prim(rng.choice(["boolean", "bytes", "double"]))
        if c == 6:
            return record(d - 1, rng.randrange(1, 5))
        if c == 7:
            return scopes.arr(record(d - 1, rng.randrange(1, 4)))
        return scopes.un(scopes.prim("null"), record(d - 1, rng.randrange(1, 4)))

    def record(d, nf):
        return scopes.rec(nm("W"), [(f"f{i}", field_type(d)) for i in range(nf)])

    return scopes.flatten(record(2, rng.randrange(2, 25)))["nodes"]


def scramble(rng, p):
    """reorder / omit / duplicate / add unknown fields in every struct of presentation p (recursively)"""
    if isinstance(p, dict):
        q = {k: scramble(rng, v) for k, v in p.items()}
        if q.get("p") == "struct":
            fs = q["fs"]
            rng.shuffle(fs)
            c = rng.random()
            if c < 0.15 and fs:
                del fs[rng.randrange(len(fs))]
            elif c < 0.22 and fs:
                fs.insert(rng.randrange(len(fs) + 1), json.loads(json.dumps(rng.choice(fs))))
            elif c < 0.27:
                fs.insert(rng.randrange(len(fs) + 1), [list(b"nope"), {"p": "unit"}])
            if rng.random() < 0.3:
                q = {"p": "map", "len": len(fs), "mode": rng.choice(["entry", "kv"]), "kv": [[{"p": "str", "v": f[0]}, f[1]] for f in fs]}
        return q
    if isinstance(p, list):
        return [scramble(rng, x) for x in p]
    return p


def random_records(rng, n_events, rep):
    scope, cmds, sis = [], [], []
    per_schema = 15
    for si in range(max(1, n_events // per_schema)):
        nodes = wide_record_schema(rng)
        scope.append({"sid": f"w{si}", "nodes": nodes})
        for _ in range(per_schema):
            v = pyavro.random_value(rng, nodes, 1, depth=4, size=2)
            pres = scramble(rng, codec.canon_pres(nodes, 1, v, rng.choice(["named", "rust"])))
            cmds.append({"op": "ser", "id": len(cmds), "schema": {"nodes": nodes}, "pres": pres, "slow_seq": False, "via": rng.choice(("to_datum", "to_datum_vec", "owned"))})
            sis.append(si + 1)
    obs = common.run_harness(cmds)
    events = [C02.ser_event(si, c, o) for si, c, o in zip(sis, cmds, obs)]
    scope_path = codec.write_scope(scope, "c13-rscope")

    def rej(i):
        rep.violation(f"record serialization event rejected by Trace_Codec: res={obs[i].get('res')}", {"fam": "ser_random", "cmd": cmds[i]},
                      expected="SerAllowed (SerdeModel.tla)", observed=obs[i])
    traces = codec.validate_events("Trace_Codec", "Trace_Codec.cfg", events, scope_path, rej, chunk=100)
    codec.binding_check_some("Trace_Codec", "Trace_Codec.cfg", (ev for ev in events if ev["res"] == "ok" and len(ev["bytes"]) > 1),
                             lambda e: dict(e, bytes=e["bytes"][::-1] + [1]), scope_path)
    return {"traces": traces, "events": len(events), "samples": [events[0]]}


replay = C02.replay

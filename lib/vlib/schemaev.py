"""Shared machinery of the schema-family checks (C08, C09, C18, C19): build events, TLC-enumerated node vectors."""
import json

from . import codec, common, scopes


def gen_graph_vectors(tier):
    """MC_SchemaGraphs: all node vectors up to 2 (quick) / 3 (thorough) nodes with arbitrary keys"""
    if tier == "quick":
        r = common.run_tlc("MC_SchemaGraphs", "MC_SchemaGraphs_2.cfg", env={"VERIF_NSHARDS": 1, "VERIF_SHARD": 0}, workers=4, timeout=900, xmx="4g")
    else:
        r = common.run_tlc_sharded("MC_SchemaGraphs", "MC_SchemaGraphs_3.cfg", 16, timeout=3400, xmx="3g")
    common.require_tlc_ok(r, "MC_SchemaGraphs (classification of all small node vectors)")
    return r


def fix_nodes(nodes):
    """TLC prints functions over 1..n as arrays; an empty vector arrives as [] or {}"""
    return nodes if isinstance(nodes, list) else []


def build_cmd(nodes, cid, what="all", **kw):
    c = {"op": "schema_build", "id": cid, "nodes": nodes, "what": what}
    c.update(kw)
    return c


def build_event(nodes, o, checks):
    ev = {"ev": "build", "nodes": nodes, "checks": checks,
          "freeze": o.get("freeze", "crash"), "fp_res": o.get("fp_res", "crash"), "json_res": o.get("json_res", "crash"),
          "fp": o.get("fp", []), "frozen_fp": o.get("frozen_fp", []), "reparse": o.get("reparse", "none"),
          "json_nodes": o.get("json_nodes", []) if isinstance(o.get("json_nodes"), list) else [], "json_fp": o.get("json_fp", [])}
    return ev


def validate_builds(rep, items, checks, label, fam="node_vector"):
    """items: list of (nodes, observation, scenario-extra). Crashes are violations by themselves."""
    events, owner = [], []
    for i, (nodes, o, extra) in enumerate(items):
        if o.get("res") != "ok":
            rep.violation(f"{label}: building / freezing / rendering a node vector did not return: {o.get('res')} {str(o.get('stderr', o.get('msg', '')))[:160]}",
                          dict({"fam": fam, "nodes": nodes, "crash": o.get("res")}, **extra), expected="Ok or Err", observed=o)
            continue
        events.append(build_event(nodes, o, checks))
        owner.append(i)
    if not events:
        return 0
    nch = min(common.NCPU, max(1, len(events) // 150))
    chunks = [events[k::nch] for k in range(nch)]
    cidx = [owner[k::nch] for k in range(nch)]
    results = common.validate_traces_parallel("Trace_Schema", "Trace_Schema.cfg", chunks, timeout=2400)
    for k, res in enumerate(results):
        rest, rest_idx = chunks[k], cidx[k]
        guard = 0
        while not res["accepted"] and guard < 8:
            guard += 1
            fu = res["first_unmatched"]
            if fu is None or fu < 1:
                raise common.ToolError("Trace_Schema failed without reject index:\n" + res["out"][-2500:])
            nodes, o, extra = items[rest_idx[fu - 1]]
            rep.violation(f"{label}: freeze={o.get('freeze')} fingerprint={o.get('fp_res')} json={o.get('json_res')} reparse={o.get('reparse')} "
                          f"{o.get('reparse_msg', '')[:100]} - rejected by Trace_Schema", dict({"fam": fam, "nodes": nodes}, **extra),
                          expected="BuildAllowed (Trace_Schema.tla)", observed={k2: v for k2, v in o.items() if k2 not in ("json_nodes",)})
            rest, rest_idx = rest[fu:], rest_idx[fu:]
            if not rest:
                break
            res = common.validate_trace("Trace_Schema", "Trace_Schema.cfg", rest, timeout=2400)
    return nch


def replay_build(rec, prop, checks):
    sc = rec["scenario"]
    cmd = build_cmd(sc["nodes"], 0)
    for k in ("text", "edit", "fingerprint_first"):
        if k in sc:
            cmd[k] = sc[k]
    o = common.run_harness([cmd], per_cmd_timeout=30)[0]
    print(json.dumps({k: v for k, v in o.items() if k != "json_nodes"})[:1500])
    nodes = o.get("nodes_after", sc["nodes"])
    ok = o.get("res") == "ok" and common.validate_trace("Trace_Schema", "Trace_Schema.cfg", [build_event(nodes, o, checks)])["accepted"]
    return ok

"""Table from which bin/mkmanifest writes MANIFEST.json."""

HOOK_COMMITS = ["1753f51", "362ff43"]

TLC_NOTE = ("Trusted base: TLC 1.8, the TLA+ modules under /verif/spec (checked against their own sanity theorems on every run), "
            "the harness's projection of real API results into the exchange format, serde's own dispatch. Bounds: see evidence.")

CHECKS = [
    {"property_id": "C01", "level": "model_checking", "design_ref": "DESIGN.md §6 C01",
     "text": "TLC checks Dec(Enc(v)) = v and that every canonical presentation (named / rust / bare, SerdeModel!Canon) is must-ok and denotes v, "
             "for every (schema, value) of the scope grammar x boundary values; each presentation is serialized and decoded back by the real code "
             "(slice and chunked readers; natural, Rust-type-like and self-describing targets; borrow check on the slice path); round trips of "
             "random schemas/values are trace-validated by TLC (SerAllowed + decoded = denoted value).",
     "note": TLC_NOTE,
     "technique": "TLA+ spec (AvroBinary.tla, SerdeModel.tla) + TLC bounded enumeration replayed into the code + TLC trace validation of recorded round trips"},
    {"property_id": "C02", "level": "model_checking", "design_ref": "DESIGN.md §6 C02",
     "text": "TLC evaluates Den (SerdeModel.tla: must-ok / must-err / free + denoted values) on the whole (schema x presentation) matrix - every "
             "effective node kind and small unions x every serde call with boundary values - checks the relation's consistency, and each cell is "
             "serialized by the real code: must-err cells must fail, Ok bytes must be an encoding of a denoted value. Mutated presentations of random "
             "values of random schemas are serialized and every event is trace-validated by TLC (SerAllowed).",
     "note": TLC_NOTE,
     "technique": "TLA+ spec (SerdeModel.tla Den/SerAllowed, SerdePres.tla catalogue) enumerated by TLC and replayed into the serializer + TLC trace validation of recorded serialization events"},
    {"property_id": "C03", "level": "model_checking", "design_ref": "DESIGN.md §6 C03",
     "text": "TLC checks, for every (schema, value) of the scope grammar x boundary values, that the specification's decoder inverts every "
             "block-layout variant and rejects every single-point malformation and proper prefix; each case is replayed on the real decoder "
             "(slice and chunked readers), and decode events of random schemas/values/layouts/corruptions are trace-validated by TLC against Dec. What a target is shown is part of the specification (DeView.tla): the abstract value for schema-directed targets, the erased view for self-describing ones, and for decimals under the integer hints (u64 / i64 / u128 / i128) the visit call and value at every boundary. Three families of typed targets exercise the serde entry points (structs / Vec / enums-for-unions; maps-for-records / tuples / Option / Rust enums for Avro enums; Option over plain nodes and over unions of several branches / enums named after the type / strings over bytes and fixed / tuple structs).",
     "note": TLC_NOTE,
     "technique": "TLA+ spec (AvroBinary.tla Dec/Layouts/Mal) + TLC bounded enumeration replayed into the code + TLC trace validation of recorded decode events"},
    {"property_id": "C13", "level": "model_checking", "design_ref": "DESIGN.md §6 C13",
     "text": "For each record schema of the scope TLC enumerates ALL sequences of length <= fields+1 over (field names + unknown) as struct, "
             "map(entry) and map(key/value) with rotating field presentations (nested out-of-order records, omissions, duplicates, failing values), "
             "computes RecordAbs (SerdeModel!Den) and checks that the implementation-shaped reordering machinery (SerImpl.tla) refines it; every cell "
             "is executed on the real serializer. Wide random records in random orders are trace-validated by TLC.",
     "note": TLC_NOTE,
     "technique": "TLA+ spec (SerdeModel!DenRecord = RecordAbs, SerImpl.tla refinement) checked by TLC, exhaustive presentation enumeration replayed into the serializer, TLC trace validation"},
    {"property_id": "C14", "level": "model_checking", "design_ref": "DESIGN.md §6 C14",
     "text": "TLC model-checks the pools of the serializer configuration (SerImpl.tla / MC_SerPool.tla): from every reachable pool state, every call of "
             "the record catalogue x every sink budget keeps the pools clean and behaves as on fresh pools (two model-level mutants must be caught). "
             "The real code runs seeded sessions on one shared configuration (failing values, sink failing after n bytes, must-ok probes); every call is "
             "judged by the stateless specification and the sessions are trace-validated by TLC (Trace_SerPool).",
     "note": TLC_NOTE,
     "technique": "TLA+ state machine of the buffer pools model-checked by TLC (with mutants) + sessions on the real configuration trace-validated by TLC against the stateless spec"},
    {"property_id": "C15", "level": "model_checking", "design_ref": "DESIGN.md §6 C15",
     "text": "TLC model-checks ContainerWriterImpl => ContainerWriterAbs (ContainerWriter.tla: all op sequences <= 6, four block sizes, six invariants, "
             "two model mutants caught). The real writer runs every op sequence up to length 4 over {small, big, failing-at-once, failing-after-bytes, push, "
             "finish} closed by into_inner / drop, x block sizes x codecs (also zero-byte items); the sink is inspected after every call and each session "
             "is validated by TLC on the real bytes (Trace_Writer: header, blocks, counts, sync, prefix-of-accepted, all-after-flush). The writer hook (objects in the open block, pending flag, buffered bytes) is tied to the accepted / flushed items after every call (Trace_Writer!HookOk; departures are notes).",
     "note": TLC_NOTE,
     "technique": "TLA+ state machine (ContainerWriter.tla) model-checked with TLC + exhaustive op sequences on the real writer, each session trace-validated by TLC against the abstract property on bytes"},
    {"property_id": "C16", "level": "model_checking", "design_ref": "DESIGN.md §6 C16",
     "text": "TLC model-checks the write_all_vectored loop against every sink schedule (VectoredWrite.tla, mutant caught). The real writer is run over "
             "sinks that accept k bytes per call, one slice per call, random mixes with Interrupted, and Interrupted / Ok(0) / hard error at every call index: "
             "the stream must equal the all-accepting sink's, a failing sink call must surface as Err (never a panic), transient failures must leave a "
             "valid file (Trace_Writer with err_io), and the recorded write_vectored call sequences are validated by TLC (Trace_Vectored). ContainerWriterFaulty.tla is the writer's bookkeeping over a sink that fails cleanly or after a partial block at any flush (retry of the pending block, errors surface, nothing lost inside the writer): TLC checks it forward and refutes two mutated writers, and every scheduled-sink session of the real writer is replayed against it call by call with the hook state (Trace_WriterFaulty). Thorough tier: its invariant is checked as INDUCTIVE by TLC (every state of IndInit) and by Apalache (any number of calls), as is the vectored-write loop invariant, with the mutants refuted.",
     "note": TLC_NOTE,
     "technique": "TLA+ model of the vectored write loop checked by TLC + scheduled sinks under the real writer, call sequences and resulting files trace-validated by TLC"},
    {"property_id": "C04", "level": "model_checking", "design_ref": "DESIGN.md §6 C04",
     "text": "BlockDecoder.tla is the decoder as an explicit machine (block header loop, per-element countdown, cumulative max_seq_size, depth budget). For ALL byte "
             "strings over an 8-byte alphabet (length <= 3 / 4) x 8 schemas x limit configurations TLC checks Bounded, agreement with the functional Dec, and "
             "that a lexicographic measure strictly decreases at every step (termination and a step bound in len and the limits); a per-block-count mutant is "
             "rejected. The terminal states are replayed on the real decoder in small-stack child processes; hostile inputs (huge / negative counts and "
             "lengths spliced at every varint site, floods on recursive schemas, max_alloc_size around field lengths) are judged by TLC's Dec, with allocation, "
             "peak-memory, refill-count and time observations checked against bounds in the input length and the limits. Limits also hold for ignoring targets (depth around the limit on recursive schemas; astronomic positive counts), judged by Trace_Skip with the event's limits; every leaf kind is fed ALL byte strings of length <= 3 over a boundary alphabet; the allocation cap must reject any field above both the cap and the reader's buffer.",
     "note": TLC_NOTE + " Crashes, allocations and work are observations (exit status, counting allocator, counters), not modelled in TLA+.",
     "technique": "TLA+ explicit-state decoder machine with a decreasing-measure action property checked by TLC; exhaustive short inputs replayed on the real decoder; hostile inputs trace-validated"},
    {"property_id": "C05", "level": "model_checking", "design_ref": "DESIGN.md §6 C05",
     "text": "TLC model-checks the per-codec encode loops against each library's status protocol (CodecLoop.tla; the loops as found before the "
             "repairs are rejected) and the writer state machine. Real code: op sequences x 6 codecs x levels (incl. above-max) x block sizes, every file read "
             "back with slice, chunked (1-byte, irregular) and BufReader (capacity 1, 7, 8192) readers, plus boundary-sized and large blocks (8/32/64 KiB +-1 "
             "up to 2 MB, compressible and incompressible); every read is validated by TLC against ContainerReaderAbs (Trace_Reader, intact). Every intact read is also replayed, state by state (hook: reader state, objects left, latch), against the reader machine ContainerReader.tla (departures are recorded as notes, not alarms).",
     "note": TLC_NOTE + " Compression libraries are uninterpreted (called directly by the harness for de-framing).",
     "technique": "TLA+ models (CodecLoop.tla, ContainerWriter.tla) checked by TLC + write/read round trips on the real code trace-validated by TLC (Trace_Reader)"},
    {"property_id": "C17", "level": "model_checking", "design_ref": "DESIGN.md §6 C17",
     "text": "ContainerReaderAbs is written as a TLA+ trace specification (Trace_Reader.tla: prefix rule for truncation, must-report rule for the named "
             "corruptions, once-then-end-of-stream latch for unrecoverable errors using the reader state from hooks, sticky end of stream) whose rules are "
             "sanity-checked on every run; the real reader is run on one 3-block file per codec cut at EVERY offset, with every named corruption of every "
             "block, hostile declared counts and sizes, blocks assembled with push_serialized whose contents disagree with their count (every codec), single-byte corruption at every offset, random multi-byte corruptions and an I/O error of four kinds at every refill index (items with strings, unions, decimals and fixed), and each run is validated by TLC. ContainerReader.tla is the reader as the code structures it (three input kinds); TLC checks it against C17's rules on all small damaged files (4 blocks x 3 objects x 14 calls in the thorough tier) and refutes a mutant; every structured read is replayed against it with the hook states.",
     "note": TLC_NOTE,
     "technique": "abstract reader property as a TLA+ trace spec; exhaustive fault enumeration over real files (every offset / refill index), each run trace-validated by TLC"},
    {"property_id": "C06", "level": "model_checking", "design_ref": "DESIGN.md §6 C06",
     "text": "ContainerFile.tla specifies the file layout as a parser and a writer over bytes. Reader side: TLC builds every reference file of a plan space "
             "(values x block partitions x codec entry absent / six names x user keys x key orders x seven metadata-map layouts), proves ParseFile o BuildFile = id "
             "on it, and the real reader must return values and user metadata. Writer side: real files of all codecs with random user metadata are judged byte by "
             "byte by TLC (header, metadata, sync, block counts / sizes, raw-deflate framing, snappy CRC-32 computed in TLA+).",
     "note": TLC_NOTE + " The independent implementation is the specification's own parser/writer; apache-avro is not linked into the harness.",
     "technique": "TLA+ spec of the container layout (parser + writer); TLC-built reference files replayed into the real reader; real files trace-validated by TLC"},
    {"property_id": "C07", "level": "model_checking", "design_ref": "DESIGN.md §6 C07",
     "text": "Name resolution is specified in TLA+ from the Avro specification's wording (SchemaDesc!Resolve: dotted name > namespace attribute incl. \"\" > "
             "enclosing namespace, inheritance through records / arrays / maps / unions, definition before or after use, duplicate / unknown / missing-attribute / "
             "unconditional-cycle errors). Spellings of target schemas (namespace arrangements, forward references, lexical styles, extra attributes) and "
             "invalid mutations are parsed by the real parser, and TLC compares Resolve(doc) with the canonical description of the parsed node vector.",
     "note": TLC_NOTE, "technique": "TLA+ spec of name resolution; documents generated as ASTs, parsed by the real parser, every parse event trace-validated by TLC"},
    {"property_id": "C08", "level": "model_checking", "design_ref": "DESIGN.md §6 C08",
     "text": "Crc.tla gives CRC-64-AVRO bit-serially (the definition) and table-driven; TLC proves them equal on a GF(2) basis of (state, byte) plus linearity of "
             "the table (hence on all 2^64 x 256 pairs) and checks the specification's worked example; the same pairs are replayed on the implementation's step "
             "through a hook. For every spelling of every target schema, all TLC-enumerated node vectors and random trees, TLC recomputes Pcf and its checksum and "
             "compares with the reported fingerprint and canonical form text.",
     "note": TLC_NOTE, "technique": "TLA+ spec of PCF + CRC-64-AVRO with basis/linearity theorems checked by TLC; fingerprints of real schemas trace-validated by TLC"},
    {"property_id": "C09", "level": "model_checking", "design_ref": "DESIGN.md §6 C09",
     "text": "For parsed documents the schema's own JSON must be the source minified with every key kept and parse back to Resolve(doc); for ALL TLC-enumerated "
             "node vectors (<= 2/3 nodes, arbitrary keys: sharing, named cycles, every namespace relation), random trees and parsed-then-edited schemas the "
             "regenerated JSON must parse back to the same canonical description with the same fingerprint; unnamed cycles must fail. Judged by TLC (Trace_Schema).",
     "note": TLC_NOTE, "technique": "TLA+ canonical description (GraphDesc) + exhaustive small node vectors enumerated by TLC, rendered and re-parsed by the real code, trace-validated by TLC"},
    {"property_id": "C18", "level": "model_checking", "design_ref": "DESIGN.md §6 C18",
     "text": "Every single-object serialization / deserialization event of the drivers (random values of the schema scope; slice and chunked readers; trailing "
             "garbage; truncation at every header length; every header byte corrupted; the same message under schemas with a different canonical form) is "
             "validated by TLC against C3 01 ++ LE(CRC-64-AVRO(Pcf(schema))) ++ Enc(value) and the header-check rules. SingleObject.tla (the calls made on "
             "the caller's sink and source) is model-checked over all sink / source schedules with three refuted mutants, and every finished behaviour is "
             "replayed into to_single_object / from_single_object_reader.",
     "note": TLC_NOTE, "technique": "TLA+ spec of the single-object format (Pcf + Crc + AvroBinary) with real encode/decode events trace-validated by TLC; "
                                    "TLA+ call-level model (SingleObject.tla) model-checked by TLC, its behaviours replayed into the real functions"},
    {"property_id": "C19", "level": "model_checking", "design_ref": "DESIGN.md §6 C19",
     "text": "TLC enumerates ALL node vectors of <= 2 (3 thorough) nodes with arbitrary keys and classifies them with a terminating traversal (ok / unnamed "
             "cycle / dangling / empty); fingerprint, JSON rendering and freeze are run on each in separate child-process commands (a stack overflow is an "
             "observation) and validated by TLC; frozen schemas are probed (Debug, serialize, decode short inputs). Plus random vectors with odd names and "
             "logical types, deep chains, mutated schema texts, every JSON value shape at every attribute, deep nesting, megabyte names, diamond-shaped record references (45 records: the cycle check must be linear - a genuine defect found and repaired), records repeating a field name, ignored attributes with hostile values.",
     "note": TLC_NOTE + " 'Never a crash' is observed through process exit status (8 MiB stack).",
     "technique": "exhaustive node-vector enumeration by TLC with a TLA+ classification, replayed in child processes; answers trace-validated by TLC"},
    {"property_id": "C11", "level": "model_checking", "design_ref": "DESIGN.md §6 C11",
     "text": "TLC checks on all byte strings (7-byte alphabet, length <= 5) x every first-refill length x {i32,i64,u32,u64} that the buffered reader's "
             "varint fast path / byte-wise fallback and read_slice agree with the slice reader (BufReadModel.tla; the as-found 5-byte fallback cap is "
             "rejected). The real slice and reader entry points are compared on hostile varint strings and on the codec corpus under ALL compositions of "
             "the input into refills (length <= 8/10) and random refills beyond, for datum, single-object and container input (6 codecs, every uniform "
             "refill size).",
     "note": TLC_NOTE + " The verdict on the real code is equality of the two real readers' outcomes.",
     "technique": "TLA+ model of the buffered-read primitives checked by TLC + differential replay of slice vs chunked readers over exhaustive refill partitions"},
    {"property_id": "C12", "level": "model_checking", "design_ref": "DESIGN.md §6 C12",
     "text": "TLC checks that the implementation-shaped skipping semantics (AvroSkip.tla: unvalidated strings, unsigned varints, jumping over sized blocks) "
             "ends exactly where Dec ends for every layout of every enumerated value; the real decoder is run with every sub-tree (two levels) ignored, "
             "followed by sentinel bytes, and must return everything else unchanged and consume exactly the datum; random cases are trace-validated (Trace_Skip).",
     "note": TLC_NOTE,
     "technique": "TLA+ spec (AvroSkip.tla refines AvroBinary.tla) checked by TLC + TLC-generated scenarios replayed with IgnoredAny / unit-variant targets + TLC trace validation"},
    {"property_id": "C20", "level": "exploration", "design_ref": "DESIGN.md §6 C20",
     "text": "TLC checks, for all 5292 shapes of an enumerated scope (root record with two fields over leaves / Option / Vec / map / recursion, a leaf record, "
             "unit enum, newtype structs, a union enum, two instantiations of a generic), that the schema the derive's construction model (Derive!Build) yields "
             "is valid Avro with one definition per fullname, fits the type (Derive!Fits) and lets an empty and a populated value serialize and decode back; the "
             "as-found construction (root not registered) is refuted. Sampled enumerated shapes, a hand-written family set and seeded random type families are "
             "generated as Rust source with #[derive(BuildSchema, Serialize, Deserialize)], compiled against /repo and exercised: TLC validates each derived "
             "node vector (Trace_Derive) and each value's bytes (Trace_Codec / SerAllowed under the derived schema); typed round trips are compared with ==.",
     "note": TLC_NOTE + " rustc / serde_derive are trusted; type families are sampled, not exhaustive.",
     "technique": "TLA+ model of the derive construction + Fits relation checked by TLC; TLC-enumerated and random type shapes compiled to Rust and replayed; derived schemas and serialized values trace-validated by TLC"},
    {"property_id": "C10", "level": "exploration", "design_ref": "DESIGN.md §6 C10",
     "text": "Lifecycle.tla models the ownership design (schema slots: SchemaMut / owned / moved / Arc handles, SerializerConfig borrow scopes, container readers "
             "holding an Arc plus raw node references, node-vector allocations). TLC checks NoDangling / FrozenWhole / Accounting on all histories within the bounds "
             "(563k states quick), refutes two mutated designs, and generates histories: one per (abstract state, incoming operation) at depth 5 (6 thorough) plus "
             "random walks of 16 steps. The safe-Rust interpreter vl executes every history on the real API natively (par_use on real threads vs the same scripts "
             "sequentially; two runs compared) and the highest-scoring + a random sample under Miri (Stacked Borrows; thorough: also Tree Borrows), the oracle for "
             "undefined behaviour: error paths of freeze at three key positions, moves through Box / Vec, Arc handles dropped before / after readers, readers moved "
             "mid-file and dropped in any state, borrowed and owned values used after their schema and reader are gone. Native runs are trace-validated against Lifecycle.tla (Trace_Lifecycle: every operation enabled, freeze as predicted, Arc strong counts = owners in the model). Huge keys on unreachable nodes are swept (freeze must refuse each), and the order in which a reader lets go of its state and of its schema is observed by an input that watches the schema (DropReader1 / DropReader2).",
     "note": TLC_NOTE + " TLC cannot observe undefined behaviour: Miri is the oracle, on null / deflate / snappy codecs only, one thread schedule per seed; the sample "
             "of histories run under Miri is bounded by its speed (about 5 s per history).",
     "technique": "TLA+ ownership model checked by TLC, which also generates API histories; histories replayed by a safe-Rust interpreter natively (threads vs sequential) and under Miri"},
]

_PENDING = "check not built yet in this revision of /verif (see DESIGN.md §10 build order); nothing is claimed"
NOT_APPLICABLE = [{"property_id": f"C{i:02d}", "reason": _PENDING} for i in range(1, 21)
                  if f"C{i:02d}" not in {c["property_id"] for c in CHECKS}]

"""Schema documents: spellings of a schema (as document ASTs for SchemaDesc.tla) and their rendering to JSON text in
varying lexical styles.  Stimulus generation and rendering only: what a document MEANS is decided by TLC (Resolve)."""
import copy
import json

from . import scopes

T = scopes.T


def split_name(full):
    if "." in full:
        ns, short = full.rsplit(".", 1)
        return ns, short
    return "", full


def ABSENT():
    return {"d": "absent"}


def obj(k, **kw):
    o = {"d": "obj", "k": k, "lt": "none", "hasPrec": False, "prec": 0, "hasScale": False, "scale": 0,
         "hasName": False, "name": [], "hasNs": False, "ns": [], "hasItems": False, "items": ABSENT(), "hasValues": False, "values": ABSENT(),
         "hasFields": False, "fields": [], "hasSymbols": False, "symbols": [], "hasSize": False, "size": 0}
    o.update(kw)
    return o


def occurrences(tree, acc=None):
    """names of named types in DFS order of occurrence: ('def', name) / ('ref', name)"""
    acc = [] if acc is None else acc
    if "ref" in tree:
        acc.append(("ref", tree["ref"]))
        return acc
    k = tree["k"]
    if k in ("record", "enum", "fixed"):
        acc.append(("def", tree["name"]))
    if k == "array":
        occurrences(tree["items"], acc)
    elif k == "map":
        occurrences(tree["values"], acc)
    elif k == "union":
        for v in tree["variants"]:
            occurrences(v, acc)
    elif k == "record":
        for f in tree["fields"]:
            occurrences(f["t"], acc)
    return acc


def move_definitions(tree, rng):
    """forward references: for some named types used more than once, put the definition at a later occurrence.
    (Only enum / fixed definitions and records that do not contain named definitions are moved: moving a subtree
    that itself defines types would change which occurrence of THOSE comes first.)"""
    tree = copy.deepcopy(tree)
    occ = occurrences(tree)
    names = {}
    for kind, n in occ:
        names.setdefault(n, []).append(kind)
    movable = [n for n, ks in names.items() if ks[0] == "def" and len(ks) > 1]
    for n in movable:
        if rng.random() < 0.5:
            continue
        holder = {}

        def find_def(t):
            if "ref" in t:
                return
            if t.get("name") == n and t["k"] in ("record", "enum", "fixed"):
                holder["def"] = copy.deepcopy(t)
                return
            for c in children(t):
                find_def(c)
        find_def(tree)
        d = holder.get("def")
        if d is None or any(k == "def" for k, _ in occurrences(d)[1:]) or any(k == "ref" and m == n for k, m in occurrences(d)):
            continue
        state = {"seen_def": False, "placed": False, "count": 0, "target": rng.randrange(1, len(names[n]))}

        def rewrite(t):
            if "ref" in t:
                if t["ref"] == n:
                    state["count"] += 1
                    if state["count"] == state["target"] and not state["placed"]:
                        state["placed"] = True
                        return copy.deepcopy(d)
                return t
            if t.get("name") == n and t["k"] in ("record", "enum", "fixed") and not state["seen_def"]:
                state["seen_def"] = True
                return {"ref": n}
            set_children(t, [rewrite(c) for c in children(t)])
            return t
        tree = rewrite(tree)
    return tree


def children(t):
    k = t.get("k")
    if k == "array":
        return [t["items"]]
    if k == "map":
        return [t["values"]]
    if k == "union":
        return list(t["variants"])
    if k == "record":
        return [f["t"] for f in t["fields"]]
    return []


def set_children(t, cs):
    k = t.get("k")
    if k == "array":
        t["items"] = cs[0]
    elif k == "map":
        t["values"] = cs[0]
    elif k == "union":
        t["variants"] = cs
    elif k == "record":
        for f, c in zip(t["fields"], cs):
            f["t"] = c


def spell(tree, rng, encl="", plain=False):
    """tree (scopes.py style, definitions inline, later uses as {"ref": fullname}) -> document AST"""
    if "ref" in tree:
        ns, short = split_name(tree["ref"])
        if ns == encl and (plain or rng.random() < 0.6):
            return {"d": "ref", "t": T(short)}
        if ns == "":
            return {"d": "ref", "t": T(short if encl == "" else "." + short)}
        return {"d": "ref", "t": T(tree["ref"])}
    k = tree["k"]
    lt = tree.get("lt", "none")
    if k in ("null", "boolean", "int", "long", "float", "double", "bytes", "string"):
        if lt == "none" and (plain or rng.random() < 0.7):
            return {"d": "prim", "k": k}
        o = obj(k, lt=lt)
        if lt == "decimal":
            o.update(hasPrec=True, prec=tree["prec"], hasScale=True, scale=tree["scale"])
            if tree["scale"] == 0 and not plain and rng.random() < 0.5:
                o["hasScale"] = False          # scale is optional and defaults to 0
        return o
    if k == "array":
        return obj("array", lt=lt, hasItems=True, items=spell(tree["items"], rng, encl, plain))
    if k == "map":
        return obj("map", lt=lt, hasValues=True, values=spell(tree["values"], rng, encl, plain))
    if k == "union":
        return {"d": "union", "es": [spell(v, rng, encl, plain) for v in tree["variants"]]}
    ns, short = split_name(tree["name"])
    o = obj(k, lt=lt, hasName=True)
    c = 0.0 if plain else rng.random()
    if ns == encl and c < 0.4:
        o["name"] = T(short)                                   # inherited
    elif ns != "" and c < 0.7:
        o["name"] = T(tree["name"])                            # dotted
        if not plain and rng.random() < 0.3:
            o.update(hasNs=True, ns=T("ignored.because.the.name.is.dotted"))
    else:
        o["name"] = T(short)
        o.update(hasNs=True, ns=T(ns))                         # namespace attribute ("" = null namespace)
    if k == "record":
        o.update(hasFields=True, fields=[{"n": T(f["n"]), "t": spell(f["t"], rng, ns, plain)} for f in tree["fields"]])
    elif k == "enum":
        o.update(hasSymbols=True, symbols=[T(s) for s in tree["symbols"]])
    else:
        o.update(hasSize=True, size=tree["size"])
        if lt == "decimal":
            o.update(hasPrec=True, prec=tree["prec"], hasScale=True, scale=tree["scale"])
    return o


def txt(b):
    return bytes(b).decode("utf8")


def escape_some(text, rng, p_string=0.35):
    """the same JSON document with some characters of some string literals (keys, type names, names, symbols alike) spelled as \\uXXXX escapes:
    a JSON parser hands such strings over as owned, not borrowed, text"""
    import re

    def one(m):
        lit = m.group(0)
        if rng.random() >= p_string or "\\" in lit:
            return lit
        body = lit[1:-1]
        out = []
        for ch in body:
            out.append("\\u%04x" % ord(ch) if (ch.isalnum() or ch in "._-") and rng.random() < 0.4 else ch)
        return '"' + "".join(out) + '"'
    return re.sub(r'"(?:[^"\\]|\\.)*"', one, text)


def render(doc, rng, style):
    """document AST -> JSON text.  style: 0 compact canonical order, 1 shuffled attributes + extras, 2 pretty + extras (1 and 2: some
    strings spelled with unicode escapes)"""
    v = to_py(doc, rng, style)
    if style == 2:
        return escape_some(json.dumps(v, indent=rng.choice([1, 2, "\t"]), ensure_ascii=rng.random() < 0.5), rng)
    if style == 1:
        return escape_some(json.dumps(v, separators=(" ,  ", " : "), ensure_ascii=rng.random() < 0.5), rng)
    return json.dumps(v, separators=(",", ":"))


def to_py(doc, rng, style):
    d = doc["d"]
    if d == "prim":
        return doc["k"]
    if d == "ref":
        return txt(doc["t"])
    if d == "union":
        return [to_py(e, rng, style) for e in doc["es"]]
    items = [("type", doc["k"])]
    if doc["hasName"]:
        items.append(("name", txt(doc["name"])))
    if doc["hasNs"]:
        items.append(("namespace", txt(doc["ns"])))
    if doc["lt"] != "none":
        items.append(("logicalType", doc["lt"]))
    if doc["hasPrec"]:
        items.append(("precision", doc["prec"]))
    if doc["hasScale"]:
        items.append(("scale", doc["scale"]))
    if doc["hasItems"]:
        items.append(("items", to_py(doc["items"], rng, style)))
    if doc["hasValues"]:
        items.append(("values", to_py(doc["values"], rng, style)))
    if doc["hasFields"]:
        fs = []
        for f in doc["fields"]:
            fi = [("name", txt(f["n"])), ("type", to_py(f["t"], rng, style))]
            if style:
                if rng.random() < 0.3:
                    fi.append(("doc", "a field \"doc\" with {braces} and [brackets]"))
                if rng.random() < 0.2:
                    fi.append(("order", "ascending"))
                if rng.random() < 0.2:
                    fi.append(("aliases", ["old_" + txt(f["n"])]))
                rng.shuffle(fi)
            fs.append(dict(fi))
        items.append(("fields", fs))
    if doc["hasSymbols"]:
        items.append(("symbols", [txt(s) for s in doc["symbols"]]))
    if doc["hasSize"]:
        items.append(("size", doc["size"]))
    if style:
        if rng.random() < 0.3:
            items.append(("doc", "some documentation"))
        if doc["k"] in ("record", "enum", "fixed") and rng.random() < 0.2:
            items.append(("aliases", ["a.b.OldName"]))
        if rng.random() < 0.2:
            items.append(("x-custom-attribute", {"nested": [1, 2, {"k": None}]}))
        rng.shuffle(items)
    return dict(items)


def invalidate(doc, rng):
    """one mutation that makes the document invalid (returns (doc, what)) or None if not applicable"""
    doc = copy.deepcopy(doc)
    sites = []

    def walk(d):
        if d["d"] == "ref":
            sites.append(("unknown_ref", d))
            sites.append(("dup_def", d))
        elif d["d"] == "union":
            for e in d["es"]:
                walk(e)
        elif d["d"] == "obj":
            for attr in ("Name", "Fields", "Symbols", "Size", "Items", "Values", "Prec"):
                if d["has" + attr]:
                    sites.append(("drop_" + attr.lower(), d))
            if d["hasItems"]:
                walk(d["items"])
            if d["hasValues"]:
                walk(d["values"])
            if d["hasFields"]:
                if d["hasName"]:
                    sites.append(("self_field", d))
                for f in d["fields"]:
                    walk(f["t"])
    walk(doc)
    if not sites:
        return None
    what, d = rng.choice(sites)
    if what == "unknown_ref":
        d["t"] = d["t"] + T("Nope")
    elif what == "dup_def":
        # a second definition of a name that is referenced (hence defined elsewhere): an enum with the referenced name
        name = d["t"]
        d.clear()
        d.update(obj("enum", hasName=True, name=name, hasSymbols=True, symbols=[T("DUP")]))
    elif what == "self_field":
        d["fields"].append({"n": T("itself"), "t": {"d": "ref", "t": T(txt(d["name"]).rsplit(".", 1)[-1])}})
    else:
        attr = what[5:].capitalize()
        d["has" + attr] = False
    return doc, what

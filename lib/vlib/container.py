"""Container-file helpers shared by C05, C06, C15, C16, C17: scenario construction for the real Writer / Reader,
projection of sinks into Trace_Writer events."""
import itertools
import json

from . import codec as codecmod
from . import common, pyavro, scopes

CODECS = ["null", "deflate", "bzip2", "snappy", "xz", "zstandard"]
SYNC = [(i * 17 + 3) % 256 for i in range(16)]


def T(s):
    return list(s.encode())


def item_schema():
    """record R{a: long, s: string, o: [null, long]}"""
    return scopes.flatten(scopes.rec("ns.Item", [("a", scopes.prim("long")), ("s", scopes.prim("string")),
                                                 ("o", scopes.un(scopes.prim("null"), scopes.prim("long")))]))["nodes"]


def item_value(a, s, o=None):
    return {"t": "rec", "es": [{"t": "long", "v": pyavro.limbs(a)}, {"t": "str", "v": T(s)},
                               {"t": "un", "b": 0, "x": {"t": "null"}} if o is None else
                               {"t": "un", "b": 1, "x": {"t": "long", "v": pyavro.limbs(o)}}]}


def item_pres(G, v, style="rust"):
    return codecmod.canon_pres(G, 1, v, style)


def bad_pres_top():
    """does not match the record at all: fails before any byte is written"""
    return {"p": "str", "v": T("not a record")}


def bad_pres_deep(G):
    """fails at the last field, after the first two have been written into the block buffer"""
    p = item_pres(G, item_value(77, "zzz", 5))
    p["fs"][2][1] = {"p": "some", "x": {"p": "str", "v": T("wrong type")}}
    return p


def writer_cmd(G, codec, approx, ops, meta=None, sink=None, level=None, cid=0):
    cmd = {"op": "writer", "id": cid, "schema": {"nodes": G}, "codec": codec, "approx": approx, "sync": SYNC,
           "meta": meta or [], "ops": ops}
    if sink:
        cmd["sink"] = sink
    if level is not None:
        cmd["level"] = level
    return cmd


def project_session(cmd, obs, si, walk):
    """Trace_Writer events of one writer session (w_build + one w_op per step). `walk` = observation of the harness
    `walk` op on the final sink."""
    events = []
    sink = obs["sink"]
    hlen = obs["build"].get("sink_len", 0)
    # (with "random_sync" the marker is whatever the library generated: the one the header ends with; every block must repeat it)
    events.append({"ev": "w_build", "si": si, "codec": T(cmd["codec"]), "sync": sink[hlen - 16:hlen] if cmd.get("random_sync") and hlen >= 16 else cmd["sync"],
                   "meta": cmd.get("meta", []),
                   "schema_json": obs["schema_json"], "header": sink[:hlen], "res": obs["build"]["res"],
                   "json_nodes": obs.get("schema_json_nodes", [])})
    blocks = walk["blocks"]
    ends = {hlen} | {b["end"] for b in blocks}
    prev = hlen
    for op, st in zip(cmd["ops"], obs["steps"]):
        cur = st.get("sink_len")
        if cur is None:
            cur = prev
        new = [b for b in blocks if b["begin"] >= prev and b["end"] <= cur]
        ev = {"ev": "w_op", "op": "drop" if op["op"] == "drop_panicking" else op["op"], "res": st["res"],
              "blocks": [{"count": b["count"], "size": b["size"], "sync": b["sync"], "raw": b.get("raw", []),
                          "trailer": b.get("trailer", []), "deframe_ok": "deframe_err" not in b} for b in new],
              "aligned": cur in ends and (cur != len(sink) or walk["stop"] == len(sink))}
        ev["hs"] = st["hs"] if isinstance(st.get("hs"), list) else [-1]      # hook state of the writer after the call (absent: writer closed / hooks off)
        if op["op"] == "serialize":
            ev["pres"] = op["pres"]
        if op["op"] == "serialize_all":
            ev["pres_list"] = op["pres_list"]
        if op["op"] == "push":
            ev["bytes"] = op["bytes"]
            ev["n"] = op["n"]
        events.append(ev)
        prev = max(prev, cur)
    return events


def run_writer_sessions(cmds):
    """execute writer commands and walk their final sinks; returns (observations, walks)"""
    obs = common.run_harness(cmds, per_cmd_timeout=60)
    walk_cmds = []
    for c, o in zip(cmds, obs):
        if o.get("res") != "ok" or "sink" not in o:
            walk_cmds.append({"op": "walk", "id": c["id"], "bytes": [], "start": 0, "codec": "null"})
        else:
            walk_cmds.append({"op": "walk", "id": c["id"], "bytes": o["sink"], "start": o["build"].get("sink_len", 0), "codec": c["codec"]})
    walks = common.run_harness(walk_cmds, per_cmd_timeout=60)
    return obs, walks


def op_alphabet(G):
    small = item_pres(G, item_value(1, ""))
    big = item_pres(G, item_value(-300, "xxxxxxxxxx", 9))
    pushed = pyavro.encode(G, 1, item_value(2, "p")) + pyavro.encode(G, 1, item_value(3, "", 4))
    return {
        "s": {"op": "serialize", "pres": small},
        "B": {"op": "serialize", "pres": big},
        "f": {"op": "serialize", "pres": bad_pres_top()},
        "F": {"op": "serialize", "pres": bad_pres_deep(G)},
        "p": {"op": "push", "bytes": pushed, "n": 2},
        "x": {"op": "finish"},
    }


def all_op_sequences(alphabet, maxlen):
    keys = sorted(alphabet)
    for n in range(0, maxlen + 1):
        for seq in itertools.product(keys, repeat=n):
            yield seq

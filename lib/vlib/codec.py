"""Flow A+B for the datum codec: run MC_Codec (TLC checks the specification's own theorems on every
enumerated (schema, value) and prints the scenarios), then helpers to replay them on the implementation."""
import json
import os

from . import common, pyavro, scopes


def gen_codec_scenarios(tier, fuel=None, nshards=None):
    scope = scopes.codec_scope(tier)
    d = common.workdir(f"codec-scope-{os.getpid()}")
    path = os.path.join(d, "scope.ndjson")
    with open(path, "w") as f:
        for s in scope:
            f.write(json.dumps(s, separators=(",", ":")) + "\n")
    fuel = fuel or (2 if tier == "quick" else 3)
    nshards = nshards or common.NCPU
    r = common.run_tlc_sharded("MC_Codec", f"MC_Codec_{tier}.cfg", nshards,
                               env={"VERIF_SCOPE": path, "VERIF_FUEL": fuel},
                               timeout=900 if tier == "quick" else 3000, xmx="3g")
    common.require_tlc_ok(r, "MC_Codec (codec specification self-check and scenario generation)")
    by_sid = {s["sid"]: s for s in scope}
    return r, by_sid


READERS_QUICK = [{"kind": "slice"}, {"kind": "chunks", "sched": [1]}, {"kind": "chunks", "sched": []}]


def readers(tier, n):
    rs = list(READERS_QUICK)
    if tier != "quick":
        rs += [{"kind": "chunks", "sched": [2]}, {"kind": "chunks", "sched": [3, 1, 2]}]
    return rs


def dec_text(be16, scale):
    """the text a decimal (16-byte BE two's complement unscaled, scale) is shown as by a str-visiting target"""
    u = pyavro.from_be16(be16)
    neg, mag = u < 0, str(abs(u))
    if scale > 0:
        mag = mag.rjust(scale + 1, "0")
        mag = mag[:-scale] + "." + mag[-scale:]
    return ("-" if neg else "") + mag


def erase(G, key, v):
    """Projection of a value onto what a self-describing target (hints = "any") is shown: union wrappers vanish,
    enums are their symbol text, fixed is bytes, records are maps keyed by field name, durations are maps of u32,
    decimals are their text."""
    n = G[key - 1]
    e = pyavro.eff(n)
    t = v["t"]
    if t in ("null", "bool", "int", "long", "f32", "f64", "bytes", "str"):
        return v
    if t == "fix":
        return {"t": "bytes", "v": v["v"]}
    if t == "dur":
        b = v["v"]
        parts = [int.from_bytes(bytes(b[i:i + 4]), "little") for i in (0, 4, 8)]
        return {"t": "map", "kv": [[list(name.encode()), {"t": "u32", "v": pyavro.limbs(x)}]
                                   for name, x in zip(("months", "days", "milliseconds"), parts)]}
    if t == "enum":
        return {"t": "str", "v": n["symbols"][v["i"]]}
    if t == "dec":
        return {"t": "str", "v": list(dec_text(v["v"], v["s"]).encode())}
    if t == "arr":
        return {"t": "arr", "es": [erase(G, n["items"], x) for x in v["es"]]}
    if t == "map":
        return {"t": "map", "kv": [[k, erase(G, n["values"], x)] for k, x in v["kv"]]}
    if t == "rec":
        return {"t": "map", "kv": [[f["n"], erase(G, f["t"], x)] for f, x in zip(n["fields"], v["es"])]}
    if t == "un":
        return erase(G, n["variants"][v["b"]], v["x"])
    raise ValueError(t)


HINTS = ["default", "alt", "any", "alt2"]


def expected_for(G, v, hints):
    return erase(G, 1, v) if hints == "any" else v


def write_scope(scope, tag):
    d = common.workdir(f"{tag}-{os.getpid()}")
    path = os.path.join(d, "scope.ndjson")
    with open(path, "w") as f:
        for sc in scope:
            f.write(json.dumps(sc, separators=(",", ":")) + "\n")
    return path


def validate_events(module, cfg, events, scope_path, on_reject, chunk=200, timeout=1500, env=None):
    """Trace-validate `events` (split over parallel JVMs). Every rejected event is reported through
    on_reject(global index) and the remainder of its chunk is still validated. Returns number of traces run."""
    if not events:
        return 0
    e = dict(env or {})
    if scope_path:
        e["VERIF_SCOPE"] = scope_path
    nchunks = min(common.NCPU, max(1, len(events) // chunk))
    chunks = [events[k::nchunks] for k in range(nchunks)]
    idxs = [list(range(len(events)))[k::nchunks] for k in range(nchunks)]
    results = common.validate_traces_parallel(module, cfg, chunks, env=e, timeout=timeout)
    traces = nchunks
    for k, res in enumerate(results):
        rest, rest_idx = chunks[k], idxs[k]
        guard = 0
        while not res["accepted"]:
            fu = res["first_unmatched"]
            if fu is None or fu < 1 or fu > len(rest):
                raise common.ToolError(f"{module}: trace validation failed without a usable reject index:\n" + res["out"][-2500:])
            on_reject(rest_idx[fu - 1])
            rest, rest_idx = rest[fu:], rest_idx[fu:]
            guard += 1
            if not rest or guard > 6:
                break
            res = common.validate_trace(module, cfg, rest, env=e, timeout=timeout)
            traces += 1
    return traces


def binding_check(module, cfg, good_event, corrupt, scope_path, env=None, strict=True):
    """The trace specification must accept the recorded event and reject its corrupted twin; otherwise it is
    vacuous or broken: a tool error, never a verdict."""
    e = dict(env or {})
    if scope_path:
        e["VERIF_SCOPE"] = scope_path
    r1 = common.validate_trace(module, cfg, [good_event], env=e, timeout=300)
    if not r1["accepted"]:
        return None  # the event itself is a violation; reported elsewhere
    r2 = common.validate_trace(module, cfg, [corrupt(good_event)], env=e, timeout=300)
    if r2["accepted"]:
        if not strict:
            return False
        raise common.ToolError(f"{module} accepted a corrupted event: the trace specification is vacuous")
    return True


def binding_check_some(module, cfg, candidates, corrupt, scope_path, env=None, tries=12):
    """like binding_check, over several recorded events: some of them may legitimately lie where the specification is silent
    (`any`), so that their corrupted twin is accepted too; at least one of the first `tries` must be bound"""
    n = 0
    for ev in candidates:
        n += 1
        if binding_check(module, cfg, ev, corrupt, scope_path, env=env, strict=False):
            return
        if n >= tries:
            break
    if n:
        raise common.ToolError(f"{module} accepted the corrupted twins of {n} recorded events: the trace specification is vacuous")


# ---- stimulus generation: canonical presentations of a value (transcription of SerdeModel!Canon, styles "named"/"rust")
TYPE_NAMES = {"null": "Null", "boolean": "Boolean", "int": "Int", "long": "Long", "float": "Float", "double": "Double",
              "bytes": "Bytes", "string": "String", "array": "Array", "map": "Map", "decimal_bytes": "Decimal",
              "bigdecimal": "BigDecimal", "uuid": "Uuid", "date": "Date", "time-millis": "TimeMillis",
              "time-micros": "TimeMicros", "timestamp-millis": "TimestampMillis", "timestamp-micros": "TimestampMicros",
              "duration": "Duration"}


def branch_name(n):
    if n["k"] in ("record", "enum", "fixed") and pyavro.eff(n) != "duration":
        return n["name"]
    return list(TYPE_NAMES.get(pyavro.eff(n), "").encode())


def short_name(full):
    s = bytes(full).decode()
    return list(s.rsplit(".", 1)[-1].encode())


def canon_pres(G, key, v, style="named"):
    n = G[key - 1]
    e = pyavro.eff(n)
    if e == "null":
        return {"p": "unit"}
    if e == "boolean":
        return {"p": "bool", "i": v["i"]}
    if e in pyavro.INT_LIKE:
        return {"p": "i32", "v": v["v"]}
    if e in pyavro.LONG_LIKE:
        return {"p": "i64", "v": v["v"]}
    if e == "float":
        return {"p": "f32", "v": v["v"]}
    if e == "double":
        return {"p": "f64", "v": v["v"]}
    if e in ("bytes", "fixed", "duration"):
        return {"p": "bytes", "v": v["v"]}
    if e in ("string", "uuid"):
        return {"p": "str", "v": v["v"]}
    if e == "enum":
        return {"p": "unit_variant", "name": short_name(n["name"]), "idx": v["i"], "variant": n["symbols"][v["i"]]}
    if e in ("decimal_bytes", "decimal_fixed", "bigdecimal"):
        return {"p": "str", "v": list(dec_text(v["v"], v["s"]).encode())}
    if e == "array":
        return {"p": "seq", "len": len(v["es"]), "es": [canon_pres(G, n["items"], x, style) for x in v["es"]]}
    if e == "map":
        return {"p": "map", "len": len(v["kv"]), "mode": "entry",
                "kv": [[{"p": "str", "v": k}, canon_pres(G, n["values"], x, style)] for k, x in v["kv"]]}
    if e == "record":
        return {"p": "struct", "name": short_name(n["name"]),
                "fs": [[f["n"], canon_pres(G, f["t"], x, style)] for f, x in zip(n["fields"], v["es"])]}
    if e == "union":
        bk = n["variants"][v["b"]]
        bn = G[bk - 1]
        inner = canon_pres(G, bk, v["x"], style)
        nm = branch_name(bn)
        named = inner if not nm else {"p": "newtype_variant", "name": [85], "idx": v["b"], "variant": nm, "x": inner}
        if style == "rust":
            effs = [pyavro.eff(G[k - 1]) for k in n["variants"]]
            if len(effs) == 2 and effs.count("null") == 1:
                return {"p": "none"} if pyavro.eff(bn) == "null" else {"p": "some", "x": inner}
            if pyavro.eff(bn) == "null":
                return {"p": "unit_variant", "name": [85], "idx": v["b"], "variant": list(b"Null")}
        return named
    raise ValueError(e)

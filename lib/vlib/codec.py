"""Flow A+B for the datum codec: run MC_Codec (TLC checks the specification's own theorems on every
enumerated (schema, value) and prints the scenarios), then helpers to replay them on the implementation."""
import json
import os

from . import common, pyavro, scopes


def gen_codec_scenarios(tier, fuel=None, nshards=None):
    scope = scopes.codec_scope(tier)
    d = common.workdir(f"codec-scope-{os.getpid()}")
    path = os.path.join(d, "scope.ndjson")
    with open(path, "w") as f:
        for s in scope:
            f.write(json.dumps(s, separators=(",", ":")) + "\n")
    fuel = fuel or (2 if tier == "quick" else 3)
    nshards = nshards or common.NCPU
    r = common.run_tlc_sharded("MC_Codec", f"MC_Codec_{tier}.cfg", nshards,
                               env={"VERIF_SCOPE": path, "VERIF_FUEL": fuel},
                               timeout=900 if tier == "quick" else 3000, xmx="3g")
    common.require_tlc_ok(r, "MC_Codec (codec specification self-check and scenario generation)")
    by_sid = {s["sid"]: s for s in scope}
    return r, by_sid


READERS_QUICK = [{"kind": "slice"}, {"kind": "chunks", "sched": [1]}, {"kind": "chunks", "sched": []}]


def readers(tier, n):
    rs = list(READERS_QUICK)
    if tier != "quick":
        rs += [{"kind": "chunks", "sched": [2]}, {"kind": "chunks", "sched": [3, 1, 2]}]
    return rs


def dec_text(be16, scale):
    """the text a decimal (16-byte BE two's complement unscaled, scale) is shown as by a str-visiting target"""
    u = pyavro.from_be16(be16)
    neg, mag = u < 0, str(abs(u))
    if scale > 0:
        mag = mag.rjust(scale + 1, "0")
        mag = mag[:-scale] + "." + mag[-scale:]
    return ("-" if neg else "") + mag


def erase(G, key, v):
    """Projection of a value onto what a self-describing target (hints = "any") is shown: union wrappers vanish,
    enums are their symbol text, fixed is bytes, records are maps keyed by field name, durations are maps of u32,
    decimals are their text."""
    n = G[key - 1]
    e = pyavro.eff(n)
    t = v["t"]
    if t in ("null", "bool", "int", "long", "f32", "f64", "bytes", "str"):
        return v
    if t == "fix":
        return {"t": "bytes", "v": v["v"]}
    if t == "dur":
        b = v["v"]
        parts = [int.from_bytes(bytes(b[i:i + 4]), "little") for i in (0, 4, 8)]
        return {"t": "map", "kv": [[list(name.encode()), {"t": "u32", "v": pyavro.limbs(x)}]
                                   for name, x in zip(("months", "days", "milliseconds"), parts)]}
    if t == "enum":
        return {"t": "str", "v": n["symbols"][v["i"]]}
    if t == "dec":
        return {"t": "str", "v": list(dec_text(v["v"], v["s"]).encode())}
    if t == "arr":
        return {"t": "arr", "es": [erase(G, n["items"], x) for x in v["es"]]}
    if t == "map":
        return {"t": "map", "kv": [[k, erase(G, n["values"], x)] for k, x in v["kv"]]}
    if t == "rec":
        return {"t": "map", "kv": [[f["n"], erase(G, f["t"], x)] for f, x in zip(n["fields"], v["es"])]}
    if t == "un":
        return erase(G, n["variants"][v["b"]], v["x"])
    raise ValueError(t)


HINTS = ["default", "alt", "any"]


def expected_for(G, v, hints):
    return erase(G, 1, v) if hints == "any" else v

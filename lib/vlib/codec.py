"""Flow A+B for the datum codec: run MC_Codec (TLC checks the specification's own theorems on every
enumerated (schema, value) and prints the scenarios), then helpers to replay them on the implementation."""
import json
import os

from . import common, scopes


def gen_codec_scenarios(tier, fuel=None, nshards=None):
    scope = scopes.codec_scope(tier)
    d = common.workdir(f"codec-scope-{os.getpid()}")
    path = os.path.join(d, "scope.ndjson")
    with open(path, "w") as f:
        for s in scope:
            f.write(json.dumps(s, separators=(",", ":")) + "\n")
    fuel = fuel or (2 if tier == "quick" else 3)
    nshards = nshards or common.NCPU
    r = common.run_tlc_sharded("MC_Codec", f"MC_Codec_{tier}.cfg", nshards,
                               env={"VERIF_SCOPE": path, "VERIF_FUEL": fuel},
                               timeout=900 if tier == "quick" else 3000, xmx="3g")
    common.require_tlc_ok(r, "MC_Codec (codec specification self-check and scenario generation)")
    by_sid = {s["sid"]: s for s in scope}
    return r, by_sid


READERS_QUICK = [{"kind": "slice"}, {"kind": "chunks", "sched": [1]}, {"kind": "chunks", "sched": []}]


def readers(tier, n):
    rs = list(READERS_QUICK)
    if tier != "quick":
        rs += [{"kind": "chunks", "sched": [2]}, {"kind": "chunks", "sched": [3, 1, 2]}]
    return rs


def strip_ignored(v):
    return v

"""C20 stimulus: families of Rust type definitions (the "supported shapes" of #[derive(BuildSchema)]), their Rust
source, values of each type as Rust expressions, and the serde presentation of each value (the exchange format
of SerdePres / SerdeModel).  Nothing here judges: the shape goes to TLC (Derive.tla: Fits, WellFormed), the
presentation and the produced bytes go to TLC (Trace_Codec: SerAllowed over the *derived* schema).

type expressions (TE):  {"k": prim} for prim in PRIMS, {"k":"bytes"}, {"k":"bytearr","n":N},
  {"k":"opt"|"vec"|"map"|"hmap"|"box"|"rc"|"arc","t":TE}, {"k":"lt","lt":name,"t":TE},
  {"k":"ref","d":defname,"args":[TE..]}, {"k":"param","i":j} (inside a generic definition)
definitions: {"kind":"struct","rust":name,"ns":None|str,"gparams":n,"fields":[{"n":ident,"t":TE}]}
             {"kind":"newtype","rust":name,"ns":..,"t":TE}
             {"kind":"unit_enum","rust":name,"ns":..,"variants":[ident..]}
             {"kind":"union_enum","rust":name,"variants":[{"n":ident,"t":TE|None}]}
"""
import json
import struct

from .pyavro import limbs
from .scopes import T

CRATE = "vd"

INTS = {"i8": (8, True), "i16": (16, True), "i32": (32, True), "i64": (64, True), "u16": (16, False), "u32": (32, False),
        "u64": (63, False), "usize": (63, False)}       # u64 / usize: within the range of the Avro long they map to
PRIM_RUST = {"bool": "bool", "f32": "f32", "f64": "f64", "string": "String", "bytes": "Vec<u8>"}
PRIM_RUST.update({k: k for k in INTS})
AVRO_OF = {"bool": "boolean", "i8": "int", "i16": "int", "i32": "int", "u16": "int", "i64": "long", "u32": "long", "u64": "long",
           "usize": "long", "f32": "float", "f64": "double", "string": "string", "bytes": "bytes"}
TYPE_NAME = {"null": "Null", "boolean": "Boolean", "int": "Int", "long": "Long", "float": "Float", "double": "Double",
             "bytes": "Bytes", "string": "String", "array": "Array", "map": "Map", "uuid": "Uuid", "date": "Date",
             "time-millis": "TimeMillis", "time-micros": "TimeMicros", "timestamp-millis": "TimestampMillis",
             "timestamp-micros": "TimestampMicros"}
LT_BASE = {"uuid": "string", "date": "i32", "time-millis": "i32", "time-micros": "i64", "timestamp-millis": "i64",
           "timestamp-micros": "i64"}
PTRS = {"box": "Box", "rc": "std::rc::Rc", "arc": "std::sync::Arc"}


def P(k):
    return {"k": k}


def opt(t):
    return {"k": "opt", "t": t}


def vec(t):
    return {"k": "vec", "t": t}


def mp(t):
    return {"k": "map", "t": t}


def ptr(kind, t):
    return {"k": kind, "t": t}


def ref(d, *args):
    return {"k": "ref", "d": d, "args": list(args)}


def lt(name, carrier=None):
    """a field with a logical-type attribute; `carrier`: the Rust type actually written for the field when it is not the logical
    type's base (the derive substitutes the base type for the schema whatever the field's type is)"""
    te = {"k": "lt", "lt": name, "t": P(LT_BASE[name])}
    if carrier is not None:
        te["carrier"] = carrier
    return te


def struct_(name, fields, ns=None, gparams=0):
    return {"kind": "struct", "rust": name, "ns": ns, "gparams": gparams, "fields": [{"n": n, "t": t} for n, t in fields]}


def newtype(name, t, ns=None):
    return {"kind": "newtype", "rust": name, "ns": ns, "t": t}


def unit_enum(name, variants, ns=None):
    return {"kind": "unit_enum", "rust": name, "ns": ns, "variants": list(variants)}


def union_enum(name, variants):
    return {"kind": "union_enum", "rust": name, "ns": None, "variants": [{"n": n, "t": t} for n, t in variants]}


# ------------------------------------------------------------------------------------------------ names

def module_ns(fid):
    return f"{CRATE}.gen.f{fid}"


def fullname(fam, d):
    """the documented name of the Avro type a definition produces (without the generic-instantiation suffix)"""
    ns = d.get("ns")
    if ns is None:
        ns = module_ns(fam["id"])
    return (ns + "." if ns else "") + d["rust"]


def defs_by_name(fam):
    return {d["rust"]: d for d in fam["defs"]}


def peel(te):
    while te["k"] in PTRS:
        te = te["t"]
    return te


RENAME_OVERRIDES = {}      # (family id, enum, variant) -> observed branch name (see C20.py, naming pass)


def branch_name(fam, enum_name, variant):
    """the Avro name of the union branch a newtype variant maps to = the serde name the variant must carry"""
    o = RENAME_OVERRIDES.get((fam["id"], enum_name, variant["n"]))
    if o is not None:
        return o
    te = variant["t"]
    if te is None:
        return "Null"
    te = peel(te)
    k = te["k"]
    if k in AVRO_OF:
        return TYPE_NAME[AVRO_OF[k]]
    if k == "vec":
        return "Array"
    if k in ("map", "hmap"):
        return "Map"
    if k == "lt":
        return TYPE_NAME[te["lt"]]
    if k == "bytearr":
        return f"{module_ns(fam['id'])}.{enum_name}.{variant['n']}"
    if k == "ref":
        d = defs_by_name(fam)[te["d"]]
        if d["kind"] == "newtype":
            inner = peel(d["t"])
            if inner["k"] == "bytearr":
                return fullname(fam, d)         # `struct Outer([u8; 2])` is the fixed "ns.Outer"
            return branch_name(fam, enum_name, {"n": variant["n"], "t": inner})
        if d["kind"] in ("struct", "unit_enum"):
            return fullname(fam, d)
        return "Union"
    if k == "opt":
        return "Union"
    raise ValueError(k)


# ------------------------------------------------------------------------------------------------ Rust source

def rust_type(te):
    k = te["k"]
    if k in PRIM_RUST:
        return PRIM_RUST[k]
    if k == "bytearr":
        return f"[u8; {te['n']}]"
    if k == "opt":
        return f"Option<{rust_type(te['t'])}>"
    if k == "vec":
        return f"Vec<{rust_type(te['t'])}>"
    if k == "map":
        return f"BTreeMap<String, {rust_type(te['t'])}>"
    if k == "hmap":
        return f"HashMap<String, {rust_type(te['t'])}>"
    if k in PTRS:
        return f"{PTRS[k]}<{rust_type(te['t'])}>"
    if k == "lt":
        return rust_type(te.get("carrier", te["t"]))
    if k == "param":
        return f"P{te['i']}"
    if k == "bytearrp":
        return f"[u8; P{te['i']}]"
    if k == "const":
        return str(te["n"])
    if k == "ref":
        a = ", ".join(rust_type(x) for x in te["args"])
        return te["d"] + (f"<{a}>" if a else "")
    raise ValueError(k)


def needs_bytes_attr(te):
    te = peel(te)
    if te["k"] == "lt":
        te = peel(te["t"])
    return te["k"] in ("bytes", "bytearr", "bytearrp") or (te["k"] == "opt" and peel(te["t"])["k"] in ("bytes", "bytearr", "bytearrp"))


def field_attrs(te):
    out = []
    if needs_bytes_attr(te):
        out.append('#[serde(with = "serde_bytes")]')
    if te["k"] == "lt":
        out.append(f'#[avro_schema(logical_type = "{te["lt"]}")]')
    return " ".join(out)


DERIVES = "#[derive(BuildSchema, Serialize, Deserialize, PartialEq, Debug, Clone)]"


def rust_def(fam, d):
    head = DERIVES
    if d.get("ns") is not None:
        head += f'\n\t#[avro_schema(namespace = "{d["ns"]}")]'
    if d["kind"] == "struct":
        gp = ", ".join((f"const P{i}: usize" if i in d.get("cparams", ()) else f"P{i}") for i in range(d["gparams"]))
        fs = "".join(f"\t\t{field_attrs(f['t'])} pub {f['n']}: {rust_type(f['t'])},\n" for f in d["fields"])
        return f"\t{head}\n\tpub struct {d['rust']}{'<' + gp + '>' if gp else ''} {{\n{fs}\t}}\n"
    if d["kind"] == "newtype":
        return f"\t{head}\n\tpub struct {d['rust']}({field_attrs(d['t'])} pub {rust_type(d['t'])});\n"
    if d["kind"] == "unit_enum":
        return f"\t{head}\n\tpub enum {d['rust']} {{ {', '.join(d['variants'])} }}\n"
    if d["kind"] == "union_enum":
        vs = ""
        for v in d["variants"]:
            bn = branch_name(fam, d["rust"], v)
            ren = f'#[serde(rename = "{bn}")] ' if bn != v["n"] else ""
            if v["t"] is None:
                vs += f"\t\t{ren}{v['n']},\n"
            else:
                vs += f"\t\t{ren}{v['n']}({field_attrs(v['t'])} {rust_type(v['t'])}),\n"
        return f"\t{head}\n\tpub enum {d['rust']} {{\n{vs}\t}}\n"
    raise ValueError(d["kind"])


def rust_str(s):
    return 'String::from("' + "".join(f"\\u{{{ord(c):x}}}" for c in s) + '")'


def rust_family(fam, values):
    out = [f"pub mod f{fam['id']} {{\n\t#![allow(unused, non_camel_case_types, non_snake_case)]\n\tuse crate::prelude::*;\n"]
    for d in fam["defs"]:
        out.append(rust_def(fam, d))
    out.append(f"\tpub type Root = {rust_type(fam['root'])};\n")
    out.append("\tpub fn values() -> Vec<Box<dyn FnOnce() -> Root>> {\n\t\tvec![\n")
    for expr, _ in values:
        out.append(f"\t\t\tBox::new(|| {expr}),\n")
    out.append("\t\t]\n\t}\n}\n")
    return "".join(out)


def rust_program(fams_values):
    out = ["// generated by /verif/lib/vlib/derivegen.py - do not edit\n"]
    for fam, values in fams_values:
        out.append(rust_family(fam, values))
    out.append("pub fn run_all(only: &dyn Fn(&str) -> bool) {\n")
    for fam, _ in fams_values:
        i = fam["id"]
        out.append(f'\tif only("f{i}") {{ crate::run::<f{i}::Root>("f{i}", f{i}::values); }}\n')
    out.append("}\n")
    return "".join(out)


# ------------------------------------------------------------------------------------------------ values

def subst(te, args):
    k = te["k"]
    if k == "param":
        return args[te["i"]]
    if k == "bytearrp":
        return {"k": "bytearr", "n": args[te["i"]]["n"]}
    if "t" in te and isinstance(te["t"], dict):
        return dict(te, t=subst(te["t"], args))
    if k == "ref":
        return dict(te, args=[subst(a, args) for a in te["args"]])
    return te


def rand_int(rng, bits, signed):
    lo, hi = (-(1 << (bits - 1)), (1 << (bits - 1)) - 1) if signed else (0, (1 << bits) - 1)
    c = rng.random()
    if c < 0.3:
        return rng.choice([lo, hi, 0, 1, min(hi, 127), min(hi, 128), max(lo, -1), max(lo, -64), max(lo, -65), min(hi, 63), min(hi, 64)])
    if c < 0.6:
        return rng.randint(max(lo, -200), min(hi, 200))
    return rng.randint(lo, hi)


def rand_string(rng):
    n = rng.choice([0, 1, 1, 2, 3, 5])
    return "".join(rng.choice(["a", "b", "z", "A", "0", " ", "é", "中", "\U0001F600", "\"", "\\"]) for _ in range(n))


def gen_value(fam, te, rng, depth, args=()):
    """-> (rust expression, presentation)"""
    dn = defs_by_name(fam)
    k = te["k"]
    if k == "param":
        return gen_value(fam, args[te["i"]], rng, depth)
    if k == "bytearrp":
        return gen_value(fam, {"k": "bytearr", "n": args[te["i"]]["n"]}, rng, depth)
    if k == "bool":
        b = rng.random() < 0.5
        return ("true" if b else "false"), {"p": "bool", "i": int(b)}
    if k in INTS:
        bits, signed = INTS[k]
        v = rand_int(rng, bits, signed)
        pk = "u64" if k == "usize" else k
        return f"({v}{k})", {"p": pk, "v": limbs(v)}
    if k == "f32":
        bits = rng.choice([0, 0x3F800000, 0xBF800000, 0x7F800000, 0xFF800000, 0x80000000, 1, rng.getrandbits(32)])
        if (bits & 0x7F800000) == 0x7F800000 and (bits & 0x7FFFFF):
            bits = 0x40490FDB           # no NaN: values are compared with ==
        return f"f32::from_bits({bits:#x})", {"p": "f32", "v": list(struct.pack("<I", bits))}
    if k == "f64":
        bits = rng.choice([0, 0x3FF8000000000000, 0x7FF0000000000000, 0x8000000000000000, 1, rng.getrandbits(64)])
        if (bits & 0x7FF0000000000000) == 0x7FF0000000000000 and (bits & 0xFFFFFFFFFFFFF):
            bits = 0x400921FB54442D18
        return f"f64::from_bits({bits:#x})", {"p": "f64", "v": list(struct.pack("<Q", bits))}
    if k == "string":
        s = rand_string(rng)
        return rust_str(s), {"p": "str", "v": T(s)}
    if k == "bytes":
        b = [rng.choice([0, 1, 127, 128, 255, rng.randint(0, 255)]) for _ in range(rng.choice([0, 1, 2, 4]))]
        return "vec![" + ", ".join(f"{x}u8" for x in b) + "]", {"p": "bytes", "v": b}
    if k == "bytearr":
        b = [rng.choice([0, 255, rng.randint(0, 255)]) for _ in range(te["n"])]
        return "[" + ", ".join(f"{x}u8" for x in b) + "]", {"p": "bytes", "v": b}
    if k == "lt":
        if te["lt"] == "uuid":
            s = "".join(rng.choice("0123456789abcdef") for _ in range(32))
            s = f"{s[:8]}-{s[8:12]}-{s[12:16]}-{s[16:20]}-{s[20:]}"
            return rust_str(s), {"p": "str", "v": T(s)}
        car = te.get("carrier")
        if car is not None:
            # a value of the carrier type within the range of the Avro type the logical type sits on
            blo, bhi = (-(1 << 31), (1 << 31) - 1) if LT_BASE[te["lt"]] == "i32" else (-(1 << 63), (1 << 63) - 1)
            inner = car
            wrap = None
            if car["k"] == "ref":
                wrap = dn[car["d"]]
                inner = wrap["t"]
            bits, signed = INTS[inner["k"]]
            lo, hi = (-(1 << (bits - 1)), (1 << (bits - 1)) - 1) if signed else (0, (1 << bits) - 1)
            lo, hi = max(lo, blo), min(hi, bhi)
            v = rng.choice([lo, hi, 0, min(hi, 1 << 31), min(hi, (1 << 31) - 1), min(hi, (1 << 32) + 5), rng.randint(lo, hi), rng.randint(max(lo, -300), min(hi, 300))])
            e, p = f"({v}{inner['k']})", {"p": "u64" if inner["k"] == "usize" else inner["k"], "v": limbs(v)}
            if wrap is not None:
                return f"{wrap['rust']}({e})", {"p": "newtype_struct", "name": T(wrap["rust"]), "x": p}
            return e, p
        return gen_value(fam, te["t"], rng, depth, args)
    if k == "opt":
        if depth <= 0 or rng.random() < 0.35:
            return "None", {"p": "none"}
        e, p = gen_value(fam, te["t"], rng, depth - 1, args)
        return f"Some({e})", {"p": "some", "x": p}
    if k == "vec":
        n = 0 if depth <= 0 else rng.choice([0, 1, 2, 3])
        items = [gen_value(fam, te["t"], rng, depth - 1, args) for _ in range(n)]
        return "vec![" + ", ".join(e for e, _ in items) + "]", {"p": "seq", "len": n, "es": [p for _, p in items]}
    if k in ("map", "hmap"):
        n = 0 if depth <= 0 else rng.choice([0, 1, 2]) if k == "map" else rng.choice([0, 1])     # HashMap: order is not defined beyond one entry
        keys = sorted({rand_string(rng) for _ in range(n)}, key=lambda s: s.encode("utf8"))
        items = [(kk, gen_value(fam, te["t"], rng, depth - 1, args)) for kk in keys]
        ctor = "BTreeMap" if k == "map" else "HashMap"
        expr = f"{ctor}::from([" + ", ".join(f"({rust_str(kk)}, {e})" for kk, (e, _) in items) + "])"
        return expr, {"p": "map", "len": len(items), "mode": "entry", "kv": [[{"p": "str", "v": T(kk)}, p] for kk, (_, p) in items]}
    if k in PTRS:
        e, p = gen_value(fam, te["t"], rng, depth, args)
        return f"{PTRS[k]}::new({e})", p
    if k == "ref":
        d = dn[te["d"]]
        a = [subst(x, args) if args else x for x in te["args"]]
        if d["kind"] == "struct":
            fs = [(f["n"], gen_value(fam, f["t"], rng, depth - 1, a)) for f in d["fields"]]
            expr = d["rust"] + " { " + ", ".join(f"{n}: {e}" for n, (e, _) in fs) + " }"
            return expr, {"p": "struct", "name": T(d["rust"]), "fs": [[T(n[2:] if n.startswith("r#") else n), p] for n, (_, p) in fs]}
        if d["kind"] == "newtype":
            e, p = gen_value(fam, d["t"], rng, depth, a)
            return f"{d['rust']}({e})", {"p": "newtype_struct", "name": T(d["rust"]), "x": p}
        if d["kind"] == "unit_enum":
            i = rng.randrange(len(d["variants"]))
            return f"{d['rust']}::{d['variants'][i]}", {"p": "unit_variant", "name": T(d["rust"]), "idx": i, "variant": T(d["variants"][i])}
        if d["kind"] == "union_enum":
            cands = list(range(len(d["variants"])))
            if depth <= 0:
                flat = [i for i in cands if d["variants"][i]["t"] is None or peel(d["variants"][i]["t"])["k"] != "ref"]
                cands = flat or cands
            i = rng.choice(cands)
            v = d["variants"][i]
            bn = branch_name(fam, d["rust"], v)
            if v["t"] is None:
                return f"{d['rust']}::{v['n']}", {"p": "unit_variant", "name": T(d["rust"]), "idx": i, "variant": T(bn)}
            e, p = gen_value(fam, v["t"], rng, depth - 1, a)
            return f"{d['rust']}::{v['n']}({e})", {"p": "newtype_variant", "name": T(d["rust"]), "idx": i, "variant": T(bn), "x": p}
    raise ValueError(k)


# ------------------------------------------------------------------------------------------------ shape for TLC

def mono(fam):
    """monomorphise: every (definition, closed arguments) instance reachable from the root becomes one entry.
    -> (defs for TLA+ (1-based refs), root TE)"""
    dn = defs_by_name(fam)
    index = {}
    out = []

    def conv(te, args):
        k = te["k"]
        if k == "param":
            return conv(args[te["i"]], ())
        if k in PTRS:
            return conv(te["t"], args)          # pointers are transparent
        if k in ("opt", "vec", "map", "hmap"):
            return {"k": "map" if k == "hmap" else k, "t": conv(te["t"], args)}
        if k == "lt":
            return {"k": "lt", "lt": te["lt"], "t": conv(te["t"], args)}
        if k == "bytearr":
            return {"k": "bytearr", "n": te["n"]}
        if k == "bytearrp":
            return {"k": "bytearr", "n": args[te["i"]]["n"]}
        if k == "ref":
            a = [subst(x, args) if args else x for x in te["args"]]
            key = json.dumps([te["d"], a], sort_keys=True)
            if key not in index:
                index[key] = len(out) + 1
                out.append(None)
                d = dn[te["d"]]
                e = {"kind": d["kind"], "rust": T(d["rust"]), "full": T(fullname(fam, d)), "generic": bool(d.get("gparams"))}
                if d["kind"] == "struct":
                    e["fields"] = [{"n": T(f["n"][2:] if f["n"].startswith("r#") else f["n"]), "t": conv(f["t"], a)} for f in d["fields"]]
                elif d["kind"] == "newtype":
                    e["t"] = conv(d["t"], a)
                elif d["kind"] == "unit_enum":
                    e["variants"] = [T(v) for v in d["variants"]]
                else:
                    e["variants"] = [{"unit": v["t"] is None, "serde": T(branch_name(fam, d["rust"], v)),
                                      "t": conv(v["t"], a) if v["t"] is not None else {"k": "unit"}} for v in d["variants"]]
                out[index[key] - 1] = e
            return {"k": "ref", "i": index[key]}
        return {"k": k}

    root = conv(fam["root"], ())
    return out, root


# ------------------------------------------------------------------------------------------------ families

def hand_families():
    fams = []

    def add(defs, root, cls="plain", note=""):
        fams.append({"id": len(fams), "defs": defs, "root": root, "cls": cls, "note": note})

    allprims = [("a", P("bool")), ("b", P("i8")), ("c", P("i16")), ("d", P("i32")), ("e", P("i64")), ("f", P("u16")), ("g", P("u32")),
                ("h", P("u64")), ("i", P("usize")), ("j", P("f32")), ("k", P("f64")), ("l", P("string")), ("m", P("bytes")),
                ("n", {"k": "bytearr", "n": 3}), ("r#type", P("i32"))]
    add([struct_("Prims", allprims)], ref("Prims"), note="every primitive field type, a raw identifier")
    add([struct_("Tree", [("v", P("i32")), ("kids", vec(ref("Tree")))])], ref("Tree"), note="directly recursive root through Vec")
    add([struct_("List", [("v", P("i64")), ("next", opt(ptr("box", ref("List"))))])], ref("List"), note="directly recursive root through Option<Box>")
    add([struct_("Node", [("m", mp(ref("Node"))), ("s", P("string"))])], ref("Node"), note="recursion through a map")
    add([struct_("Tree", [("v", P("i32")), ("kids", vec(ref("Tree")))]), struct_("Wrap", [("t", ref("Tree")), ("u", ref("Tree"))])], ref("Wrap"),
        note="recursive type nested under a root, used twice")
    add([struct_("Leaf", [("x", P("i32"))]), struct_("Top", [("a", ref("Leaf")), ("b", ref("Leaf")), ("c", vec(ref("Leaf"))), ("d", opt(ref("Leaf")))])],
        ref("Top"), note="shared sub-type")
    add([unit_enum("Color", ["Red", "Green", "Blue"]), struct_("Pix", [("c", ref("Color")), ("d", ref("Color")), ("o", opt(ref("Color")))])], ref("Pix"),
        note="unit enum shared")
    add([struct_("Rec", [("x", P("i32"))]), unit_enum("Color", ["Red", "Green"]),
         union_enum("U", [("Null", None), ("Int", P("i32")), ("String", P("string")), ("Rec", ref("Rec")), ("Color", ref("Color")),
                          ("Array", vec(P("i64"))), ("Map", mp(P("string")))]),
         struct_("Top", [("u", ref("U")), ("v", vec(ref("U")))])], ref("Top"), note="7-branch union enum")
    add([struct_("Rec", [("x", P("i32"))]),
         union_enum("U", [("Boolean", P("bool")), ("Long", P("i64")), ("Float", P("f32")), ("Double", P("f64")), ("Bytes", P("bytes")),
                          ("V4", {"k": "bytearr", "n": 4}), ("V6", {"k": "bytearr", "n": 6}), ("Rec", ptr("box", ref("Rec")))])],
        ref("U"), note="union enum as root, fixed variants named after enum and variant, boxed record variant")
    add([newtype("Outer", {"k": "bytearr", "n": 2}), union_enum("U", [("A", P("i32")), ("Outer", ref("Outer"))]),
         struct_("Top", [("u", ref("U")), ("o", ref("Outer"))])], ref("Top"), note="newtype over a byte array is a named fixed")
    add([newtype("Meters", P("i32")), newtype("Name", P("string")), newtype("Blob", P("bytes")),
         struct_("Top", [("m", ref("Meters")), ("n", ref("Name")), ("b", ref("Blob")), ("ms", vec(ref("Meters")))])], ref("Top"),
        note="newtype structs as fields")
    add([newtype("Meters", P("i64"))], ref("Meters"), note="newtype struct as root")
    add([struct_("G", [("a", {"k": "param", "i": 0}), ("n", P("i32"))], gparams=1),
         struct_("Top", [("x", ref("G", P("i32"))), ("y", ref("G", P("string"))), ("z", ref("G", P("i32"))), ("w", ref("G", vec(P("i32"))))])],
        ref("Top"), note="generic record instantiated at three types, one of them twice")
    add([struct_("G", [("a", {"k": "param", "i": 0}), ("b", {"k": "param", "i": 1})], gparams=2), struct_("L", [("x", P("i32"))]),
         struct_("Top", [("x", ref("G", P("i32"), P("string"))), ("y", ref("G", P("string"), P("i32"))), ("z", ref("G", ref("L"), opt(ref("L"))))])],
        ref("Top"), note="two-parameter generic, swapped instantiations")
    add([struct_("G", [("a", {"k": "param", "i": 0})], gparams=1)], ref("G", ref("G", P("i32"))), note="generic instantiated at itself, generic root")
    add([struct_("Bag", [("items", vec({"k": "param", "i": 0})), ("first", opt({"k": "param", "i": 0})), ("by_name", mp({"k": "param", "i": 0}))], gparams=1),
         struct_("Pt", [("x", P("i32"))]),
         struct_("Top", [("a", ref("Bag", P("i32"))), ("b", ref("Bag", P("string"))), ("c", ref("Bag", ref("Pt"))), ("d", ref("Bag", P("i32")))])], ref("Top"),
        note="generic record whose parameter only appears nested (Vec<T>, Option<T>, map of T), instantiated at three types")
    dur = {"k": "lt", "lt": "duration", "t": {"k": "bytearr", "n": 12}}
    add([struct_("Lease", [("holder", {"k": "param", "i": 0}), ("term", dur)], gparams=1),
         struct_("Top", [("a", ref("Lease", P("i32"))), ("b", ref("Lease", P("string"))), ("c", ref("Lease", P("i32"))), ("plain", dur)])], ref("Top"),
        note="generic record owning a named logical-type node (duration over a 12-byte fixed), instantiated at two types")
    # logical-type attributes on fields whose Rust type is NOT the logical type's base: the schema is the base's all the same
    add([newtype("Micros", P("i64")), newtype("Days", P("u16")),
         struct_("LtCarried", [("a", lt("time-micros", P("u64"))), ("b", lt("timestamp-millis", ref("Micros"))), ("c", lt("date", ref("Days"))),
                               ("d", lt("time-millis", P("u32"))), ("e", lt("timestamp-micros", P("u32"))), ("f", lt("time-micros", ref("Micros"))),
                               ("g", lt("timestamp-micros", P("usize"))), ("h", lt("date", P("i16")))])],
        ref("LtCarried"), note="logical-type attributes over other integer types and newtypes")
    # const generics: two instantiations are two types (two fullnames)
    dg = struct_("Digest", [("bytes", {"k": "bytearrp", "i": 0}), ("tag", P("i32"))], gparams=1)
    dg["cparams"] = [0]
    add([dg, struct_("TopC", [("a", ref("Digest", {"k": "const", "n": 4})), ("b", ref("Digest", {"k": "const", "n": 8})),
                              ("c", vec(ref("Digest", {"k": "const", "n": 4})))])], ref("TopC"), note="const-generic struct instantiated at two constants")
    bt = struct_("Both", [("x", {"k": "param", "i": 0}), ("bytes", {"k": "bytearrp", "i": 1})], gparams=2)
    bt["cparams"] = [1]
    add([bt, struct_("TopB", [("a", ref("Both", P("i32"), {"k": "const", "n": 2})), ("b", ref("Both", P("i32"), {"k": "const", "n": 3})),
                              ("c", ref("Both", P("string"), {"k": "const", "n": 2}))])], ref("TopB"), note="type and const parameters mixed")
    add([struct_("Lt", [("u", lt("uuid")), ("d", lt("date")), ("tm", lt("time-millis")), ("tu", lt("time-micros")), ("sm", lt("timestamp-millis")),
                        ("su", lt("timestamp-micros"))])], ref("Lt"), note="logical-type attributes")
    add([struct_("A", [("x", P("i32"))], ns="my.ns"), struct_("B", [("a", ref("A")), ("y", P("i32"))], ns=""), unit_enum("E", ["X", "Y"], ns="other"),
         union_enum("U", [("A", ref("A")), ("B", ref("B")), ("E", ref("E"))]), struct_("Top", [("a", ref("A")), ("b", ref("B")), ("e", ref("E")), ("u", ref("U"))])],
        ref("Top"), note="namespace overrides")
    add([struct_("In", [("x", P("i32"))]), struct_("Ptrs", [("a", ptr("box", ref("In"))), ("b", ptr("rc", ref("In"))), ("c", ptr("arc", ref("In"))),
                                                            ("d", ptr("box", P("string"))), ("e", vec(ptr("box", ref("In")))), ("f", opt(ptr("arc", P("i64"))))])],
        ref("Ptrs"), note="Box / Rc / Arc")
    add([struct_("M", [("m", {"k": "hmap", "t": P("i32")}), ("n", mp(vec(P("string")))), ("o", opt(mp(P("bool")))), ("p", mp(mp(P("i32"))))])], ref("M"),
        note="maps with string keys")
    add([struct_("In", [("x", P("i32"))])], vec(ref("In")), note="collection as root")
    add([struct_("In", [("x", P("i32"))])], opt(ref("In")), note="option as root")
    add([struct_("In", [("x", P("i32"))])], mp(vec(opt(ref("In")))), note="map of arrays of options as root")
    add([unit_enum("Color", ["Red", "Green"])], ref("Color"), note="unit enum as root")
    add([struct_("E0", [])], ref("E0"), note="record without fields")
    add([struct_("In", [("b", opt(P("bytes"))), ("c", opt({"k": "bytearr", "n": 2}))])], ref("In"), note="optional bytes / byte array")
    add([struct_("A", [("bs", vec(ref("B")))]), struct_("B", [("a", opt(ptr("box", ref("A")))), ("n", P("i32"))])], ref("A"), note="mutual recursion")
    # union directly inside a union (not valid Avro): separate class
    add([struct_("S", [("o", opt(opt(P("i32"))))])], ref("S"), cls="union_in_union", note="Option<Option<_>>")
    add([union_enum("U", [("Int", P("i32")), ("String", P("string"))]), struct_("S", [("o", opt(ref("U")))])], ref("S"), cls="union_in_union",
        note="Option<union enum>")
    add([union_enum("U", [("Int", P("i32")), ("Union", opt(P("string")))])], ref("U"), cls="union_in_union", note="union enum variant holding an Option")
    return fams


def random_family(rng, fid):
    """random tree of the supported shapes with sharing, recursion and a generic instantiated twice"""
    defs = []
    names = iter(f"T{i}" for i in range(100))
    leaf_prims = ["bool", "i8", "i16", "i32", "i64", "u16", "u32", "u64", "f32", "f64", "string"]
    made = {"struct": [], "unit_enum": [], "newtype": [], "union_enum": [], "generic": []}

    def te(depth, in_union=False, allow_bytes=True):
        c = rng.random()
        if depth <= 0 or c < 0.35:
            c2 = rng.random()
            if c2 < 0.1 and allow_bytes:
                return rng.choice([P("bytes"), {"k": "bytearr", "n": rng.choice([1, 2, 5, 16])}])
            if c2 < 0.17 and allow_bytes:
                return lt(rng.choice(list(LT_BASE)))
            return P(rng.choice(leaf_prims))
        if c < 0.45 and not in_union:
            return opt(te(depth - 1, in_union=True, allow_bytes=False))
        if c < 0.55:
            return vec(te(depth - 1, allow_bytes=False))
        if c < 0.62:
            return mp(te(depth - 1, allow_bytes=False))
        if c < 0.68:
            return ptr(rng.choice(list(PTRS)), te(depth - 1, in_union, allow_bytes=False))
        if c < 0.80 and (made["struct"] or made["unit_enum"] or made["newtype"]):
            pool = made["struct"] + made["unit_enum"] + made["newtype"]
            return ref(rng.choice(pool))        # sharing
        if c < 0.86 and made["generic"]:
            g = rng.choice(made["generic"])
            return ref(g, te(0, allow_bytes=False))
        if c < 0.93 and not in_union:
            return ref(new_def(depth - 1, want=rng.choice(["union_enum", "struct"])))
        return ref(new_def(depth - 1, want=rng.choice(["struct", "struct", "unit_enum", "newtype", "generic"])), *([] if True else []))

    def new_def(depth, want):
        name = next(names)
        if want == "generic":
            d = struct_(name, [("g", {"k": "param", "i": 0}), ("n", te(0))], gparams=1)
            defs.append(d)
            made["generic"].append(name)
            # instantiate it twice at different types inside a carrier record
            carrier = next(names)
            defs.append(struct_(carrier, [("x", ref(name, P("i32"))), ("y", ref(name, P("string"))), ("z", ref(name, P("i32")))]))
            made["struct"].append(carrier)
            return carrier
        if want == "unit_enum":
            d = unit_enum(name, rng.sample(["A", "B", "C", "D"], rng.randint(1, 4)))
            defs.append(d)
            made["unit_enum"].append(name)
            return name
        if want == "newtype":
            d = newtype(name, None)
            defs.append(d)
            d["t"] = te(min(depth, 1))
            made["newtype"].append(name)
            return name
        if want == "union_enum":
            d = union_enum(name, [])
            defs.append(d)
            pool = [("Null", None), ("Boolean", P("bool")), ("Int", P(rng.choice(["i32", "i16", "u16"]))), ("Long", P(rng.choice(["i64", "u32"]))),
                    ("Float", P("f32")), ("Double", P("f64")), ("String", P("string")), ("Bytes", P("bytes")),
                    ("Array", vec(te(depth - 1, allow_bytes=False))), ("Map", mp(te(depth - 1, allow_bytes=False))), ("Fx", {"k": "bytearr", "n": rng.choice([1, 4])})]
            vs = rng.sample(pool, rng.randint(1, 5))
            for nm in made["struct"][:2] + made["unit_enum"][:1]:
                if rng.random() < 0.5:
                    vs.append((nm, ptr("box", ref(nm)) if rng.random() < 0.3 else ref(nm)))
            if depth > 0 and rng.random() < 0.5:
                s = new_def(depth - 1, "struct")
                vs.append((s, ref(s)))
            rng.shuffle(vs)
            d["variants"] = [{"n": n, "t": t} for n, t in vs]
            made["union_enum"].append(name)
            return name
        d = struct_(name, [], ns=rng.choice([None, None, None, "", "my.ns"]))
        defs.append(d)
        nf = rng.randint(0, 4) if depth > 0 else rng.randint(1, 2)
        fields = [(f"f{i}", te(depth)) for i in range(nf)]
        if rng.random() < 0.3:
            kind = rng.choice(["vec", "optbox", "map"])
            self_ref = {"vec": vec(ref(name)), "optbox": opt(ptr("box", ref(name))), "map": mp(ref(name))}[kind]
            fields.append(("rec", self_ref))
        d["fields"] = [{"n": n, "t": t} for n, t in fields]
        made["struct"].append(name)
        return name

    rootname = new_def(3, "struct")
    root = ref(rootname)
    c = rng.random()
    if c < 0.1:
        root = vec(root)
    elif c < 0.15:
        root = opt(root)
    fam = {"id": fid, "defs": defs, "root": root, "cls": "plain", "note": "random"}
    if has_union_in_union(fam):
        # e.g. Option<N> where N is a newtype struct over an enum of newtype variants: the derived schema nests unions (D12)
        fam["cls"] = "union_in_union"
        fam["note"] = "random (a union directly inside a union, through a newtype struct / pointer)"
    return fam


def produces_union(fam, te, seen=()):
    """does the type derive to a union node (Option, an enum of newtype variants, or a newtype struct / pointer around one)?"""
    te = peel(te)
    if te["k"] == "opt":
        return True
    if te["k"] == "ref":
        d = defs_by_name(fam)[te["d"]]
        if d["kind"] == "union_enum":
            return True
        if d["kind"] == "newtype" and d["rust"] not in seen:
            return produces_union(fam, d["t"], seen + (d["rust"],))
    return False


def has_union_in_union(fam):
    found = []

    def walk(te):
        k = te["k"]
        if k == "opt" and produces_union(fam, te["t"]):
            found.append(te)
        if "t" in te and isinstance(te["t"], dict):
            walk(te["t"])
        if k == "ref":
            for a in te["args"]:
                walk(a)
    walk(fam["root"])
    for d in fam["defs"]:
        for f in d.get("fields", []):
            walk(f["t"])
        if d["kind"] == "newtype":
            walk(d["t"])
        if d["kind"] == "union_enum":
            for v in d["variants"]:
                if v["t"] is not None:
                    if produces_union(fam, v["t"]):
                        found.append(v["t"])
                    walk(v["t"])
    return bool(found)


# ------------------------------------------------------------------------------------------------ TLC-enumerated shapes

def family_from_scenario(s):
    """MC_Derive scenario {x, y, root (monomorphic TEs over the fixed definitions R L E N U F G<i32> G<String>)} -> family"""
    top = False

    def te(t):
        k = t["k"]
        if k == "ref":
            return [None, ref("R"), ref("L"), ref("E"), ref("N"), ref("U"), ref("F"), ref("G", P("i32")), ref("G", P("string"))][t["i"]]
        if k in ("opt", "vec", "map"):
            inner = te(t["t"])
            if k == "opt" and t["t"]["k"] == "ref" and t["t"]["i"] == 1 and not top:
                inner = ptr("box", inner)           # Option<Box<R>> inside R
            return {"k": k, "t": inner}
        return {"k": k}
    x, y = te(s["x"]), te(s["y"])
    top = True
    root = te(s["root"])
    alld = [struct_("R", [("a", x), ("b", y)]), struct_("L", [("x", P("i32"))]), unit_enum("E", ["A", "B"]), newtype("N", P("i32")),
            union_enum("U", [("Null", None), ("Int", P("i32")), ("L", ref("L"))]), newtype("F", {"k": "bytearr", "n": 2}),
            struct_("G", [("g", {"k": "param", "i": 0})], gparams=1)]
    used = set()

    def walk(t):
        if t["k"] == "ref":
            if t["d"] not in used:
                used.add(t["d"])
                d = [d for d in alld if d["rust"] == t["d"]][0]
                for f in d.get("fields", []):
                    walk(f["t"])
                for v in d.get("variants", []) if d["kind"] == "union_enum" else []:
                    if v["t"] is not None:
                        walk(v["t"])
                if d["kind"] == "newtype":
                    walk(d["t"])
            for a in t["args"]:
                walk(a)
        elif "t" in t and isinstance(t["t"], dict):
            walk(t["t"])
    walk(root)
    return {"id": -1, "defs": [d for d in alld if d["rust"] in used], "root": root, "cls": "plain", "note": "TLC-enumerated shape", "model_nodes": s["nodes"]}


def normalise_names(nodes):
    """node vector with every fullname replaced by the index of its first occurrence (comparison up to renaming)"""
    seen = {}
    out = []
    for n in nodes:
        n = dict(n)
        if "name" in n:
            key = bytes(n["name"]).decode()
            n["name"] = seen.setdefault(key, len(seen))
        out.append(n)
    return out

"""Stimulus generation only: random schemas, random values, and an encoder with random block layouts.
Nothing here judges the implementation: every byte string produced is handed to TLC, whose `Dec`
(AvroBinary.tla) decides what it denotes and what the implementation must answer."""
from . import scopes

MASK64 = (1 << 64) - 1


def limbs(x):
    u = x & MASK64
    return [u & 0xFFFF, (u >> 16) & 0xFFFF, (u >> 32) & 0xFFFF, (u >> 48) & 0xFFFF]


def unlimbs(l):
    u = l[0] | (l[1] << 16) | (l[2] << 32) | (l[3] << 48)
    return u - (1 << 64) if u >= (1 << 63) else u


def zigzag(n):
    return ((n << 1) ^ (n >> 63)) & MASK64


def varint(u):
    out = []
    while u >= 0x80:
        out.append((u & 0x7F) | 0x80)
        u >>= 7
    out.append(u)
    return out


def enc_long(n):
    return varint(zigzag(n))


def eff(n):
    lt, k = n.get("lt", "none"), n["k"]
    table = {("decimal", "bytes"): "decimal_bytes", ("decimal", "fixed"): "decimal_fixed",
             ("big-decimal", "bytes"): "bigdecimal", ("uuid", "string"): "uuid", ("date", "int"): "date",
             ("time-millis", "int"): "time-millis", ("time-micros", "long"): "time-micros",
             ("timestamp-millis", "long"): "timestamp-millis", ("timestamp-micros", "long"): "timestamp-micros"}
    if (lt, k) in table:
        return table[(lt, k)]
    if lt == "duration" and k == "fixed" and n.get("size") == 12:
        return "duration"
    return k


INT_LIKE = {"int", "date", "time-millis"}
LONG_LIKE = {"long", "time-micros", "timestamp-millis", "timestamp-micros"}


def be16(x):
    return list((x & ((1 << 128) - 1)).to_bytes(16, "big"))


def from_be16(b):
    u = int.from_bytes(bytes(b), "big")
    return u - (1 << 128) if u >= (1 << 127) else u


def trim_be(b):
    b = list(b)
    while len(b) > 1 and ((b[0] == 0 and b[1] < 128) or (b[0] == 255 and b[1] >= 128)):
        b = b[1:]
    return b


def rand_text(rng, maxlen=6):
    alphabet = ["a", "b", "z", "A", "0", "_", " ", "é", "€", "😀", "\u0000", "\n", '"']
    return list("".join(rng.choice(alphabet) for _ in range(rng.randrange(0, maxlen + 1))).encode("utf8"))


def rand_int(rng, bits):
    lo, hi = -(1 << (bits - 1)), (1 << (bits - 1)) - 1
    c = rng.random()
    if c < 0.3:
        return rng.choice([0, 1, -1, 63, 64, -64, -65, 8191, 8192, -8192, -8193, lo, hi, lo + 1, hi - 1])
    if c < 0.6:
        return rng.randrange(-200, 200)
    sh = rng.randrange(1, bits)
    return max(lo, min(hi, rng.randrange(-(1 << sh), 1 << sh)))


_HEIGHTS = {}


def heights(G):
    """per node: the least nesting a value of that node needs (arrays / maps can be empty; a union takes its best branch)"""
    key = id(G)
    if key in _HEIGHTS and _HEIGHTS[key][0] is G:
        return _HEIGHTS[key][1]
    INF = 10 ** 9
    h = [INF] * len(G)
    changed = True
    while changed:
        changed = False
        for i, n in enumerate(G):
            e = eff(n)
            if e in ("array", "map"):
                v = 0
            elif e == "record":
                v = 1 + max([h[f["t"] - 1] for f in n["fields"]], default=0)
            elif e == "union":
                v = 1 + min(h[k - 1] for k in n["variants"])
            elif e == "enum" and not n.get("symbols"):
                v = INF                 # an enum without symbols has no value
            else:
                v = 0
            v = min(v, INF)
            if v < h[i]:
                h[i] = v
                changed = True
    _HEIGHTS[key] = (G, h)
    return h


def random_value(rng, G, key, depth, size=3):
    """random conforming value of node `key` (1-based) in the exchange format"""
    n = G[key - 1]
    e = eff(n)
    if e == "null":
        return {"t": "null"}
    if e == "boolean":
        return {"t": "bool", "i": rng.randrange(2)}
    if e in INT_LIKE:
        return {"t": "int", "v": limbs(rand_int(rng, 32))}
    if e in LONG_LIKE:
        return {"t": "long", "v": limbs(rand_int(rng, 64))}
    if e == "float":
        return {"t": "f32", "v": [rng.randrange(256) for _ in range(4)] if rng.random() < 0.7 else rng.choice(
            [[0, 0, 0, 0], [0, 0, 0, 128], [0, 0, 128, 127], [1, 0, 128, 127], [0, 0, 192, 255]])}
    if e == "double":
        return {"t": "f64", "v": [rng.randrange(256) for _ in range(8)] if rng.random() < 0.7 else rng.choice(
            [[0] * 8, [0] * 7 + [128], [0] * 6 + [240, 127], [1] + [0] * 5 + [240, 127]])}
    if e == "bytes":
        return {"t": "bytes", "v": [rng.randrange(256) for _ in range(rng.randrange(0, 2 * size + 1))]}
    if e == "string":
        return {"t": "str", "v": rand_text(rng, 2 * size)}
    if e == "uuid":
        return {"t": "str", "v": list("".join(rng.choice("0123456789abcdef") if c == "x" else c
                                              for c in "xxxxxxxx-xxxx-xxxx-xxxx-xxxxxxxxxxxx").encode())}
    if e == "fixed":
        return {"t": "fix", "v": [rng.randrange(256) for _ in range(n["size"])]}
    if e == "duration":
        return {"t": "dur", "v": [rng.randrange(256) for _ in range(12)]}
    if e == "enum":
        return {"t": "enum", "i": rng.randrange(len(n["symbols"]))}
    if e in ("decimal_bytes", "decimal_fixed", "bigdecimal"):
        maxbytes = n["size"] if e == "decimal_fixed" else 12
        bits = min(96, 8 * maxbytes)
        x = rand_int(rng, bits) if bits >= 2 else 0
        if abs(x) >= (1 << 96):
            x = 0
        scale = n["scale"] if e != "bigdecimal" else rng.choice([0, 0, 1, 2, 5, 28])
        return {"t": "dec", "v": be16(x), "s": scale}
    if e == "array":
        cnt = 0 if depth <= 0 or heights(G)[n["items"] - 1] >= 10 ** 9 else rng.choice([0, 1, 1, 2, 3, size, 2 * size])
        return {"t": "arr", "es": [random_value(rng, G, n["items"], depth - 1, size) for _ in range(cnt)]}
    if e == "map":
        cnt = 0 if depth <= 0 or heights(G)[n["values"] - 1] >= 10 ** 9 else rng.choice([0, 1, 2, size])
        keys = []
        while len(keys) < cnt:
            k = rand_text(rng, 4)
            if k not in keys:
                keys.append(k)
        return {"t": "map", "kv": [[k, random_value(rng, G, n["values"], depth - 1, size)] for k in keys]}
    if e == "record":
        return {"t": "rec", "es": [random_value(rng, G, f["t"], depth - 1, size) for f in n["fields"]]}
    if e == "union":
        h0 = heights(G)
        cands = [i for i in range(len(n["variants"])) if h0[n["variants"][i] - 1] < 10 ** 9]
        if not cands:
            raise ValueError("uninhabited type: no finite value conforms")
        if depth <= 0:
            # out of depth budget: take a branch that terminates soonest (recursive schemas whose unions have no leaf branch)
            h = heights(G)
            best = min(h[n["variants"][i] - 1] for i in cands)
            cands = [i for i in cands if h[n["variants"][i] - 1] == best]
        b = rng.choice(cands)
        return {"t": "un", "b": b, "x": random_value(rng, G, n["variants"][b], depth - 1, size)}
    raise ValueError(e)


def encode(G, key, v, rng=None):
    """encoder with random block layouts when rng is given (canonical single positive block otherwise)"""
    n = G[key - 1]
    e = eff(n)
    if e == "null":
        return []
    if e == "boolean":
        return [v["i"]]
    if e in INT_LIKE or e in LONG_LIKE:
        return enc_long(unlimbs(v["v"]))
    if e in ("float", "double", "fixed", "duration"):
        return list(v["v"])
    if e in ("bytes", "string", "uuid"):
        return enc_long(len(v["v"])) + list(v["v"])
    if e == "enum":
        return enc_long(v["i"])
    if e == "decimal_bytes":
        t = trim_be(v["v"])
        return enc_long(len(t)) + t
    if e == "decimal_fixed":
        t = trim_be(v["v"])
        fill = 255 if t[0] >= 128 else 0
        return [fill] * (n["size"] - len(t)) + t
    if e == "bigdecimal":
        t = trim_be(v["v"])
        inner = enc_long(len(t)) + t + enc_long(v["s"])
        return enc_long(len(inner)) + inner
    if e in ("array", "map"):
        if e == "array":
            items = [encode(G, n["items"], x, rng) for x in v["es"]]
        else:
            items = [enc_long(len(k)) + list(k) + encode(G, n["values"], x, rng) for k, x in v["kv"]]
        out = []
        i = 0
        while i < len(items):
            if rng is None:
                c, neg = len(items), False
            else:
                c = rng.randrange(1, len(items) - i + 1) if rng.random() < 0.6 else len(items) - i
                neg = rng.random() < 0.4
            body = [b for it in items[i:i + c] for b in it]
            out += (enc_long(-c) + enc_long(len(body))) if neg else enc_long(c)
            out += body
            i += c
        return out + [0]
    if e == "record":
        return [b for f, x in zip(n["fields"], v["es"]) for b in encode(G, f["t"], x, rng)]
    if e == "union":
        return enc_long(v["b"]) + encode(G, n["variants"][v["b"]], v["x"], rng)
    raise ValueError(e)


def random_schema(rng, depth=3, name_counter=None):
    """random valid schema as a tree for scopes.flatten"""
    nc = name_counter if name_counter is not None else [0]

    def name(prefix):
        nc[0] += 1
        ns = rng.choice(["", "a.", "a.b.", "c."])
        return f"{ns}{prefix}{nc[0]}"

    def leaf():
        c = rng.randrange(21)
        return [
            lambda: scopes.prim("null"), lambda: scopes.prim("boolean"), lambda: scopes.prim("int"),
            lambda: scopes.prim("long"), lambda: scopes.prim("float"), lambda: scopes.prim("double"),
            lambda: scopes.prim("bytes"), lambda: scopes.prim("string"),
            lambda: scopes.enum(name("E"), ["A", "B", "C", "D"][: rng.randrange(1, 5)]),
            lambda: scopes.fixed(name("F"), rng.choice([0, 1, 2, 5, 16])),
            lambda: scopes.prim("bytes", "decimal", prec=20, scale=rng.choice([0, 1, 2, 10])),
            lambda: scopes.fixed(name("D"), rng.choice([1, 2, 8, 12, 16]), "decimal", prec=10, scale=rng.choice([0, 2, 3])),
            lambda: scopes.prim("bytes", "big-decimal"), lambda: scopes.prim("string", "uuid"),
            lambda: scopes.prim("int", "date"), lambda: scopes.prim("int", "time-millis"),
            lambda: scopes.prim("long", "time-micros"), lambda: scopes.prim("long", "timestamp-millis"),
            lambda: scopes.prim("long", "timestamp-micros"), lambda: scopes.fixed(name("Du"), 12, "duration"),
            lambda: scopes.prim("string", "some-unknown"),
        ][c]()

    def gen(d, in_union=False):
        if d <= 0 or rng.random() < 0.3:
            return leaf()
        c = rng.randrange(4 if not in_union else 3)
        if c == 0:
            return scopes.arr(gen(d - 1))
        if c == 1:
            return scopes.mp(gen(d - 1))
        if c == 2:
            return scopes.rec(name("R"), [(f"f{i}", gen(d - 1)) for i in range(rng.randrange(0, 4))])
        # union of distinct wire kinds
        branches, seen = [], set()
        for _ in range(rng.randrange(1, 5)):
            b = gen(d - 1, in_union=True)
            kind = b["k"] if b["k"] not in ("record", "enum", "fixed") else b["name"]
            if b.get("lt") == "duration":
                kind = "duration"       # two duration branches both go by the type name "Duration": a typed target cannot tell them apart
            if kind in seen:
                continue
            seen.add(kind)
            branches.append(b)
        return scopes.un(*branches)

    return scopes.flatten(gen(depth))["nodes"]

//! vd — the derive harness (C20): the generated module `gen` holds families of Rust types deriving
//! `BuildSchema` + serde's `Serialize`/`Deserialize`, and values of each.  For every family this program
//! reports what the real derive / serializer / deserializer do (one JSON line per family); it judges nothing.

#[path = "../../harness/src/schema_io.rs"]
#[allow(dead_code)]
mod schema_io;

mod prelude {
	pub use serde::{Deserialize, Serialize};
	pub use serde_avro_derive::BuildSchema;
	pub use std::collections::{BTreeMap, HashMap};
}

#[rustfmt::skip]
mod gen;

use serde_avro_derive::BuildSchema;
use serde_json::{json, Value as J};
use std::io::Write;
use std::panic::{catch_unwind, AssertUnwindSafe};

thread_local! { static LAST_PANIC: std::cell::RefCell<String> = const { std::cell::RefCell::new(String::new()) }; }

fn guarded<T>(f: impl FnOnce() -> T) -> Result<T, String> {
	catch_unwind(AssertUnwindSafe(f)).map_err(|_| LAST_PANIC.with(|c| c.borrow().clone()))
}

pub fn run<T>(id: &str, values: fn() -> Vec<Box<dyn FnOnce() -> T>>)
where
	T: BuildSchema + serde::Serialize + serde::de::DeserializeOwned + PartialEq + std::fmt::Debug,
{
	// announce first: if the process dies below, the driver knows where
	println!("{}", json!({"id": id, "stage": "begin"}));
	std::io::stdout().flush().unwrap();
	let mut o = serde_json::Map::new();
	o.insert("id".into(), id.into());
	o.insert("stage".into(), "end".into());
	let built = guarded(|| {
		let a = T::schema_mut();
		let b = T::schema_mut();
		let text = serde_json::to_string(&a).map_err(|e| e.to_string());
		(schema_io::schema_mut_to_json(&a), schema_io::schema_mut_to_json(&b), text)
	});
	match built {
		Err(p) => {
			o.insert("build".into(), "panic".into());
			o.insert("msg".into(), p.into());
		}
		Ok((n1, n2, text)) => {
			o.insert("build".into(), "ok".into());
			o.insert("nodes".into(), n1);
			o.insert("nodes2".into(), n2);
			match &text {
				Ok(t) => {
					o.insert("json".into(), t.clone().into());
					match guarded(|| t.parse::<serde_avro_fast::schema::SchemaMut>()) {
						Ok(Ok(s)) => {
							o.insert("json_parse".into(), "ok".into());
							o.insert("json_nodes".into(), schema_io::schema_mut_to_json(&s));
						}
						Ok(Err(e)) => {
							o.insert("json_parse".into(), "err".into());
							o.insert("json_msg".into(), e.to_string().into());
						}
						Err(p) => {
							o.insert("json_parse".into(), "panic".into());
							o.insert("json_msg".into(), p.into());
						}
					}
				}
				Err(e) => {
					o.insert("json".into(), J::Null);
					o.insert("json_parse".into(), "noserialize".into());
					o.insert("json_msg".into(), e.clone().into());
				}
			}
			match guarded(|| T::schema()) {
				Err(p) => {
					o.insert("freeze".into(), "panic".into());
					o.insert("freeze_msg".into(), p.into());
				}
				Ok(Err(e)) => {
					o.insert("freeze".into(), "err".into());
					o.insert("freeze_msg".into(), e.to_string().into());
				}
				Ok(Ok(schema)) => {
					o.insert("freeze".into(), "ok".into());
					let mut vals = Vec::new();
					for mk in values() {
						let r = guarded(|| {
							let v = mk();
							let mut cfg = serde_avro_fast::ser::SerializerConfig::new(&schema);
							match serde_avro_fast::to_datum_vec(&v, &mut cfg) {
								Err(e) => json!({"ser": "err", "msg": e.to_string()}),
								Ok(bytes) => match serde_avro_fast::from_datum_slice::<T>(&bytes, &schema) {
									Err(e) => json!({"ser": "ok", "bytes": bytes, "de": "err", "msg": e.to_string()}),
									Ok(back) => {
										if back == v {
											json!({"ser": "ok", "bytes": bytes, "de": "eq"})
										} else {
											json!({"ser": "ok", "bytes": bytes, "de": "neq", "msg": format!("{:?} != {:?}", back, v).chars().take(300).collect::<String>()})
										}
									}
								},
							}
						});
						vals.push(r.unwrap_or_else(|p| json!({"ser": "panic", "msg": p})));
					}
					o.insert("values".into(), J::Array(vals));
				}
			}
		}
	}
	println!("{}", J::Object(o));
	std::io::stdout().flush().unwrap();
}

fn main() {
	std::panic::set_hook(Box::new(|info| {
		let msg = info.to_string();
		LAST_PANIC.with(|c| *c.borrow_mut() = msg);
	}));
	// arguments: family ids to run (all when none); "--from fN" runs fN and everything after it
	let args: Vec<String> = std::env::args().skip(1).collect();
	let stack_mb: usize = std::env::var("VH_STACK_MB").ok().and_then(|s| s.parse().ok()).unwrap_or(64);
	let h = std::thread::Builder::new()
		.stack_size(stack_mb << 20)
		.spawn(move || {
			if args.len() == 2 && args[0] == "--after" {
				let started = std::cell::Cell::new(false);
				let pivot = args[1].clone();
				gen::run_all(&|id| {
					if started.get() {
						return true;
					}
					if id == pivot {
						started.set(true);
					}
					false
				});
			} else if args.is_empty() {
				gen::run_all(&|_| true);
			} else {
				gen::run_all(&|id| args.iter().any(|a| a == id));
			}
		})
		.unwrap();
	if h.join().is_err() {
		std::process::exit(3);
	}
}

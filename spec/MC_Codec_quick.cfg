CONSTANT Rich = FALSE
INIT Init
NEXT Next
INVARIANT CaseOk
INVARIANT Emit
CHECK_DEADLOCK FALSE

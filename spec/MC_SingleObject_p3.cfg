CONSTANTS
    PartsId = 3
    MaxCalls = 6
    SrcLens = {0, 1, 9, 10, 11, 13}
    Mutant = 0
    Side = "w"
    Emit = FALSE
SPECIFICATION Spec
INVARIANT TypeOK
INVARIANT SinkIsPrefix
INVARIANT OkMeansWhole
INVARIANT FaultSurfaces
INVARIANT ReaderSound
INVARIANT ReaderShort
CHECK_DEADLOCK FALSE

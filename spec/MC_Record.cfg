CONSTANTS
    MutDropNoClear = FALSE
    MutFlushNoClear = FALSE
INIT Init
NEXT Next
INVARIANT CellSane
INVARIANT Emit
CHECK_DEADLOCK FALSE

SPECIFICATION TraceSpec
INVARIANT StateSane
POSTCONDITION Accepted
CHECK_DEADLOCK FALSE

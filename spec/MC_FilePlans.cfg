INIT Init
NEXT Next
INVARIANT ParseBuildRoundTrip
INVARIANT Emit
CHECK_DEADLOCK FALSE

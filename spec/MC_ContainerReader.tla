------------------------- MODULE MC_ContainerReader -------------------------
(***************************************************************************)
(* All abstract files of up to MaxBlocks blocks of up to MaxItems objects, *)
(* every damage (a cut inside or before any part; a wrong sync marker; a   *)
(* declared count one too high or too low; an object that does not decode; *)
(* a block one byte short or long) and every number of calls: the reader   *)
(* machine of ContainerReader obeys C17's rules.                           *)
(***************************************************************************)
EXTENDS ContainerReader

CONSTANTS MaxBlocks, MaxItems, MaxCalls, MutNoLatch

ItemSeqs == UNION {[1..k -> {"good"}] : k \in 0..MaxItems}
Damages(items) ==
    {[n |-> Len(items), items |-> items, sync |-> "ok"]}
    \cup {[n |-> Len(items), items |-> items, sync |-> "bad"]}
    \cup {[n |-> Len(items) + 1, items |-> items, sync |-> "ok"]}
    \cup (IF Len(items) > 0 THEN {[n |-> Len(items) - 1, items |-> items, sync |-> "ok"]} ELSE {})
    \cup {[n |-> Len(items), items |-> [items EXCEPT ![j] = "bad"], sync |-> "ok"] : j \in 1..Len(items)}
    \cup (IF Len(items) > 0 THEN {[n |-> Len(items), items |-> [items EXCEPT ![Len(items)] = "short"], sync |-> sy] : sy \in {"ok", "bad"}} ELSE {})
    \cup {[n |-> Len(items), items |-> Append(items, "junk"), sync |-> "ok"]}
Blocks == UNION {Damages(it) : it \in ItemSeqs}
Files == UNION {[1..k -> Blocks] : k \in 0..MaxBlocks}
Cuts(bl) == {NoCut} \cup {[b |-> b, at |-> a] : b \in 1..Len(bl), a \in {AtClean, AtHdr, AtSync}}
            \cup UNION {{[b |-> b, at |-> i] : i \in 1..Len(bl[b].items)} : b \in 1..Len(bl)}

\* at most one damaged block per file keeps the enumeration small without losing the interactions with a cut
AtMostOneDamage(bl) == Cardinality({b \in 1..Len(bl) : (bl[b].sync = "bad" /\ \A i \in 1..Len(bl[b].items) : bl[b].items[i] # "short") \/ bl[b].n # Len(bl[b].items) \/ \E i \in 1..Len(bl[b].items) : bl[b].items[i] # "good"}) <= 1

Init == /\ blocks \in {bl \in Files : AtMostOneDamage(bl)}
        /\ cut \in Cuts(blocks)
        /\ kind \in {"slice", "stream", "whole_io"}
        \* a block one byte short: a slice reader goes on right after the declared size, where the sync marker is then misaligned
        /\ \A b \in 1..Len(blocks) : (\E i \in 1..Len(blocks[b].items) : blocks[b].items[i] = "short")
                                       => (blocks[b].sync = (IF kind = "slice" THEN "bad" ELSE "ok"))
        /\ ReaderInit

\* mutation: the I/O error of a truncated object is not latched
MCall ==
    IF ~MutNoLatch THEN Call
    ELSE /\ ~lost
         /\ LET c == CallResult IN
            /\ st' = c.st /\ left' = c.left /\ bi' = c.bi /\ ii' = c.ii /\ lost' = c.lost
            /\ latch' = (latch \/ (c.res.r = "err" /\ c.st = "broken"))
            /\ out' = Append(out, c.res)
         /\ called' = called + 1 /\ UNCHANGED <<blocks, cut, kind>>

Next == called < MaxCalls /\ MCall
Spec == Init /\ [][Next]_vars
=============================================================================

CONSTANTS
    MutDropNoClear = FALSE
    MutFlushNoClear = FALSE
INIT Init
NEXT Next
INVARIANT ModelPoolClean
POSTCONDITION Accepted
CHECK_DEADLOCK FALSE

---------------------------- MODULE BufReadModel ----------------------------
(***************************************************************************)
(* C11 at the level of the reading primitives: a buffered reader whose     *)
(* bytes arrive in arbitrary refills must behave like the slice reader.    *)
(*                                                                         *)
(* DecodeVar is the semantics of the varint library's slice decoder (stop  *)
(* at the first byte < 128, or at the 10th byte which must be < 2; None    *)
(* when the bytes end first), followed by the typed conversion.            *)
(*   Slice reader : DecodeVar on all the unread bytes.                     *)
(*   Buffered reader (implementation-shaped): DecodeVar on the current     *)
(*   buffer (up to the next refill boundary); when that yields None the    *)
(*   byte-wise fallback re-reads the same bytes one at a time, fails when  *)
(*   more than FallbackMax(T) bytes have been pushed, stops at the first   *)
(*   byte < 128 or at end of input, then DecodeVar on what it collected.   *)
(* read_slice(n): served from the buffer when it holds n bytes, otherwise  *)
(*   copied through a scratch buffer unless n exceeds max_alloc.           *)
(* Property (Agree): same result and same number of consumed bytes, for    *)
(* every byte string, every partition into refills, every type.            *)
(***************************************************************************)
EXTENDS AvVarint, FiniteSets

CONSTANTS FallbackI32Max      \* 5 = as found in the implementation (ceil(32/7)); 10 = as repaired

Types == {"i32", "i64", "u32", "u64"}
None == [ok |-> FALSE, val |-> U64Zero, n |-> 0]

\* the library's decode_var on byte string bs (typed)
DecodeVar(T, bs) ==
    LET r == DecVarRaw(bs, 1) IN
    IF r.st # "ok" THEN None
    ELSE CASE T = "u64" -> [ok |-> TRUE, val |-> r.u, n |-> r.n]
           [] T = "u32" -> IF r.u[3] = 0 /\ r.u[4] = 0 THEN [ok |-> TRUE, val |-> r.u, n |-> r.n] ELSE None
           [] T = "i64" -> [ok |-> TRUE, val |-> UnZigZag(r.u), n |-> r.n]
           [] T = "i32" -> IF FitsI32(UnZigZag(r.u)) THEN [ok |-> TRUE, val |-> UnZigZag(r.u), n |-> r.n] ELSE None

FallbackMax(T) == IF T \in {"i32", "u32"} THEN FallbackI32Max ELSE 10

\* byte-wise fallback on the unread bytes `rest`
RECURSIVE Collect(_, _, _)
\* returns the number of bytes pushed, or -1 on "Unterminated varint"
Collect(rest, i, max) ==
    IF i >= 1 /\ rest[i] < 128 THEN i                      \* finished: last pushed byte has no continuation bit
    ELSE IF i = Len(rest) THEN i                           \* EOF
    ELSE IF i >= max THEN -1                               \* push beyond maxsize
    ELSE Collect(rest, i + 1, max)

Fallback(T, rest) ==
    IF Len(rest) = 0 THEN None
    ELSE LET k == Collect(rest, 0, FallbackMax(T)) IN
         IF k < 0 THEN None ELSE DecodeVar(T, SubSeq(rest, 1, k))

SliceVarint(T, rest) == DecodeVar(T, rest)

\* buf = the bytes up to the next refill boundary (non-empty unless rest is empty)
ReaderVarint(T, rest, bufLen) ==
    LET fast == DecodeVar(T, SubSeq(rest, 1, bufLen)) IN
    IF fast.ok THEN fast ELSE Fallback(T, rest)

VarintAgree(T, rest, bufLen) ==
    LET a == SliceVarint(T, rest)  b == ReaderVarint(T, rest, bufLen) IN
    a.ok = b.ok /\ (a.ok => a.val = b.val /\ a.n = b.n)

\* read_slice(n): [ok, n]
SliceReadSlice(rest, n) == IF n > Len(rest) THEN [ok |-> FALSE, n |-> 0] ELSE [ok |-> TRUE, n |-> n]
ReaderReadSlice(rest, bufLen, n, maxAlloc) ==
    IF n <= bufLen THEN [ok |-> TRUE, n |-> n]
    ELSE IF n > maxAlloc THEN [ok |-> FALSE, n |-> 0]
    ELSE IF n > Len(rest) THEN [ok |-> FALSE, n |-> 0] ELSE [ok |-> TRUE, n |-> n]

SliceAgree(rest, bufLen, n, maxAlloc) ==
    (n <= maxAlloc) => SliceReadSlice(rest, n) = ReaderReadSlice(rest, bufLen, n, maxAlloc)

=============================================================================

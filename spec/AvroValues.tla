----------------------------- MODULE AvroValues -----------------------------
(***************************************************************************)
(* Enumeration of conforming values of a schema for bounded model checking *)
(* and scenario generation: boundary values for every scalar kind, small   *)
(* collections, every union branch, every enum symbol; records vary one    *)
(* field at a time around a base tuple (sum, not product).                 *)
(* `Rich` selects the larger boundary sets (thorough tier).                *)
(***************************************************************************)
EXTENDS AvroBinary, TLC

CONSTANT Rich

First(S)  == CHOOSE x \in S : TRUE
Second(S) == IF Cardinality(S) > 1 THEN First(S \ {First(S)}) ELSE First(S)

I32Max == <<65535, 32767, 0, 0>>
I32Min == <<0, 32768, 65535, 65535>>
I64Max == <<65535, 65535, 65535, 32767>>
I64Min == <<0, 0, 0, 32768>>

IntVals ==
    {IntToI64(0), IntToI64(-1), IntToI64(64), I32Max, I32Min}
    \cup (IF Rich THEN {IntToI64(1), IntToI64(63), IntToI64(-64), IntToI64(-65),
                        IntToI64(8191), IntToI64(8192), IntToI64(-8193), IntToI64(1000000)}
          ELSE {})
LongVals ==
    IntVals \cup {<<0, 32768, 0, 0>>, <<65535, 32767, 65535, 65535>>, I64Max, I64Min}

F32Vals ==
    {<<0, 0, 0, 0>>, <<0, 0, 0, 128>>, <<0, 0, 128, 63>>, <<1, 0, 192, 127>>}
    \cup (IF Rich THEN {<<1, 0, 0, 0>>, <<0, 0, 128, 127>>, <<0, 0, 128, 255>>, <<1, 0, 128, 127>>,
                        <<255, 255, 255, 255>>, <<219, 15, 73, 64>>}
          ELSE {})
F64Vals ==
    {<<0, 0, 0, 0, 0, 0, 0, 0>>, <<0, 0, 0, 0, 0, 0, 0, 128>>, <<0, 0, 0, 0, 0, 0, 240, 63>>,
     <<1, 0, 0, 0, 0, 0, 248, 127>>}
    \cup (IF Rich THEN {<<1, 0, 0, 0, 0, 0, 0, 0>>, <<0, 0, 0, 0, 0, 0, 240, 127>>,
                        <<0, 0, 0, 0, 0, 0, 240, 255>>, <<1, 0, 0, 0, 0, 0, 240, 127>>,
                        <<24, 45, 68, 84, 251, 33, 9, 64>>}
          ELSE {})

StrVals ==
    {<<>>, <<97>>, <<195, 169, 226, 130, 172>>}
    \cup (IF Rich THEN {<<240, 159, 152, 128>>, <<97, 98, 99, 100, 101, 102, 103, 104, 105, 106>>} ELSE {})
BytesVals ==
    {<<>>, <<0>>, <<255, 128>>}
    \cup (IF Rich THEN {<<195, 40>>, <<1, 2, 3, 4, 5, 6, 7, 8, 9>>} ELSE {})
UuidVals ==
    { <<48,49,50,51,52,53,54,55,45,56,57,97,98,45,99,100,101,102,45,48,49,50,51,45,52,53,54,55,56,57,97,98,99,100,101,102>> }

FixedVals(n) ==
    { [i \in 1..n |-> 0], [i \in 1..n |-> 255], [i \in 1..n |-> (37 * i + 11) % 256] }

DurVals ==
    { [i \in 1..12 |-> 0], <<1, 0, 0, 0, 2, 0, 0, 0, 3, 0, 0, 0>>, [i \in 1..12 |-> 255] }

\* 16-byte big-endian two's complement constants
BE16(hi, lo) == hi \o lo      \* two 8-byte halves
Z8  == <<0, 0, 0, 0, 0, 0, 0, 0>>
FF8 == <<255, 255, 255, 255, 255, 255, 255, 255>>
DecVals ==
    { BE16(Z8, Z8),                                        \* 0
      BE16(Z8, <<0, 0, 0, 0, 0, 0, 0, 1>>),                \* 1
      BE16(FF8, FF8),                                      \* -1
      BE16(Z8, <<0, 0, 0, 0, 0, 0, 0, 127>>),              \* 127
      BE16(Z8, <<0, 0, 0, 0, 0, 0, 0, 128>>),              \* 128
      BE16(FF8, <<255, 255, 255, 255, 255, 255, 255, 128>>), \* -128
      BE16(FF8, <<255, 255, 255, 255, 255, 255, 255, 127>>), \* -129
      BE16(Z8, <<0, 0, 0, 0, 0, 0, 1, 0>>),                \* 256
      BE16(Z8, <<128, 0, 0, 0, 0, 0, 0, 0>>),              \* 2^63
      BE16(FF8, <<128, 0, 0, 0, 0, 0, 0, 0>>),             \* -2^63
      BE16(<<0, 0, 0, 0, 255, 255, 255, 255>>, FF8),       \* 2^96 - 1
      BE16(<<255, 255, 255, 255, 0, 0, 0, 0>>, <<0, 0, 0, 0, 0, 0, 0, 1>>)  \* -(2^96 - 1)
    }
    \cup (IF Rich THEN { BE16(Z8, <<0, 0, 0, 0, 0, 0, 0, 255>>),           \* 255
                         BE16(Z8, <<0, 0, 0, 0, 0, 0, 48, 57>>),          \* 12345
                         BE16(<<0, 0, 0, 0, 128, 0, 0, 0>>, Z8),          \* 2^95
                         BE16(FF8, <<255, 255, 255, 255, 255, 255, 255, 0>>) } \* -256
          ELSE {})

MapKeys == << <<97>>, <<195, 169>>, <<>> >>

RECURSIVE Vals(_, _, _)
RECURSIVE RecVals(_, _, _)
RECURSIVE UnionVals(_, _, _, _)

\* values of record n: base tuple with one field varied at a time, plus the tuple of second choices
RecVals(G, n, f) ==
    LET nf   == Len(n.fields)
        sets == [i \in 1..nf |-> Vals(G, n.fields[i].t, f)]
    IN  IF \E i \in 1..nf : sets[i] = {} THEN {}
        ELSE LET base == [i \in 1..nf |-> First(sets[i])]
                 alt  == [i \in 1..nf |-> Second(sets[i])]
             IN  {[t |-> "rec", es |-> base], [t |-> "rec", es |-> alt]}
                 \cup UNION {{[t |-> "rec", es |-> [base EXCEPT ![i] = x]] : x \in sets[i]} : i \in 1..nf}

UnionVals(G, n, f, i) ==
    IF i > Len(n.variants) THEN {}
    ELSE LET bk == n.variants[i]
             be == Eff(G[bk])
             vs == IF f = 0 /\ be \in {"array", "map", "union", "record"} THEN {} ELSE Vals(G, bk, f)
         IN  {[t |-> "un", b |-> i - 1, x |-> x] : x \in vs} \cup UnionVals(G, n, f, i + 1)

Vals(G, k, f) ==
    LET n == G[k]  e == Eff(n) IN
    CASE e = "null" -> {VNull}
      [] e = "boolean" -> {[t |-> "bool", i |-> 0], [t |-> "bool", i |-> 1]}
      [] e \in IntLike -> {[t |-> "int", v |-> x] : x \in IntVals}
      [] e \in LongLike -> {[t |-> "long", v |-> x] : x \in LongVals}
      [] e = "float" -> {[t |-> "f32", v |-> x] : x \in F32Vals}
      [] e = "double" -> {[t |-> "f64", v |-> x] : x \in F64Vals}
      [] e = "bytes" -> {[t |-> "bytes", v |-> x] : x \in BytesVals}
      [] e = "string" -> {[t |-> "str", v |-> x] : x \in StrVals}
      [] e = "uuid" -> {[t |-> "str", v |-> x] : x \in UuidVals}
      [] e = "fixed" -> {[t |-> "fix", v |-> x] : x \in FixedVals(n.size)}
      [] e = "duration" -> {[t |-> "dur", v |-> x] : x \in DurVals}
      [] e = "enum" -> {[t |-> "enum", i |-> j] : j \in 0..(Len(n.symbols) - 1)}
      [] e = "decimal_bytes" -> {[t |-> "dec", v |-> x, s |-> n.scale] : x \in DecVals}
      [] e = "decimal_fixed" ->
            {[t |-> "dec", v |-> x, s |-> n.scale] : x \in {y \in DecVals : FitsBE(y, n.size)}}
      [] e = "bigdecimal" ->
            {[t |-> "dec", v |-> x, s |-> sc] : x \in DecVals, sc \in (IF Rich THEN {0, 2, 28} ELSE {0, 3})}
      [] e = "array" ->
            IF f = 0 THEN {[t |-> "arr", es |-> <<>>]}
            ELSE LET es == Vals(G, n.items, f - 1) IN
                 IF es = {} THEN {[t |-> "arr", es |-> <<>>]}
                 ELSE {[t |-> "arr", es |-> <<>>]}
                      \cup {[t |-> "arr", es |-> <<x>>] : x \in es}
                      \cup {[t |-> "arr", es |-> <<First(es), Second(es)>>],
                            [t |-> "arr", es |-> <<Second(es), First(es), Second(es)>>]}
      [] e = "map" ->
            IF f = 0 THEN {[t |-> "map", kv |-> <<>>]}
            ELSE LET es == Vals(G, n.values, f - 1) IN
                 IF es = {} THEN {[t |-> "map", kv |-> <<>>]}
                 ELSE {[t |-> "map", kv |-> <<>>]}
                      \cup {[t |-> "map", kv |-> << <<MapKeys[1], x>> >>] : x \in es}
                      \cup {[t |-> "map", kv |-> << <<MapKeys[1], First(es)>>, <<MapKeys[2], Second(es)>> >>],
                            [t |-> "map", kv |-> << <<MapKeys[3], Second(es)>>, <<MapKeys[2], First(es)>>,
                                                   <<MapKeys[1], Second(es)>> >>]}
      [] e = "record" -> IF f = 0 THEN {} ELSE RecVals(G, n, f - 1)
      [] e = "union" -> UnionVals(G, n, IF f = 0 THEN 0 ELSE f - 1, 1)

=============================================================================

SPECIFICATION IndSpec
CONSTANTS
  MutNoRetry = FALSE
  MutOkOnFault = FALSE
INVARIANT IndInv
CONSTRAINT Within
CHECK_DEADLOCK FALSE

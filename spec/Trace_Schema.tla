------------------------------ MODULE Trace_Schema ------------------------------
(***************************************************************************)
(* Trace validation of schema events (C07, C08, C09, C18, C19).            *)
(*                                                                         *)
(* "parse": a JSON document (given as its AST; the harness rendered it to  *)
(*   text in some lexical style and handed it to the real parser) with the *)
(*   parser's answer: res, the parsed node vector, the fingerprint, the    *)
(*   canonical form text (hook), and the node vector obtained by parsing   *)
(*   the schema's own JSON text again (json_nodes).                        *)
(*   Allowed iff, with r == Resolve(doc):                                  *)
(*     r is an error  => res = "err";                                      *)
(*     otherwise res = "ok", GraphDesc(nodes) = r.d (every reference       *)
(*     resolved to the type the specification designates; field order,     *)
(*     symbols, sizes, logical types preserved), fp = CRC-64-AVRO of       *)
(*     Pcf(r.d), pcf = Pcf(r.d), GraphDesc(json_nodes) = r.d.              *)
(*                                                                         *)
(* "build": a node vector assembled through the builder API, with the      *)
(*   answers of freeze / fingerprint / JSON rendering and the node vector  *)
(*   parsed back from the rendered JSON.  With g == GraphDesc(nodes):      *)
(*     every call returned Ok or Err (no crash: the driver records those); *)
(*     empty vector, a key out of range, or a cycle through unnamed nodes  *)
(*       => freeze = "err" (and fingerprint / JSON = "err" when the walk   *)
(*       from the root meets the problem);                                 *)
(*     otherwise, with distinct fullnames: all three Ok, fp = CRC-64-AVRO  *)
(*       of Pcf(g.d), and the rendered JSON parses back to g.d with the    *)
(*       same fingerprint.                                                 *)
(***************************************************************************)
EXTENDS SchemaDesc, Crc, Json, IOUtils

Rec == ndJsonDeserialize(IOEnv.VERIF_TRACE)

VARIABLE l

\* e.checks selects which properties the event is judged for: "graph" (C07), "fp" (C08), "json" (C09)
Wants(e, c) == \E i \in 1..Len(e.checks) : e.checks[i] = c

ParseAllowed(e) ==
    LET r == Resolve(e.doc) IN
    IF ~r.ok THEN e.res = "err"
    ELSE /\ e.res = "ok"
         /\ Wants(e, "graph") => LET g == GraphDesc(e.nodes) IN g.st = "ok" /\ g.d = r.d
         /\ Wants(e, "fp") => (e.fp = Fingerprint(Pcf(r.d)) /\ (e.has_pcf => e.pcf = Pcf(r.d)))
         /\ Wants(e, "json") => LET g2 == GraphDesc(e.json_nodes) IN g2.st = "ok" /\ g2.d = r.d

BuildAllowed(e) ==
    LET g == GraphDesc(e.nodes)
        inRange == KeysInRange(e.nodes)
    IN  /\ e.freeze \in {"ok", "err"} /\ e.fp_res \in {"ok", "err"} /\ e.json_res \in {"ok", "err"}
        /\ IF g.st # "ok" THEN e.freeze = "err" /\ e.fp_res = "err" /\ e.json_res = "err"
           ELSE IF ~inRange THEN e.freeze = "err"
           ELSE IF ~UniqueFullnames(g.d) THEN TRUE
           ELSE /\ e.freeze = "ok" /\ e.fp_res = "ok" /\ e.json_res = "ok"
                /\ Wants(e, "fp") => (e.fp = Fingerprint(Pcf(g.d)) /\ e.frozen_fp = e.fp)
                \* (a record that unconditionally contains itself can be built and frozen, but it is not a valid
                \*  schema document: the parser rejects it, so there is nothing to parse back)
                /\ (Wants(e, "json") /\ ~AnyUncond(g.d) /\ ~UncondCycle(e.nodes)) =>
                                       /\ e.reparse = "ok"
                                       /\ LET g2 == GraphDesc(e.json_nodes) IN g2.st = "ok" /\ g2.d = g.d
                                       /\ e.json_fp = e.frozen_fp

Init == l = 1
Next == /\ l <= Len(Rec)
        /\ \/ (Rec[l].ev = "parse" /\ ParseAllowed(Rec[l]))
           \/ (Rec[l].ev = "build" /\ BuildAllowed(Rec[l]))
        /\ l' = l + 1

Accepted ==
    \/ TLCGet("stats").diameter - 1 = Len(Rec)
    \/ (PrintT(<<"REJECT", TLCGet("stats").diameter>>) /\ FALSE)
=============================================================================

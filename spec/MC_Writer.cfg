CONSTANTS
    Approx = 3
    Sizes = {0, 1, 2}
    MaxOps = 6
    MutCountBeforeSerialize = FALSE
    MutFinishOnNonEmptyBuf = FALSE
SPECIFICATION Spec
INVARIANT ValidBlocks
INVARIANT PrefixOfAccepted
INVARIANT AllAfterFlush
INVARIANT Quiescent
INVARIANT AssertUnreachable
INVARIANT NothingLostInside
CHECK_DEADLOCK FALSE

----------------------------- MODULE Trace_Codec -----------------------------
(***************************************************************************)
(* Trace validation of datum decoding / encoding events recorded from the  *)
(* implementation.  The trace (VERIF_TRACE, one JSON event per line) is    *)
(* accepted iff every event is allowed by the specification:               *)
(*                                                                         *)
(*  "de"  : the implementation decoded `bytes` under schema Scope[si] with *)
(*          limits (depth, maxseq) and answered res / value / consumed.    *)
(*          Allowed iff it agrees with Dec: "ok" with the same value and   *)
(*          the same number of consumed bytes, "err" where Dec says err,   *)
(*          either where the specification is silent ("free").  A panic,   *)
(*          abort or timeout is never allowed.                             *)
(*                                                                         *)
(*  "ser" : the implementation serialized presentation `pres` (SerdeModel) *)
(*          under Scope[si] and answered res / bytes.  Allowed iff         *)
(*          SerAllowed: must succeed / must fail / free as Den says, and   *)
(*          on success the bytes are an encoding of a denoted value.       *)
(*                                                                         *)
(*  "rt"  : "ser" followed, on success, by decoding the produced bytes     *)
(*          (plus `suffix` sentinel bytes) with the real decoder: the      *)
(*          decoded value must be the denoted value and exactly the        *)
(*          produced bytes must have been consumed (C01).                  *)
(*                                                                         *)
(* The trace is stateless per event; `l` is the position in the trace.     *)
(***************************************************************************)
EXTENDS DeView, Json, IOUtils, TLC

Rec   == ndJsonDeserialize(IOEnv.VERIF_TRACE)
Scope == ndJsonDeserialize(IOEnv.VERIF_SCOPE)

VARIABLE l

\* the longest length-prefixed / fixed-size field (string, bytes, fixed, duration, decimal bytes, map key) of a value
RECURSIVE MaxField(_)
RECURSIVE MaxFieldList(_, _)
MaxFieldList(vs, i) == IF i > Len(vs) THEN 0 ELSE MaxN(MaxField(vs[i]), MaxFieldList(vs, i + 1))
MaxField(v) ==
    CASE v.t \in {"bytes", "str", "fix", "dur"} -> Len(v.v)
      [] v.t = "dec" -> 16
      [] v.t \in {"arr", "rec"} -> MaxFieldList(v.es, 1)
      [] v.t = "map" -> MaxN(MaxFieldList([i \in 1..Len(v.kv) |-> v.kv[i][2]], 1),
                             MaxFieldList([i \in 1..Len(v.kv) |-> [t |-> "str", v |-> v.kv[i][1]]], 1))
      [] v.t = "un" -> MaxField(v.x)
      [] OTHER -> 0

\* e.maxalloc: -1 for slice input; for reader input, the configured cap on a single field that is not wholly in the
\* reader's current buffer: a value holding a larger field may be rejected (and must be if the field is not buffered -
\* which the trace does not tell, so only "may"); values whose fields all fit must decode.
\* the family of serde hints the recording target used ("default" when the event does not say)
HintsOf(e) == IF "hints" \in DOMAIN e THEN e.hints ELSE "default"

\* the longest field that is read through the reader's scratch buffer when it is not wholly buffered: strings, bytes, fixed, map keys
RECURSIVE MaxSlice(_)
RECURSIVE MaxSliceList(_, _)
MaxSliceList(vs, i) == IF i > Len(vs) THEN 0 ELSE MaxN(MaxSlice(vs[i]), MaxSliceList(vs, i + 1))
MaxSlice(v) ==
    CASE v.t \in {"bytes", "str", "fix"} -> Len(v.v)
      [] v.t \in {"arr", "rec"} -> MaxSliceList(v.es, 1)
      [] v.t = "map" -> MaxN(MaxSliceList([i \in 1..Len(v.kv) |-> v.kv[i][2]], 1),
                             MaxSliceList([i \in 1..Len(v.kv) |-> [t |-> "str", v |-> v.kv[i][1]]], 1))
      [] v.t = "un" -> MaxSlice(v.x)
      [] OTHER -> 0

\* e.maxbuf (optional): the reader never holds more than that many bytes at once (uniform refills).  A field longer than both
\* the buffer and the cap cannot be wholly buffered, so the cap MUST reject it (C04: "single fields larger than the configured
\* allocation cap are rejected").
MaxBufOf(e) == IF "maxbuf" \in DOMAIN e THEN e.maxbuf ELSE -1
MustRejectAlloc(e, v) == e.maxalloc >= 0 /\ MaxBufOf(e) >= 0 /\ MaxSlice(v) > e.maxalloc /\ MaxSlice(v) > MaxBufOf(e)

DeAllowed(e) ==
    LET G == Scope[e.si].nodes
        r == Dec(G, 1, e.bytes, 1, e.depth, e.maxseq)
    IN  CASE r.st = "ok"   -> \/ (e.res = "ok" /\ e.value = Shown(G, r.v, HintsOf(e)) /\ e.consumed = r.pos - 1 /\ ~MustRejectAlloc(e, r.v))
                              \/ (e.res = "err" /\ e.maxalloc >= 0 /\ MaxField(r.v) > e.maxalloc)
          [] r.st = "err"  -> e.res = "err"
          [] r.st = "free" -> e.res \in {"ok", "err"}

SerEvAllowed(e) == SerAllowed(Scope[e.si].nodes, e.pres, e.slow, e.res, IF e.res = "ok" THEN e.bytes ELSE <<>>)

RtAllowed(e) ==
    LET G == Scope[e.si].nodes
        d == Den(G, 1, e.pres, e.slow)
    IN  /\ SerEvAllowed(e)
        /\ e.res = "ok" =>
              LET r == DecAll(G, e.bytes) IN
              /\ e.de.res = "ok"
              /\ e.de.consumed = Len(e.bytes)
              /\ IF r.st = "ok" THEN e.de.value = Shown(G, r.v, HintsOf(e))        \* (SerAllowed already tied r.v to the denoted value)
                 ELSE d.any                                  \* outside the model: nothing more is required

EventOk(e) ==
    CASE e.ev = "de"  -> DeAllowed(e)
      [] e.ev = "ser" -> SerEvAllowed(e)
      [] e.ev = "rt"  -> RtAllowed(e)
      [] OTHER -> FALSE

Init == l = 1
Next == /\ l <= Len(Rec)
        /\ EventOk(Rec[l])
        /\ l' = l + 1

\* one state per consumed event plus the initial one
Accepted ==
    \/ TLCGet("stats").diameter - 1 = Len(Rec)
    \/ (PrintT(<<"REJECT", TLCGet("stats").diameter>>) /\ FALSE)

=============================================================================

----------------------------- MODULE Trace_Codec -----------------------------
(***************************************************************************)
(* Trace validation of datum decoding / encoding events recorded from the  *)
(* implementation.  The trace (VERIF_TRACE, one JSON event per line) is    *)
(* accepted iff every event is allowed by the specification:               *)
(*                                                                         *)
(*  "de"  : the implementation decoded `bytes` under schema Scope[si] with *)
(*          limits (depth, maxseq) and answered res / value / consumed.    *)
(*          Allowed iff it agrees with Dec: "ok" with the same value and   *)
(*          the same number of consumed bytes, "err" where Dec says err,   *)
(*          either where the specification is silent ("free").  A panic,   *)
(*          abort or timeout is never allowed.                             *)
(*                                                                         *)
(* The trace is stateless per event; `l` is the position in the trace.     *)
(***************************************************************************)
EXTENDS AvroBinary, Json, IOUtils, TLC

Rec   == ndJsonDeserialize(IOEnv.VERIF_TRACE)
Scope == ndJsonDeserialize(IOEnv.VERIF_SCOPE)

VARIABLE l

DeAllowed(e) ==
    LET G == Scope[e.si].nodes
        r == Dec(G, 1, e.bytes, 1, e.depth, e.maxseq)
    IN  CASE r.st = "ok"   -> e.res = "ok" /\ e.value = r.v /\ e.consumed = r.pos - 1
          [] r.st = "err"  -> e.res = "err"
          [] r.st = "free" -> e.res \in {"ok", "err"}

EventOk(e) ==
    CASE e.ev = "de" -> DeAllowed(e)
      [] OTHER -> FALSE

Init == l = 1
Next == /\ l <= Len(Rec)
        /\ EventOk(Rec[l])
        /\ l' = l + 1

\* one state per consumed event plus the initial one
Accepted ==
    \/ TLCGet("stats").diameter - 1 = Len(Rec)
    \/ (PrintT(<<"REJECT", TLCGet("stats").diameter>>) /\ FALSE)

=============================================================================

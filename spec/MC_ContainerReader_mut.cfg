SPECIFICATION Spec
CONSTANTS
  MaxBlocks = 2
  MaxItems = 2
  MaxCalls = 7
  MutNoLatch = TRUE
INVARIANT PrefixOnly
INVARIANT MustReport
INVARIANT Sticky
INVARIANT OnceBroken
INVARIANT StateSane
CHECK_DEADLOCK FALSE

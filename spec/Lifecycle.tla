----------------------------- MODULE Lifecycle -----------------------------
(***************************************************************************)
(* C10: the ownership design of the self-referential schema and of the     *)
(* container reader, as an abstract machine over the safe public API.      *)
(*                                                                         *)
(*   slots  sch[s]   a caller-side schema handle:                          *)
(*            st    "none" | "mut" (SchemaMut) | "owned" (Schema, possibly *)
(*                  moved into a Box / Vec) | "arc" (Arc<Schema> handles)  *)
(*                  | "gone"                                               *)
(*            a     the node-vector allocation the handle refers to        *)
(*            bad   position of a dangling key in the SchemaMut (0: none)  *)
(*            h     number of Arc handles the caller holds on it           *)
(*            cfg   live SerializerConfig borrows (scopes nest: stk)        *)
(*   rd[r]  a container reader: "none" | "open" | "half" (between the two  *)
(*          halves of its drop) | "gone"; it owns one Arc on allocation    *)
(*          R(r) and its decoding state holds node references into it      *)
(*   alloc[a]  "unborn" | "live" | "freed": the node vector of a frozen    *)
(*          schema (the heap buffer all node references point into)        *)
(*   refs   who holds raw node references into which allocation            *)
(*          (<<"cfg", s, a>>, <<"rstate", r, a>>)                          *)
(*                                                                         *)
(* Only actions the borrow checker accepts are offered (a schema with live *)
(* config borrows is neither moved nor dropped; the last Arc handle a      *)
(* config borrows through is not dropped).  The design invariant:          *)
(*   NoDangling   every raw node reference points into a live allocation;  *)
(*   FrozenWhole  a live allocation is fully initialised (a failed freeze  *)
(*                never leaves one behind);                                *)
(* and an allocation is freed exactly when its last owner goes.            *)
(* Mutations (constants) show the invariants are not vacuous:              *)
(*   MutArcFirst   the reader releases its Arc before its decoding state;  *)
(*   MutLeakPartial  a failed freeze publishes the partially filled vector.*)
(*                                                                         *)
(* TLC checks the invariants on all histories within the bounds and        *)
(* GENERATES histories (variable hist, hidden from the state by VIEW);     *)
(* the interpreter `vl` runs them on the real API under Miri (the oracle   *)
(* for undefined behaviour), natively with threads vs sequentially.        *)
(***************************************************************************)
EXTENDS Naturals, Sequences, FiniteSets, TLC, Json

CONSTANTS NS, NR, Graphs, MaxBad, MaxLen, MutArcFirst, MutLeakPartial

VARIABLES sch, rd, alloc, refs, stk, hist

vars == <<sch, rd, alloc, refs, stk, hist>>
\* two histories are merged when they reach the same abstract state at the same length by the same last operation:
\* the emitted histories cover every (state, incoming operation) pair within the bounds
view == <<sch, rd, alloc, refs, stk, Len(hist), IF hist = <<>> THEN [op |-> ""] ELSE hist[Len(hist)]>>

Slots == 1..NS
Readers == 1..NR
SA(s) == <<"S", s>>
RA(r) == <<"R", r>>
Allocs == {SA(s) : s \in Slots} \cup {RA(r) : r \in Readers}
Codecs == {"null", "deflate", "snappy"}
Files == {"ok", "badsync", "truncated"}

EmptySlot == [st |-> "none", a |-> <<"-", 0>>, bad |-> 0, h |-> 0, cfg |-> 0, g |-> 0]

Init == /\ sch = [s \in Slots |-> EmptySlot]
        /\ rd = [r \in Readers |-> [st |-> "none", n |-> 0]]
        /\ alloc = [a \in Allocs |-> "unborn"]
        /\ refs = {}
        /\ stk = <<>>          \* slots of the live configs, innermost last (scopes nest)
        /\ hist = <<>>

Log(op) == hist' = Append(hist, op)

\* owners of an allocation: a caller slot owning / holding handles on it, a reader that still has its Arc
Owners(a, sc, rr) ==
    Cardinality({s \in Slots : sc[s].a = a /\ sc[s].st \in {"owned", "arc"} /\ (sc[s].st = "arc" => sc[s].h > 0)})
    + Cardinality({r \in Readers : a = RA(r) /\ rr[r].st \in {"open"} \cup (IF MutArcFirst THEN {} ELSE {"half"})})
\* after a step, allocations without owner are freed
Settle(sc, rr, al) == [a \in Allocs |-> IF al[a] \in {"live", "partial"} /\ Owners(a, sc, rr) = 0 THEN "freed" ELSE al[a]]

Usable(s) == sch[s].st \in {"owned", "arc"} /\ (sch[s].st = "arc" => sch[s].h > 0)

Parse(s) == \E g \in Graphs :
    /\ sch[s].st = "none"
    /\ sch' = [sch EXCEPT ![s] = [EmptySlot EXCEPT !.st = "mut", !.a = SA(s), !.g = g]]
    /\ UNCHANGED <<rd, alloc, refs>> /\ Log([op |-> "parse", s |-> s, g |-> g])

Build(s) == \E g \in Graphs, b \in 0..MaxBad :
    /\ sch[s].st = "none"
    /\ sch' = [sch EXCEPT ![s] = [EmptySlot EXCEPT !.st = "mut", !.a = SA(s), !.bad = b, !.g = g]]
    /\ UNCHANGED <<rd, alloc, refs>> /\ Log([op |-> "build", s |-> s, g |-> g, bad |-> b])

Edit(s) ==
    /\ sch[s].st = "mut"
    /\ UNCHANGED <<sch, rd, alloc, refs>> /\ Log([op |-> "edit", s |-> s])

Freeze(s) ==
    /\ sch[s].st = "mut"
    /\ IF sch[s].bad = 0
       THEN /\ sch' = [sch EXCEPT ![s].st = "owned"]
            /\ alloc' = [alloc EXCEPT ![SA(s)] = "live"]
       ELSE \* error path: the SchemaMut is consumed, the partially filled vector is dropped
            /\ sch' = [sch EXCEPT ![s].st = IF MutLeakPartial THEN "owned" ELSE "gone"]
            /\ alloc' = [alloc EXCEPT ![SA(s)] = IF MutLeakPartial THEN "partial" ELSE "freed"]
    /\ UNCHANGED <<rd, refs>> /\ Log([op |-> "freeze", s |-> s])

Move(s) ==
    /\ sch[s].st = "owned" /\ sch[s].cfg = 0
    /\ UNCHANGED <<sch, rd, alloc, refs>> /\ Log([op |-> "move", s |-> s])

ToArc(s) ==
    /\ sch[s].st = "owned" /\ sch[s].cfg = 0
    /\ sch' = [sch EXCEPT ![s].st = "arc", ![s].h = 1]
    /\ UNCHANGED <<rd, alloc, refs>> /\ Log([op |-> "to_arc", s |-> s])

CloneArc(s) ==
    /\ sch[s].st = "arc" /\ sch[s].h \in 1..2
    /\ sch' = [sch EXCEPT ![s].h = @ + 1]
    /\ UNCHANGED <<rd, alloc, refs>> /\ Log([op |-> "clone_arc", s |-> s])

DropHandle(s) ==
    /\ sch[s].st = "arc" /\ sch[s].h > (IF sch[s].cfg > 0 THEN 1 ELSE 0)
    /\ LET sc == [sch EXCEPT ![s].h = @ - 1, ![s].st = IF sch[s].h = 1 THEN "gone" ELSE "arc"] IN
       /\ sch' = sc /\ alloc' = Settle(sc, rd, alloc)
    /\ UNCHANGED <<rd, refs>> /\ Log([op |-> "drop_handle", s |-> s])

NewCfg(s) ==
    /\ Usable(s) /\ sch[s].cfg < 2
    /\ stk' = Append(stk, s)
    /\ sch' = [sch EXCEPT ![s].cfg = @ + 1]
    /\ refs' = refs \cup {<<"cfg", s, sch[s].cfg + 1, sch[s].a>>}
    /\ UNCHANGED <<rd, alloc>> /\ Log([op |-> "new_cfg", s |-> s])

Ser(s) ==
    /\ sch[s].cfg > 0 /\ stk # <<>> /\ stk[Len(stk)] = s /\ UNCHANGED stk
    /\ UNCHANGED <<sch, rd, alloc, refs>> /\ \E v \in 1..2 : Log([op |-> "ser", s |-> s, v |-> v])

DropCfg(s) ==
    /\ sch[s].cfg > 0 /\ stk # <<>> /\ stk[Len(stk)] = s
    /\ stk' = SubSeq(stk, 1, Len(stk) - 1)
    /\ sch' = [sch EXCEPT ![s].cfg = @ - 1]
    /\ refs' = refs \ {<<"cfg", s, sch[s].cfg, sch[s].a>>}
    /\ UNCHANGED <<rd, alloc>> /\ Log([op |-> "drop_cfg", s |-> s])

\* deserialized values borrow from the input only: they put no constraint on the schema afterwards
De(s) == \E m \in {"owned", "borrowed"} :
    /\ Usable(s)
    /\ UNCHANGED <<sch, rd, alloc, refs>> /\ Log([op |-> "de", s |-> s, mode |-> m])

Debug(s) ==
    /\ Usable(s)
    /\ UNCHANGED <<sch, rd, alloc, refs>> /\ Log([op |-> "debug", s |-> s])

ParUse(s) ==
    /\ Usable(s)
    /\ UNCHANGED <<sch, rd, alloc, refs>> /\ Log([op |-> "par_use", s |-> s, n |-> 3])

UseValues == UNCHANGED <<sch, rd, alloc, refs>> /\ Log([op |-> "use_values"])

DropSchema(s) ==
    /\ sch[s].st \in {"owned", "mut"} /\ sch[s].cfg = 0
    /\ LET sc == [sch EXCEPT ![s].st = "gone"] IN
       /\ sch' = sc /\ alloc' = Settle(sc, rd, alloc)
    /\ UNCHANGED <<rd, refs>> /\ Log([op |-> "drop_schema", s |-> s])

Open(r) == \E c \in Codecs, f \in Files :
    /\ rd[r].st = "none"
    /\ rd' = [rd EXCEPT ![r] = [st |-> "open", n |-> 0]]
    /\ alloc' = [alloc EXCEPT ![RA(r)] = "live"]
    /\ refs' = refs \cup {<<"rstate", r, 0, RA(r)>>}
    /\ UNCHANGED sch /\ Log([op |-> "open", r |-> r, codec |-> c, file |-> f])

Read(r) == \E m \in {"owned", "borrowed"} :
    /\ rd[r].st = "open" /\ rd[r].n < 7
    /\ rd' = [rd EXCEPT ![r].n = @ + 1]
    /\ UNCHANGED <<sch, alloc, refs>> /\ Log([op |-> "read", r |-> r, mode |-> m])

\* Reader::schema() hands out the Arc: the caller may keep a clone in a free slot
TakeSchema(r, s) ==
    /\ rd[r].st = "open" /\ sch[s].st = "none"
    /\ sch' = [sch EXCEPT ![s] = [EmptySlot EXCEPT !.st = "arc", !.a = RA(r), !.h = 1]]
    /\ UNCHANGED <<rd, alloc, refs>> /\ Log([op |-> "take_schema", r |-> r, s |-> s])

MoveReader(r) ==
    /\ rd[r].st = "open"
    /\ UNCHANGED <<sch, rd, alloc, refs>> /\ Log([op |-> "move_reader", r |-> r])

\* dropping a reader is two steps of the implementation (field drop order): its decoding state, then its Arc
DropReader1(r) ==
    /\ rd[r].st = "open"
    /\ LET rr == [rd EXCEPT ![r].st = "half"] IN
       /\ rd' = rr
       /\ IF MutArcFirst THEN /\ alloc' = Settle(sch, rr, alloc) /\ refs' = refs     \* Arc released first
          ELSE /\ refs' = refs \ {<<"rstate", r, 0, RA(r)>>} /\ alloc' = alloc
    /\ UNCHANGED sch /\ Log([op |-> "drop_reader", r |-> r])
DropReader2(r) ==
    /\ rd[r].st = "half"
    /\ LET rr == [rd EXCEPT ![r].st = "gone"] IN
       /\ rd' = rr
       /\ refs' = refs \ {<<"rstate", r, 0, RA(r)>>}
       /\ alloc' = Settle(sch, rr, alloc)
    /\ UNCHANGED <<sch, hist, stk>>

Next ==
    /\ Len(hist) < MaxLen \/ \E r \in Readers : rd[r].st = "half"
    /\ \/ \E r \in Readers : DropReader2(r)
       \/ /\ \A r \in Readers : rd[r].st # "half"
          /\ \/ \E s \in Slots : NewCfg(s) \/ Ser(s) \/ DropCfg(s)
             \/ /\ UNCHANGED stk
                /\ \/ \E s \in Slots : \/ Parse(s) \/ Build(s) \/ Edit(s) \/ Freeze(s) \/ Move(s) \/ ToArc(s) \/ CloneArc(s) \/ DropHandle(s)
                                       \/ De(s) \/ Debug(s) \/ ParUse(s) \/ DropSchema(s)
                   \/ UseValues
                   \/ \E r \in Readers : \/ Open(r) \/ Read(r) \/ MoveReader(r) \/ DropReader1(r)
                                         \/ \E s \in Slots : TakeSchema(r, s)

Spec == Init /\ [][Next]_vars

NoDangling == \A x \in refs : alloc[x[4]] = "live"
FrozenWhole == \A a \in Allocs : alloc[a] # "partial"
\* an allocation with an owner is never freed; one without is not kept
Accounting == \A a \in Allocs : /\ (alloc[a] = "freed" => Owners(a, sch, rd) = 0)
                                /\ (alloc[a] = "live" /\ (\A r \in Readers : rd[r].st # "half") => Owners(a, sch, rd) > 0)
TypeOk == /\ \A s \in Slots : sch[s].cfg \in 0..2 /\ sch[s].h \in 0..3
          /\ \A s \in Slots : sch[s].cfg > 0 => Usable(s)

\* history emission (simulation mode): one line per behaviour that reached the length bound
EmitHist == Len(hist) < MaxLen \/ PrintT(<<"SCN", ToJson(hist)>>)
=============================================================================

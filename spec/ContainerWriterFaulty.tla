------------------------ MODULE ContainerWriterFaulty ------------------------
(***************************************************************************)
(* The container writer's bookkeeping over a sink that may FAIL (C15, C16) *)
(* - the integer skeleton of writer/mod.rs: Writer::serialize,             *)
(* push_serialized, finish_block / into_inner, WriterInner::finish_block   *)
(* and flush_finished_block, one operator each.  Items are counted, not    *)
(* represented (ContainerWriter.tla carries their identities over a        *)
(* reliable sink; this module adds the failing sink and the retry of a     *)
(* block left pending by a failed flush).                                  *)
(*                                                                         *)
(*   n      n_elements_in_block (objects in the open block)                *)
(*   bsz    bytes in the serializer buffer (open block, or the data of the *)
(*          finished block until it has been flushed)                      *)
(*   pend   0, or the object count of the finished block that awaits its   *)
(*          flush (block_header_size = Some)                               *)
(*   sunk   objects in the complete blocks the sink holds                  *)
(*   taken  objects the writer took (inner serialize / push returned Ok)   *)
(*   torn   the sink accepted part of a block and then failed              *)
(*   last   how the last call returned: "ok" | "err_val" | "err_io"        *)
(*   fin    the last call was finish_block / into_inner                    *)
(*   seenFault  a flush failed during the last call                        *)
(*   assertOk   "Previous block should always be flushed before starting   *)
(*          to serialize a new one" was never violated                     *)
(*                                                                         *)
(* Every flush attempt that has a block to deliver draws a fault:          *)
(*   0 none, 1 the sink fails before accepting anything, 2 it fails after  *)
(*   accepting part of the block.                                          *)
(*                                                                         *)
(* IndInv is an INDUCTIVE invariant: TLC checks Init => IndInv and         *)
(* IndInv /\ Next => IndInv' from EVERY state of IndInit within the        *)
(* bounds of the configuration; Apalache discharges the same two           *)
(* obligations symbolically (all integers up to the bounds of IndInit, no  *)
(* bound on the number of calls).  The type annotations are Apalache's.    *)
(***************************************************************************)
EXTENDS Integers

CONSTANTS
    \* @type: Bool;
    MutNoRetry,      \* mutation: serialize / push do not start by flushing a pending block
    \* @type: Bool;
    MutOkOnFault     \* mutation: a failed final flush is swallowed (the call returns Ok)

VARIABLES
    \* @type: Int;
    approx,          \* approx_block_size (fixed when the writer is built)
    \* @type: Int;
    n,
    \* @type: Int;
    bsz,
    \* @type: Int;
    pend,
    \* @type: Int;
    sunk,
    \* @type: Int;
    taken,
    \* @type: Bool;
    torn,
    \* @type: Str;
    last,
    \* @type: Bool;
    fin,
    \* @type: Bool;
    seenFault,
    \* @type: Bool;
    assertOk

MaxSz == 3          \* largest object / push size
Bound == 6          \* IndInit: counters range over 0..Bound

vars == <<approx, n, bsz, pend, sunk, taken, torn, last, fin, seenFault, assertOk>>

ConstInit == MutNoRetry = FALSE /\ MutOkOnFault = FALSE
ConstInitMut1 == MutNoRetry = TRUE /\ MutOkOnFault = FALSE
ConstInitMut2 == MutNoRetry = FALSE /\ MutOkOnFault = TRUE

(***************************************************************************)
(* The writer's steps as functions on a record of the mutable fields.      *)
(***************************************************************************)
\* @typeAlias: st = { n: Int, bsz: Int, pend: Int, sunk: Int, taken: Int, torn: Bool, fault: Bool, aok: Bool };
\* @type: () => $st;
St == [n |-> n, bsz |-> bsz, pend |-> pend, sunk |-> sunk, taken |-> taken, torn |-> torn, fault |-> FALSE, aok |-> assertOk]

\* flush_finished_block with fault f; `fault` records that it returned Err
\* @type: ($st, Int) => $st;
Flush(s, f) ==
    IF s.pend = 0 \/ s.fault THEN s                 \* nothing to flush (or the call is already returning its error)
    ELSE IF f = 0 THEN [s EXCEPT !.sunk = s.sunk + s.pend, !.pend = 0, !.bsz = 0]
    ELSE IF f = 1 THEN [s EXCEPT !.fault = TRUE]
    ELSE [s EXCEPT !.fault = TRUE, !.torn = TRUE]

\* WriterInner::finish_block
\* @type: ($st) => $st;
InnerFinish(s) ==
    IF s.fault \/ s.n = 0 THEN s
    ELSE [s EXCEPT !.aok = s.aok /\ (s.pend = 0), !.pend = s.n, !.n = 0]

\* the common beginning of serialize / push_serialized
\* @type: ($st, Int, Int) => $st;
PreAmble(s, f1, f2) ==
    LET s1 == IF MutNoRetry THEN s ELSE Flush(s, f1) IN
    IF ~s1.fault /\ s1.bsz >= approx THEN Flush(InnerFinish(s1), f2) ELSE s1

\* WriterInner::serialize / push_serialized taking k objects of sz bytes in all
\* @type: ($st, Int, Int) => $st;
InnerTake(s, k, sz) ==
    IF s.fault THEN s
    ELSE LET s1 == [s EXCEPT !.n = s.n + k, !.bsz = s.bsz + sz, !.taken = s.taken + k] IN
         IF s1.bsz >= approx THEN InnerFinish(s1) ELSE s1

\* @type: ($st, Str, Bool) => Bool;
Return(s, res, isFin) ==
    /\ n' = s.n /\ bsz' = s.bsz /\ pend' = s.pend /\ sunk' = s.sunk /\ taken' = s.taken /\ torn' = s.torn
    /\ assertOk' = s.aok /\ seenFault' = s.fault /\ fin' = isFin /\ approx' = approx
    /\ last' = IF s.fault THEN (IF MutOkOnFault THEN "ok" ELSE "err_io") ELSE res

Faults == 0..2

\* serialize of a value that fits the schema (sz bytes), or push_serialized of k objects
Take(k, sz) ==
    \E f1 \in Faults, f2 \in Faults, f3 \in Faults :
        Return(Flush(InnerTake(PreAmble(St, f1, f2), k, sz), f3), "ok", FALSE)

\* serialize of a value that does not fit: the buffer is truncated back, the count is untouched, no final flush
TakeFail ==
    \E f1 \in Faults, f2 \in Faults : Return(PreAmble(St, f1, f2), "err_val", FALSE)

\* finish_block / into_inner
Finish ==
    \E f1 \in Faults : Return(Flush(InnerFinish(St), f1), "ok", TRUE)

Next ==
    \/ \E sz \in 0..MaxSz : Take(1, sz)
    \/ \E k \in 1..2, sz \in 0..MaxSz : Take(k, sz)
    \/ TakeFail
    \/ Finish

Init == /\ approx \in 0..4 /\ n = 0 /\ bsz = 0 /\ pend = 0 /\ sunk = 0 /\ taken = 0 /\ torn = FALSE
        /\ last = "ok" /\ fin = TRUE /\ seenFault = FALSE /\ assertOk = TRUE

(***************************************************************************)
(* What C15 / C16 say, on this skeleton.                                   *)
(***************************************************************************)
NothingLost    == sunk + pend + n = taken                  \* every object taken is in exactly one place
OneBlockAtATime == pend > 0 => n = 0                       \* (the writer's own assertion can never fire)
ErrorsSurface  == seenFault => last = "err_io"             \* C16: a failing sink is never swallowed
OkMeansFlushed == last = "ok" => pend = 0                  \* C15: after Ok the sink holds whole blocks only
AllAfterFinish == (fin /\ last = "ok") => (n = 0 /\ sunk = taken)
TypeOk == /\ approx >= 0 /\ n >= 0 /\ bsz >= 0 /\ pend >= 0 /\ sunk >= 0 /\ taken >= 0
          /\ last \in {"ok", "err_val", "err_io"}

IndInv == /\ TypeOk /\ NothingLost /\ OneBlockAtATime /\ ErrorsSurface /\ OkMeansFlushed /\ AllAfterFinish
          /\ assertOk
          /\ (pend = 0 /\ n = 0) => bsz = 0
          /\ (pend = 0 /\ last # "err_io") => (bsz < approx \/ n = 0)
          /\ (last = "err_io") => seenFault

\* any state satisfying the invariant, counters within 0..Bound
IndInit ==
    /\ approx \in 0..4 /\ n \in 0..Bound /\ bsz \in 0..Bound /\ pend \in 0..Bound /\ sunk \in 0..Bound /\ taken \in 0..18
    /\ torn \in BOOLEAN /\ fin \in BOOLEAN /\ seenFault \in BOOLEAN /\ assertOk \in BOOLEAN
    /\ last \in {"ok", "err_val", "err_io"}
    /\ IndInv

\* TLC: successors of IndInit states leave 0..Bound by at most 2 per step; two steps are explored, the invariant checked on all of them
Within == n <= Bound + 4 /\ pend <= Bound + 4 /\ taken <= 18 + 4 /\ bsz <= Bound + 2 * MaxSz
Small == taken <= 7

Spec == Init /\ [][Next]_vars
IndSpec == IndInit /\ [][Next]_vars
=============================================================================

CONSTANTS
    Alphabet = {0, 1, 2, 3, 4, 127, 128, 255}
    MaxLen = 3
    Depths = {0, 1, 2, 3}
    MaxSeqs = {0, 1, 2, 5}
    MutPerBlockCount = TRUE
SPECIFICATION Spec
INVARIANT Bounded
INVARIANT AgreesWithDec
INVARIANT Emit
PROPERTY Decreases
CHECK_DEADLOCK FALSE

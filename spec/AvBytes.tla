------------------------------ MODULE AvBytes ------------------------------
(***************************************************************************)
(* Bytes, 64-bit words as four 16-bit limbs, two's complement on byte      *)
(* strings, UTF-8 validity.  TLC integers are 32-bit, so every 64/128-bit  *)
(* quantity of the Avro wire format is a tuple of small naturals.          *)
(*                                                                         *)
(*   byte string  : tuple over 0..255                                      *)
(*   U64 / I64    : <<l1,l2,l3,l4>>, limb l1 least significant, each in    *)
(*                  0..65535; I64 is the two's complement reading          *)
(*   I128 (BE)    : 16-byte tuple, most significant byte first             *)
(***************************************************************************)
EXTENDS Naturals, Integers, Sequences, FiniteSets

Byte == 0..255
Limb == 0..65535

IsBytes(b) == /\ DOMAIN b = 1..Len(b)
              /\ \A i \in 1..Len(b) : b[i] \in Byte

IsU64(x) == /\ DOMAIN x = 1..4
            /\ \A i \in 1..4 : x[i] \in Limb

Pow2(n) == 2 ^ n   \* n <= 30 wherever it is used

MinN(a, b) == IF a < b THEN a ELSE b
MaxN(a, b) == IF a < b THEN b ELSE a

(***************************************************************************)
(* Limb words.                                                             *)
(***************************************************************************)
U64Zero == <<0, 0, 0, 0>>
U64Ones == <<65535, 65535, 65535, 65535>>

\* small natural (< 2^31) to limbs and back (partial: only when it fits)
NatToU64(n) == <<n % 65536, (n \div 65536) % 65536, 0, 0>>
U64FitsNat31(x) == x[3] = 0 /\ x[4] = 0 /\ x[2] < 32768
U64ToNat(x) == x[1] + 65536 * x[2]

IsNeg64(x) == x[4] >= 32768

Not64(x) == <<65535 - x[1], 65535 - x[2], 65535 - x[3], 65535 - x[4]>>

\* x + 1 modulo 2^64
Inc64(x) ==
    IF x[1] < 65535 THEN <<x[1] + 1, x[2], x[3], x[4]>>
    ELSE IF x[2] < 65535 THEN <<0, x[2] + 1, x[3], x[4]>>
    ELSE IF x[3] < 65535 THEN <<0, 0, x[3] + 1, x[4]>>
    ELSE IF x[4] < 65535 THEN <<0, 0, 0, x[4] + 1>>
    ELSE U64Zero

Neg64(x) == Inc64(Not64(x))      \* two's complement negation (wrapping)

\* small integer (|n| < 2^31) to I64 limbs
IntToI64(n) == IF n >= 0 THEN NatToU64(n) ELSE Neg64(NatToU64(-n))

\* unsigned comparison
Lt64(a, b) ==
    IF a[4] # b[4] THEN a[4] < b[4]
    ELSE IF a[3] # b[3] THEN a[3] < b[3]
    ELSE IF a[2] # b[2] THEN a[2] < b[2]
    ELSE a[1] < b[1]
Le64(a, b) == a = b \/ Lt64(a, b)

\* signed comparison
SLt64(a, b) ==
    IF IsNeg64(a) # IsNeg64(b) THEN IsNeg64(a) ELSE Lt64(a, b)
SLe64(a, b) == a = b \/ SLt64(a, b)

\* shift left / right by one bit (logical)
Shl1(x) == << (x[1] * 2) % 65536,
              ((x[2] * 2) % 65536) + (x[1] \div 32768),
              ((x[3] * 2) % 65536) + (x[2] \div 32768),
              ((x[4] * 2) % 65536) + (x[3] \div 32768) >>
Shr1(x) == << (x[1] \div 2) + (x[2] % 2) * 32768,
              (x[2] \div 2) + (x[3] % 2) * 32768,
              (x[3] \div 2) + (x[4] % 2) * 32768,
              (x[4] \div 2) >>

\* an I64 fits the i32 range  <=>  the upper 33 bits are all equal
FitsI32(x) == \/ (x[4] = 0 /\ x[3] = 0 /\ x[2] < 32768)
              \/ (x[4] = 65535 /\ x[3] = 65535 /\ x[2] >= 32768)
\* an I64 is a valid u32
FitsU32(x) == x[4] = 0 /\ x[3] = 0

\* 8 little-endian bytes <-> limbs
BytesLEToU64(b) == << b[1] + 256 * b[2], b[3] + 256 * b[4],
                      b[5] + 256 * b[6], b[7] + 256 * b[8] >>
U64ToBytesLE(x) == << x[1] % 256, x[1] \div 256, x[2] % 256, x[2] \div 256,
                      x[3] % 256, x[3] \div 256, x[4] % 256, x[4] \div 256 >>
U64ToBytesBE(x) == << x[4] \div 256, x[4] % 256, x[3] \div 256, x[3] % 256,
                      x[2] \div 256, x[2] % 256, x[1] \div 256, x[1] % 256 >>

(***************************************************************************)
(* Two's complement big-endian byte strings (decimals).                    *)
(***************************************************************************)
RECURSIVE TrimBE(_)
\* the shortest two's-complement big-endian form of a non-empty byte string
TrimBE(b) ==
    IF Len(b) <= 1 THEN b
    ELSE IF b[1] = 0 /\ b[2] < 128 THEN TrimBE(Tail(b))
    ELSE IF b[1] = 255 /\ b[2] >= 128 THEN TrimBE(Tail(b))
    ELSE b

\* sign-extend a non-empty big-endian two's complement string to n >= Len bytes
SignExtendBE(b, n) ==
    LET fill == IF b[1] >= 128 THEN 255 ELSE 0
    IN  [i \in 1..n |-> IF i <= n - Len(b) THEN fill ELSE b[i - (n - Len(b))]]

\* does the value denoted by the (non-empty) BE string b fit in n bytes ?
FitsBE(b, n) == Len(TrimBE(b)) <= n

\* the n-byte representation (n >= Len(TrimBE(b)))
ToSizeBE(b, n) == SignExtendBE(TrimBE(b), n)

\* I64 limbs -> 16-byte BE two's complement
I64ToBE16(x) ==
    LET fill == IF IsNeg64(x) THEN 255 ELSE 0
    IN  [i \in 1..8 |-> fill] \o U64ToBytesBE(x)

(***************************************************************************)
(* UTF-8 validity (RFC 3629: no overlongs, no surrogates, <= U+10FFFF).    *)
(***************************************************************************)
RECURSIVE Utf8From(_, _)
Utf8From(b, i) ==
    IF i > Len(b) THEN TRUE
    ELSE LET c == b[i]
             Cont(j) == j <= Len(b) /\ b[j] >= 128 /\ b[j] <= 191
         IN
         IF c <= 127 THEN Utf8From(b, i + 1)
         ELSE IF c >= 194 /\ c <= 223 THEN Cont(i + 1) /\ Utf8From(b, i + 2)
         ELSE IF c = 224 THEN i + 1 <= Len(b) /\ b[i + 1] >= 160 /\ b[i + 1] <= 191
                              /\ Cont(i + 2) /\ Utf8From(b, i + 3)
         ELSE IF (c >= 225 /\ c <= 236) \/ c = 238 \/ c = 239
              THEN Cont(i + 1) /\ Cont(i + 2) /\ Utf8From(b, i + 3)
         ELSE IF c = 237 THEN i + 1 <= Len(b) /\ b[i + 1] >= 128 /\ b[i + 1] <= 159
                              /\ Cont(i + 2) /\ Utf8From(b, i + 3)
         ELSE IF c = 240 THEN i + 1 <= Len(b) /\ b[i + 1] >= 144 /\ b[i + 1] <= 191
                              /\ Cont(i + 2) /\ Cont(i + 3) /\ Utf8From(b, i + 4)
         ELSE IF c >= 241 /\ c <= 243
              THEN Cont(i + 1) /\ Cont(i + 2) /\ Cont(i + 3) /\ Utf8From(b, i + 4)
         ELSE IF c = 244 THEN i + 1 <= Len(b) /\ b[i + 1] >= 128 /\ b[i + 1] <= 143
                              /\ Cont(i + 2) /\ Cont(i + 3) /\ Utf8From(b, i + 4)
         ELSE FALSE

Utf8Valid(b) == Utf8From(b, 1)

(***************************************************************************)
(* Sequence helpers.                                                       *)
(***************************************************************************)
RECURSIVE ConcatAll(_)
ConcatAll(ss) == IF Len(ss) = 0 THEN <<>> ELSE Head(ss) \o ConcatAll(Tail(ss))

Slice(b, from, n) == SubSeq(b, from, from + n - 1)   \* n elements starting at index `from` (1-based)

=============================================================================

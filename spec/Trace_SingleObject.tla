--------------------------- MODULE Trace_SingleObject ---------------------------
(***************************************************************************)
(* Single-object encoding (C18):  C3 01 ++ LE(CRC-64-AVRO(Pcf(schema)))    *)
(* ++ datum.                                                               *)
(*  "so_ser": [nodes, pres, res, bytes] - the real single-object           *)
(*     serializer.  Ok iff the presentation denotes a value (Den), and the *)
(*     bytes are exactly marker, fingerprint of the schema's canonical     *)
(*     form, then an encoding of the denoted value.                        *)
(*  "so_de":  [nodes, bytes, res, value, consumed] - the real single-      *)
(*     object deserializer under schema `nodes`.  Shorter than the header, *)
(*     wrong marker, or a fingerprint that is not that of `nodes` => err;  *)
(*     otherwise exactly what datum decoding of the rest gives.            *)
(***************************************************************************)
EXTENDS SerdeModel, SchemaDesc, Crc, Json, IOUtils

Rec == ndJsonDeserialize(IOEnv.VERIF_TRACE)

VARIABLE l

Marker == <<195, 1>>
FpOf(G) == Fingerprint(Pcf(GraphDesc(G).d))

SoSerAllowed(e) ==
    LET G == e.nodes  d == Den(G, 1, e.pres, FALSE) IN
    CASE e.res = "err" -> d.m # "ok"
      [] e.res = "ok" ->
            /\ d.m # "err"
            /\ Len(e.bytes) >= 10
            /\ SubSeq(e.bytes, 1, 2) = Marker
            /\ SubSeq(e.bytes, 3, 10) = FpOf(G)
            /\ (d.any \/ \E v \in d.vs : IsEncodingOf(G, SubSeq(e.bytes, 11, Len(e.bytes)), v))
      [] OTHER -> FALSE

SoDeAllowed(e) ==
    LET G == e.nodes IN
    IF Len(e.bytes) < 10 \/ SubSeq(e.bytes, 1, 2) # Marker \/ SubSeq(e.bytes, 3, 10) # FpOf(G) THEN e.res = "err"
    ELSE LET r == Dec(G, 1, SubSeq(e.bytes, 11, Len(e.bytes)), 1, DefaultDepth, DefaultMaxSeq) IN
         CASE r.st = "ok"   -> e.res = "ok" /\ e.value = r.v /\ (e.consumed >= 0 => e.consumed = 10 + r.pos - 1)
           [] r.st = "err"  -> e.res = "err"
           [] r.st = "free" -> e.res \in {"ok", "err"}

Init == l = 1
Next == /\ l <= Len(Rec)
        /\ \/ (Rec[l].ev = "so_ser" /\ SoSerAllowed(Rec[l]))
           \/ (Rec[l].ev = "so_de" /\ SoDeAllowed(Rec[l]))
        /\ l' = l + 1

Accepted ==
    \/ TLCGet("stats").diameter - 1 = Len(Rec)
    \/ (PrintT(<<"REJECT", TLCGet("stats").diameter>>) /\ FALSE)
=============================================================================

CONSTANTS
    FallbackI32Max = 5
    Alphabet = {0, 128, 130}
    MaxLen = 6
INIT Init
NEXT Next
INVARIANT Agree
CHECK_DEADLOCK FALSE

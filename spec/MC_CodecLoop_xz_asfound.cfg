CONSTANTS
    Codec = "xz"
    Arms <- ArmsXzAsFound
    MaxIn = 3
    MaxOut = 9
    Caps = {1, 2, 3}
SPECIFICATION Spec
INVARIANT WholeStream
INVARIANT NeverFails
INVARIANT InBounds
CHECK_DEADLOCK FALSE

CONSTANTS
    PartsId = 1
    MaxCalls = 6
    SrcLens = {0, 1, 9, 10, 11, 13}
    Mutant = 0
    Side = "w"
    Emit = TRUE
SPECIFICATION Spec
INVARIANT TypeOK
INVARIANT SinkIsPrefix
INVARIANT OkMeansWhole
INVARIANT FaultSurfaces
INVARIANT ReaderSound
INVARIANT ReaderShort
INVARIANT Emitted
CHECK_DEADLOCK FALSE

--------------------------- MODULE MC_SchemaGraphs ---------------------------
(***************************************************************************)
(* All node vectors of length 0..MaxNodes over the public node types with  *)
(* ARBITRARY keys (0 and len+1 are dangling), i.e. every shape of sharing, *)
(* every cycle through named or unnamed nodes, every dangling reference    *)
(* (C09, C19).  For each, TLC computes the canonical description           *)
(* (GraphDesc, a recursive traversal that must terminate: named nodes are  *)
(* written once, a cycle through unnamed nodes only is reported) and       *)
(* prints the vector with the class the implementation must answer:        *)
(*   "ok" (all of freeze / fingerprint / JSON succeed and the JSON parses  *)
(*   back to the same description), "cycle" / "dangling" / "empty" (error).*)
(* Names: node i is called N<i> in one of three namespaces so that every   *)
(* parent/child namespace relation occurs.                                 *)
(***************************************************************************)
EXTENDS SchemaDesc, Json, IOUtils

CONSTANT MaxNodes
NShards == atoi(IOEnv.VERIF_NSHARDS)
Shard   == atoi(IOEnv.VERIF_SHARD)

VARIABLE c

Keys(n) == 0..(n + 1)
NameOf(i, nsi) == (CASE nsi = 0 -> <<>> [] nsi = 1 -> <<97, 46>> [] nsi = 2 -> <<97, 46, 98, 46>>) \o <<78, 48 + i>>
FieldName(j) == <<102, 48 + j>>

\* the node shapes at position i of a vector of n nodes
NodeChoices(i, n) ==
    {[k |-> "long", lt |-> "none"]}
    \cup {[k |-> "array", lt |-> "none", items |-> a] : a \in Keys(n)}
    \cup {[k |-> "map", lt |-> "none", values |-> a] : a \in Keys(n)}
    \cup {[k |-> "union", lt |-> "none", variants |-> <<a>>] : a \in Keys(n)}
    \cup {[k |-> "union", lt |-> "none", variants |-> <<a, b>>] : a \in Keys(n), b \in Keys(n)}
    \cup {[k |-> "enum", lt |-> "none", name |-> NameOf(i, 1), symbols |-> <<<<65>>>>]}
    \cup {[k |-> "record", lt |-> "none", name |-> NameOf(i, nsi), fields |-> <<>>] : nsi \in {0}}
    \cup {[k |-> "record", lt |-> "none", name |-> NameOf(i, nsi), fields |-> <<[n |-> FieldName(1), t |-> a]>>] : nsi \in 0..2, a \in Keys(n)}
    \cup {[k |-> "record", lt |-> "none", name |-> NameOf(i, 1), fields |-> <<[n |-> FieldName(1), t |-> a], [n |-> FieldName(2), t |-> b]>>]
          : a \in Keys(n), b \in Keys(n)}

Init == c = [n |-> -1]
Next == /\ c.n = -1
        /\ \E n \in 0..MaxNodes :
             \* (nested choices, not a function set: TLC refuses to build sets of more than a million elements)
             \E a \in (IF n >= 1 THEN NodeChoices(1, n) ELSE {0}), b \in (IF n >= 2 THEN NodeChoices(2, n) ELSE {0}),
                d \in (IF n >= 3 THEN NodeChoices(3, n) ELSE {0}) :
              LET G == CASE n = 0 -> <<>> [] n = 1 -> <<a>> [] n = 2 -> <<a, b>> [] OTHER -> <<a, b, d>> IN
                /\ n <= 3
                /\ (IF n = 0 \/ NShards = 1 THEN Shard = 0
                    ELSE (Len(Kids(G[1])) + (IF n > 1 THEN 3 * Len(Kids(G[2])) ELSE 0) + (IF n > 2 THEN 5 * Len(Kids(G[3])) ELSE 0)) % NShards = Shard)
                /\ LET g == GraphDesc(G) IN
                   c' = [n |-> n, nodes |-> G, st |-> g.st, inRange |-> KeysInRange(G),
                         unique |-> (g.st = "ok" => UniqueFullnames(g.d))]

\* the traversal terminates with one of the four classes (no fuel needed: TLC would overflow its stack otherwise)
Classified == c.n = -1 \/ c.st \in {"ok", "cycle", "dangling", "empty"}
Emit == c.n = -1 \/ PrintT(<<"SCN", ToJson(c)>>)
=============================================================================

SPECIFICATION TraceSpec
CONSTANTS
  NS = 2
  NR = 2
  Graphs = {1, 2}
  MaxBad = 4
  MaxLen = 100000
  MutArcFirst = FALSE
  MutLeakPartial = FALSE
INVARIANT NoDangling
INVARIANT FrozenWhole
POSTCONDITION Accepted
CHECK_DEADLOCK FALSE

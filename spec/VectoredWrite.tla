---------------------------- MODULE VectoredWrite ----------------------------
(***************************************************************************)
(* The write_all_vectored loop that delivers a finished block (C16):       *)
(* three slices - block header, (compressed) data, sync marker - against a *)
(* sink that, at each write_vectored call, either accepts any non-zero     *)
(* prefix of what is offered, reports Interrupted (retried), returns Ok(0) *)
(* (=> WriteZero error) or fails hard.                                     *)
(*   bufs   remaining suffixes of the three slices (after advance_slices)  *)
(*   got    what the sink has received                                     *)
(*   result "run" | "ok" | "err"                                           *)
(***************************************************************************)
EXTENDS Naturals, Sequences, SequencesExt

CONSTANTS HdrLens, DataLens, MaxAccept,
          MutAdvanceOffByOne        \* mutation: the slices are advanced by one byte too few on a partial write

VARIABLES bufs, got, result, total

vars == <<bufs, got, result, total>>

Bytes(tag, n) == [i \in 1..n |-> <<tag, i>>]            \* distinguishable bytes

RECURSIVE Concat3(_)
Concat3(bs) == bs[1] \o bs[2] \o bs[3]

\* IoSlice::advance_slices: drop k bytes across slice borders
Advance(bs, k) ==
    LET l1 == Len(bs[1])  l2 == Len(bs[2]) IN
    IF k <= l1 THEN << SubSeq(bs[1], k + 1, l1), bs[2], bs[3] >>
    ELSE IF k <= l1 + l2 THEN << <<>>, SubSeq(bs[2], k - l1 + 1, l2), bs[3] >>
    ELSE << <<>>, <<>>, SubSeq(bs[3], k - l1 - l2 + 1, Len(bs[3])) >>

Remaining == Len(bufs[1]) + Len(bufs[2]) + Len(bufs[3])

Init == \E h \in HdrLens, d \in DataLens :
          /\ bufs = << Bytes("h", h), Bytes("d", d), Bytes("s", 2) >>
          /\ total = Bytes("h", h) \o Bytes("d", d) \o Bytes("s", 2)
          /\ got = <<>> /\ result = "run"

Accept(k) ==
    /\ got' = got \o SubSeq(Concat3(bufs), 1, k)
    /\ bufs' = Advance(bufs, IF MutAdvanceOffByOne /\ k > 1 /\ k < Remaining THEN k - 1 ELSE k)
    /\ UNCHANGED result

Step ==
    /\ result = "run" /\ UNCHANGED total
    /\ IF Remaining = 0
       THEN result' = "ok" /\ UNCHANGED <<bufs, got>>                       \* while !bufs.is_empty()
       ELSE \/ \E k \in 1..(IF Remaining < MaxAccept THEN Remaining ELSE MaxAccept) : Accept(k)
            \/ UNCHANGED <<bufs, got, result>>                              \* Interrupted: retried
            \/ (result' = "err" /\ UNCHANGED <<bufs, got>>)                 \* Ok(0) -> WriteZero, or a hard error

Spec == Init /\ [][Step]_vars /\ WF_vars(Step)

NothingLostOrDuplicated == got \o Concat3(bufs) = total
InOrder  == IsPrefix(got, total)
OkMeansAll == result = "ok" => got = total
\* under a sink that eventually stops interrupting, the loop ends
Terminates == <>(result # "run")

=============================================================================

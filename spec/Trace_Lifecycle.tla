-------------------------- MODULE Trace_Lifecycle --------------------------
(***************************************************************************)
(* Trace validation of the lifecycle interpreter's runs (C10) against      *)
(* Lifecycle.tla.  The trace is a sequence of histories; each event is one *)
(* operation of a history with what the real objects answered:             *)
(*   [op |-> <the operation record TLC generated>, res, strong]            *)
(*     res     for "freeze": "ok" | "err"                                  *)
(*     strong  for "drop_handle": Arc::strong_count observed just before   *)
(*             the handle is dropped (-1 elsewhere)                        *)
(*   [op |-> [op |-> "reset"]]  starts the next history                    *)
(*   [op |-> [op |-> "drop_reader2"]]  the second half of a reader's drop  *)
(*             (inserted by the driver after every drop_reader)            *)
(* An event is accepted iff the operation is enabled in the model state    *)
(* reached so far (the interpreter and the model agree on what the borrow  *)
(* checker allows), freeze answers what Lifecycle!Freeze predicts, and the *)
(* observed strong count is the number of owners the model attributes to   *)
(* that node vector - Lifecycle's Accounting invariant, observed on the    *)
(* real Arc.                                                               *)
(***************************************************************************)
EXTENDS Lifecycle, IOUtils

Rec == ndJsonDeserialize(IOEnv.VERIF_TRACE)

VARIABLE l

\* handles on an allocation: every Arc handle in a caller slot, plus the reader's own
RECURSIVE SumH(_, _)
SumH(S, a) == IF S = {} THEN 0 ELSE LET s == CHOOSE x \in S : TRUE IN
              (IF sch[s].a = a /\ sch[s].st = "arc" THEN sch[s].h ELSE 0) + SumH(S \ {s}, a)
Strong(a) == SumH(Slots, a) + Cardinality({r \in Readers : a = RA(r) /\ rd[r].st \in {"open", "half"}})

ObsOk(e) ==
    CASE e.op.op = "freeze" -> e.res = (IF sch[e.op.s].bad = 0 THEN "ok" ELSE "err")
      [] e.op.op = "drop_handle" -> e.strong = Strong(sch[e.op.s].a)
      [] OTHER -> TRUE

TraceInit == Init /\ l = 1

Reset == /\ sch' = [s \in Slots |-> EmptySlot] /\ rd' = [r \in Readers |-> [st |-> "none", n |-> 0]]
         /\ alloc' = [a \in Allocs |-> "unborn"] /\ refs' = {} /\ stk' = <<>> /\ hist' = <<>>

TraceNext ==
    /\ l <= Len(Rec)
    /\ l' = l + 1
    /\ LET e == Rec[l] IN
       IF e.op.op = "reset" THEN Reset
       ELSE IF e.op.op = "drop_reader2" THEN \E r \in Readers : DropReader2(r)
       ELSE /\ ObsOk(e)
            /\ Next
            /\ hist' # hist /\ hist'[Len(hist')] = e.op      \* the model took exactly this operation

TraceSpec == TraceInit /\ [][TraceNext]_<<vars, l>>

Accepted ==
    \/ TLCGet("stats").diameter - 1 = Len(Rec)
    \/ (PrintT(<<"REJECT", TLCGet("stats").diameter>>) /\ FALSE)
=============================================================================

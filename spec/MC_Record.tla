------------------------------ MODULE MC_Record ------------------------------
(***************************************************************************)
(* C13: every way of presenting the fields of a record.                    *)
(* For each record schema of the scope, all sequences of length <= nf + 1  *)
(* over (field names + one unknown name) - i.e. every permutation, every   *)
(* omission subset, every duplicate and unknown injection - presented as a *)
(* struct, as a map with serialize_entry, and as a map with serialize_key/ *)
(* serialize_value.  Field values rotate over a small catalogue per field  *)
(* schema (valid values; for nested records: in order, reversed, nullable  *)
(* omitted, required missing, duplicate; a value of the wrong type; a      *)
(* failing value).  The verdict is SerdeModel!Den (RecordAbs): bytes in    *)
(* schema order with null for omitted nullable fields, or an error.        *)
(***************************************************************************)
EXTENDS RecordPres, Json, IOUtils

Scope   == ndJsonDeserialize(IOEnv.VERIF_SCOPE)
NShards == atoi(IOEnv.VERIF_NSHARDS)
Shard   == atoi(IOEnv.VERIF_SHARD)

VARIABLE c

Forms == {"struct", "entry", "kv"}

MkCell(i, order, rot, form) ==
    LET G    == Scope[i].nodes
        p    == RecPres(G, order, rot, form)
        d    == Den(G, 1, p, TRUE)
    IN  [si |-> i, sid |-> Scope[i].sid, pi |-> 0, pres |-> p, slow |-> TRUE,
         m |-> d.m, any |-> d.any, nvs |-> Cardinality(d.vs),
         okb |-> SetToSeq({Enc(G, 1, v) : v \in d.vs}),
         sane |-> /\ (d.m = "ok" => (~d.any /\ d.vs # {}))
                  /\ (d.m = "err" => (~d.any /\ d.vs = {}))
                  /\ \A v \in d.vs : Conforms(G, 1, v) /\ IsEncodingOf(G, Enc(G, 1, v), v)
                  \* the implementation-shaped record machinery refines RecordAbs on this presentation
                  /\ CallRefinesAbs(G, p, EmptyPool, -1, TRUE)
                  /\ PoolClean(Call(G, p, EmptyPool, -1, TRUE).pool)]

Init == c = [si |-> 0]
Next == /\ c.si = 0
        /\ \E i \in 1..Len(Scope) :
             LET nf == Len(Scope[i].nodes[1].fields) IN
             \E order \in SeqsUpTo(nf + 1, nf + 1), rot \in 0..2, form \in Forms :
                /\ (i + Len(order) * 3 + rot + (IF Len(order) > 0 THEN order[1] * 5 ELSE 0)) % NShards = Shard
                /\ (form # "struct" => rot = 0)
                /\ c' = MkCell(i, order, rot, form)

CellSane == c.si = 0 \/ c.sane
Emit == c.si = 0 \/ PrintT(<<"SCN", ToJson(c)>>)

=============================================================================

------------------------------ MODULE Trace_Writer ------------------------------
(***************************************************************************)
(* Trace validation of container-writer sessions (C15, C05/C06 write side) *)
(* against ContainerWriterAbs, over real bytes:                            *)
(*                                                                         *)
(* "w_build": the header the real writer delivered: magic, metadata map    *)
(*    with avro.schema = the schema's JSON text, avro.codec = the codec's  *)
(*    name, every user metadata entry; the requested sync marker; nothing  *)
(*    after it.                                                            *)
(* "w_op": one call (serialize pres | push bytes,n | finish | into_inner | *)
(*    drop) with its result and the blocks that appeared in the sink       *)
(*    during the call (walked and de-framed by the harness calling the     *)
(*    codec libraries directly).  Allowed iff                              *)
(*      - serialize: Ok iff the presentation denotes a value (Den); a      *)
(*        failed value contributes nothing; push adds its n items;         *)
(*      - every new block: count >= 1, the header's sync marker, raw       *)
(*        payload = concatenation of the encodings of the next `count`     *)
(*        accepted items (so the sink holds, in order, a prefix of the     *)
(*        accepted items); declared size = payload length and the sink     *)
(*        ends on a block boundary (`aligned`); for snappy the 4 trailing  *)
(*        bytes are the big-endian CRC-32 of the raw data;                 *)
(*      - after a successful finish / into_inner / drop everything         *)
(*        accepted is in the sink;                                         *)
(*      - res = "err_io": the call failed because the sink failed (C16     *)
(*        scenarios where the failing sink call accepted nothing): the     *)
(*        value may or may not have been taken, and the stream must stay   *)
(*        a valid file that later calls complete.                          *)
(***************************************************************************)
EXTENDS SerdeModel, ContainerFile, Crc, SchemaDesc, Json, IOUtils, TLC

Rec   == ndJsonDeserialize(IOEnv.VERIF_TRACE)
Scope == ndJsonDeserialize(IOEnv.VERIF_SCOPE)

VARIABLES l, si, sync, codec, accepted, nflushed

CodecSnappy == <<115, 110, 97, 112, 112, 121>>

BuildAllowed(e) ==
    /\ e.res = "ok"
    /\ LET h == ParseHeader(e.header) IN
       /\ h.st = "ok"
       /\ h.schema = e.schema_json
       /\ h.codec = e.codec
       /\ h.sync = e.sync
       /\ h.pos = Len(e.header) + 1
       /\ \A i \in 1..Len(e.meta) : MetaLookup(h.meta, e.meta[i][1], 1) = e.meta[i][2]
    \* the schema text in the header denotes the schema the values are encoded with (e.json_nodes: that text parsed back; empty when the
    \* harness did not provide it) - whatever history of edits the schema went through before it was frozen
    /\ (Len(e.json_nodes) > 0 => GraphDesc(e.json_nodes) = GraphDesc(Scope[e.si].nodes))

RECURSIVE ConcatRange(_, _, _)
ConcatRange(items, from, cnt) == IF cnt = 0 THEN <<>> ELSE items[from] \o ConcatRange(items, from + 1, cnt - 1)

\* the new blocks continue the accepted items from position nf: returns the new number of flushed items, or -1
RECURSIVE BlocksOk(_, _, _, _)
BlocksOk(blocks, i, acc, nf) ==
    IF i > Len(blocks) THEN nf
    ELSE LET b == blocks[i] IN
         IF /\ b.count >= 1 /\ nf + b.count <= Len(acc)
            /\ b.deframe_ok
            /\ b.sync = sync
            /\ b.raw = ConcatRange(acc, nf + 1, b.count)
            /\ (codec = CodecSnappy => b.trailer = Crc32BE(b.raw))
         THEN BlocksOk(blocks, i + 1, acc, nf + b.count)
         ELSE -1

\* candidate values of `accepted` after the call (several when a sink error leaves it open whether the value was taken)
Candidates(e) ==
    LET G == Scope[si].nodes IN
    CASE e.op = "serialize" ->
            LET d    == Den(G, 1, e.pres, FALSE)
                item == IF d.m # "err" /\ ~d.any /\ Cardinality(d.vs) = 1 THEN {Enc(G, 1, CHOOSE v \in d.vs : TRUE)} ELSE {}
            IN  IF e.res = "ok" THEN {Append(accepted, it) : it \in item}
                ELSE IF e.res = "err" THEN (IF d.m # "ok" THEN {accepted} ELSE {})
                ELSE IF e.res = "err_io" THEN {accepted} \cup {Append(accepted, it) : it \in item}     \* the sink failed during this call
                ELSE {}
      [] e.op = "serialize_all" ->
            \* Writer::serialize_all: the values one after the other; on an error the ones before it stay accepted
            LET n     == Len(e.pres_list)
                ds    == [i \in 1..n |-> Den(G, 1, e.pres_list[i], FALSE)]
                enc(i) == Enc(G, 1, CHOOSE v \in ds[i].vs : TRUE)
                clear(i) == ds[i].m # "err" /\ ~ds[i].any /\ Cardinality(ds[i].vs) = 1
                pre(j) == accepted \o [i \in 1..j |-> enc(i)]
            IN  IF e.res = "ok" THEN (IF \A i \in 1..n : clear(i) THEN {pre(n)} ELSE {})
                ELSE IF e.res = "err" THEN {pre(j) : j \in {k \in 0..(n - 1) : (\A i \in 1..k : clear(i)) /\ ds[k + 1].m # "ok"}}
                ELSE IF e.res = "err_io" THEN {pre(j) : j \in {k \in 0..n : \A i \in 1..k : clear(i)}}
                ELSE {}
      [] e.op = "push" ->
            LET it == ItemsFrom(G, e.bytes, 1, e.n) IN
            IF ~it.ok THEN {}
            ELSE IF e.res = "ok" THEN {accepted \o it.items}
            ELSE IF e.res = "err_io" THEN {accepted, accepted \o it.items}
            ELSE {}
      [] OTHER -> IF e.res \in {"ok", "err_io"} THEN {accepted} ELSE {}

\* Hook state [objects in the open block, a finished block awaits its flush (0/1), bytes in the block buffer] after a call that
\* returned Ok, or Err for a reason other than the sink: no block is pending, and the open block holds exactly the accepted items
\* that are not yet in the sink - their count and their bytes (a value that failed half-way has been rolled back).
RECURSIVE SumLen(_, _)
SumLen(items, from) == IF from > Len(items) THEN 0 ELSE Len(items[from]) + SumLen(items, from + 1)
HookOk(e, newAcc, nf) ==
    IF e.hs[1] = -1 \/ e.res \notin {"ok", "err"} THEN TRUE        \* (IF, not \/: inside an action every disjunct is evaluated)
    ELSE /\ e.hs[2] = 0
         /\ e.hs[1] = Len(newAcc) - nf
         /\ e.hs[3] = SumLen(newAcc, nf + 1)

OpAllowed(e) ==
    \E newAcc \in Candidates(e) :
        LET nf == BlocksOk(e.blocks, 1, newAcc, nflushed) IN
        /\ nf >= 0
        /\ HookOk(e, newAcc, nf)
        /\ e.aligned
        /\ ((e.res = "ok" /\ e.op \in {"finish", "into_inner", "drop"}) => nf = Len(newAcc))
        /\ accepted' = newAcc /\ nflushed' = nf

Init == l = 1 /\ si = 0 /\ sync = <<>> /\ codec = <<>> /\ accepted = <<>> /\ nflushed = 0
Next ==
    /\ l <= Len(Rec)
    /\ LET e == Rec[l] IN
       \/ /\ e.ev = "w_build" /\ BuildAllowed(e)
          /\ si' = e.si /\ sync' = e.sync /\ codec' = e.codec /\ accepted' = <<>> /\ nflushed' = 0
       \/ /\ e.ev = "w_op" /\ OpAllowed(e)
          /\ UNCHANGED <<si, sync, codec>>
    /\ l' = l + 1

Accepted ==
    \/ TLCGet("stats").diameter - 1 = Len(Rec)
    \/ (PrintT(<<"REJECT", TLCGet("stats").diameter>>) /\ FALSE)

=============================================================================

CONSTANTS
    FallbackI32Max = 10
    Alphabet = {0, 1, 2, 127, 128, 129, 255}
    MaxLen = 5
INIT Init
NEXT Next
INVARIANT Agree
CHECK_DEADLOCK FALSE

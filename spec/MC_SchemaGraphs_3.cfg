CONSTANT MaxNodes = 3
INIT Init
NEXT Next
INVARIANT Classified
INVARIANT Emit
CHECK_DEADLOCK FALSE

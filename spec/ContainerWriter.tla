--------------------------- MODULE ContainerWriter ---------------------------
(***************************************************************************)
(* The object-container writer (C15, C05 write side).                      *)
(*                                                                         *)
(* Abstract property (ContainerWriterAbs), over the sink and the history   *)
(* of accepted items only: after every call that returned Ok               *)
(*   ValidBlocks      every block in the sink has count = number of items, *)
(*                    count > 0;                                           *)
(*   PrefixOfAccepted the items in the sink, in order, are a prefix of the *)
(*                    accepted items;                                      *)
(*   AllAfterFlush    after finish_block / into_inner / drop they are all  *)
(*                    of them;                                             *)
(*   a failed serialize contributes nothing.                               *)
(*                                                                         *)
(* Implementation-shaped state (ContainerWriterImpl), one operator per     *)
(* method of the writer:                                                   *)
(*   buf      uncompressed open block; also the data of the encoded block  *)
(*            until it has been flushed                                    *)
(*   n        n_elements_in_block                                          *)
(*   pending  0, or the count of the encoded block awaiting its flush      *)
(*            (block_header_size = Some)                                   *)
(*   sink     blocks delivered after the header: << [count, items] >>      *)
(* Items are abstract: [id, sz] with sz its encoded size.                  *)
(***************************************************************************)
EXTENDS Naturals, Sequences, SequencesExt, FiniteSets

CONSTANTS Approx,        \* approx_block_size
          Sizes,         \* possible item sizes
          MaxOps,
          MutCountBeforeSerialize,   \* mutation: n incremented before the (possibly failing) serialization
          MutFinishOnNonEmptyBuf     \* mutation: "is there a block?" decided by !buf.is_empty() instead of n > 0

VARIABLES buf, n, pending, sink, accepted, lastFlush, assertOk, ops, nextId

vars == <<buf, n, pending, sink, accepted, lastFlush, assertOk, ops, nextId>>

RECURSIVE SizeOf(_)
SizeOf(items) == IF Len(items) = 0 THEN 0 ELSE Head(items).sz + SizeOf(Tail(items))

St == [buf |-> buf, n |-> n, pending |-> pending, sink |-> sink, assertOk |-> assertOk]

\* flush_finished_block (reliable sink)
Flush(st) ==
    IF st.pending = 0 THEN st
    ELSE [st EXCEPT !.sink = Append(st.sink, [count |-> st.pending, items |-> st.buf]),
                    !.pending = 0, !.buf = <<>>]

\* WriterInner::finish_block
InnerFinish(st) ==
    IF (IF MutFinishOnNonEmptyBuf THEN SizeOf(st.buf) > 0 ELSE st.n > 0)
    THEN [st EXCEPT !.assertOk = st.assertOk /\ (st.pending = 0),     \* "previous block should always be flushed"
                    !.pending = st.n, !.n = 0]
    ELSE st

FinishBlock(st) == Flush(InnerFinish(st))

\* start of serialize / push_serialized
PreAmble(st) == LET s1 == Flush(st) IN IF SizeOf(s1.buf) >= Approx THEN FinishBlock(s1) ELSE s1

InnerPush(st, items, cnt) ==
    LET s1 == [st EXCEPT !.buf = st.buf \o items, !.n = st.n + cnt]
    IN  IF SizeOf(s1.buf) >= Approx THEN InnerFinish(s1) ELSE s1

Apply(s) == /\ buf' = s.buf /\ n' = s.n /\ pending' = s.pending /\ sink' = s.sink /\ assertOk' = s.assertOk

SerializeOk(sz) ==
    LET it == [id |-> nextId, sz |-> sz] IN
    /\ Apply(Flush(InnerPush(PreAmble(St), <<it>>, 1)))
    /\ accepted' = Append(accepted, it) /\ nextId' = nextId + 1 /\ lastFlush' = FALSE

\* the value does not match the schema: bytes written so far are truncated out, the count is not incremented
SerializeFail ==
    /\ Apply(IF MutCountBeforeSerialize THEN [PreAmble(St) EXCEPT !.n = @ + 1] ELSE PreAmble(St))
    /\ UNCHANGED <<accepted, nextId>> /\ lastFlush' = FALSE

Push(szs) ==
    LET items == [i \in 1..Len(szs) |-> [id |-> nextId + i - 1, sz |-> szs[i]]] IN
    /\ Apply(Flush(InnerPush(PreAmble(St), items, Len(items))))
    /\ accepted' = accepted \o items /\ nextId' = nextId + Len(items) /\ lastFlush' = FALSE

Finish ==
    /\ Apply(FinishBlock(St)) /\ lastFlush' = TRUE /\ UNCHANGED <<accepted, nextId>>

Init == /\ buf = <<>> /\ n = 0 /\ pending = 0 /\ sink = <<>> /\ accepted = <<>>
        /\ lastFlush = TRUE /\ assertOk = TRUE /\ ops = 0 /\ nextId = 1

Next == /\ ops < MaxOps /\ ops' = ops + 1
        /\ \/ \E sz \in Sizes : SerializeOk(sz)
           \/ SerializeFail
           \/ \E a \in Sizes, b \in Sizes : Push(<<a, b>>)
           \/ \E a \in Sizes : Push(<<a>>)
           \/ Finish                     \* finish_block, into_inner and Drop all end with this

Spec == Init /\ [][Next]_vars

RECURSIVE Flatten(_)
Flatten(blocks) == IF Len(blocks) = 0 THEN <<>> ELSE Head(blocks).items \o Flatten(Tail(blocks))

ValidBlocks      == \A i \in DOMAIN sink : sink[i].count = Len(sink[i].items) /\ sink[i].count > 0
PrefixOfAccepted == IsPrefix(Flatten(sink), accepted)
AllAfterFlush    == lastFlush => Flatten(sink) = accepted
Quiescent        == pending = 0 /\ n = Len(buf)          \* nothing half-written when a call returns
AssertUnreachable == assertOk
NothingLostInside == Flatten(sink) \o buf = accepted    \* what is not in the sink yet is exactly the open block

=============================================================================

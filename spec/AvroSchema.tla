----------------------------- MODULE AvroSchema -----------------------------
(***************************************************************************)
(* Avro schemas as graphs: a schema is a sequence of nodes, node 1 is the  *)
(* root, children are referred to by their index ("key") - the same shape  *)
(* as the implementation's editable schema (a node vector with keys), so   *)
(* the same JSON line can be handed to the builder API or rendered as a    *)
(* document.                                                               *)
(*                                                                         *)
(* node == [k |-> kind, lt |-> logical type name or "none", ...]           *)
(*   k \in {"null","boolean","int","long","float","double","bytes",        *)
(*          "string","array","map","union","record","enum","fixed"}       *)
(*   array: items (key)      map: values (key)   union: variants (keys)    *)
(*   record: name, fields = << [n |-> text, t |-> key] >>                  *)
(*   enum: name, symbols = << text >>     fixed: name, size                *)
(*   lt = "decimal": prec, scale                                           *)
(* Texts (names, symbols, field names) are tuples of UTF-8 byte codes.     *)
(***************************************************************************)
EXTENDS AvBytes

Primitives == {"null", "boolean", "int", "long", "float", "double", "bytes", "string"}
Containers == {"array", "map", "union", "record"}
NamedKinds == {"record", "enum", "fixed"}
AllKinds   == Primitives \cup Containers \cup {"enum", "fixed"}

(***************************************************************************)
(* Effective kind: what the schema node means once logical types are taken *)
(* into account.  A logical type that does not match its underlying type   *)
(* (or is unknown) is ignored, as the Avro specification requires.         *)
(***************************************************************************)
Eff(n) ==
    CASE n.lt = "decimal"          /\ n.k = "bytes"  -> "decimal_bytes"
      [] n.lt = "decimal"          /\ n.k = "fixed"  -> "decimal_fixed"
      [] n.lt = "big-decimal"      /\ n.k = "bytes"  -> "bigdecimal"
      [] n.lt = "uuid"             /\ n.k = "string" -> "uuid"
      [] n.lt = "date"             /\ n.k = "int"    -> "date"
      [] n.lt = "time-millis"      /\ n.k = "int"    -> "time-millis"
      [] n.lt = "time-micros"      /\ n.k = "long"   -> "time-micros"
      [] n.lt = "timestamp-millis" /\ n.k = "long"   -> "timestamp-millis"
      [] n.lt = "timestamp-micros" /\ n.k = "long"   -> "timestamp-micros"
      [] n.lt = "duration"         /\ n.k = "fixed" /\ n.size = 12 -> "duration"
      [] OTHER -> n.k

IntLike    == {"int", "date", "time-millis"}
LongLike   == {"long", "time-micros", "timestamp-millis", "timestamp-micros"}
StringLike == {"string", "uuid"}
DecimalLike == {"decimal_bytes", "decimal_fixed", "bigdecimal"}

EffKinds == AllKinds \cup {"decimal_bytes", "decimal_fixed", "bigdecimal", "uuid", "date",
                           "time-millis", "time-micros", "timestamp-millis",
                           "timestamp-micros", "duration"}

\* children keys of a node
Kids(n) ==
    CASE n.k = "array"  -> <<n.items>>
      [] n.k = "map"    -> <<n.values>>
      [] n.k = "union"  -> n.variants
      [] n.k = "record" -> [i \in 1..Len(n.fields) |-> n.fields[i].t]
      [] OTHER -> <<>>

KeysInRange(G) == \A i \in 1..Len(G) : \A j \in 1..Len(Kids(G[i])) : Kids(G[i])[j] \in 1..Len(G)

\* Is union node u's branch list free of `null`?  index (1-based) of the first branch with effective kind e, 0 if none
RECURSIVE FirstBranch(_, _, _, _)
FirstBranch(G, u, e, i) ==
    IF i > Len(u.variants) THEN 0
    ELSE IF Eff(G[u.variants[i]]) = e THEN i
    ELSE FirstBranch(G, u, e, i + 1)

\* a field/element schema that may be omitted when serializing a record: null, or a union with a null branch
Nullable(G, key) ==
    LET n == G[key]
    IN  \/ Eff(n) = "null"
        \/ (n.k = "union" /\ FirstBranch(G, n, "null", 1) # 0)

=============================================================================

----------------------------- MODULE BlockDecoder -----------------------------
(***************************************************************************)
(* The datum decoder as an explicit machine (C04): one action per varint / *)
(* length-prefixed read / block header / element / descent / return, with  *)
(* the three limits allowed_depth, max_seq_size (and the input length).    *)
(*   b        input bytes            pos      next byte to read (1-based)  *)
(*   stack    frames, bottom first: [k (node key), ph (phase), left        *)
(*            (elements left in the open block / fields left), nread       *)
(*            (cumulative count of the collection), d (depth budget of     *)
(*            the frame's children)]                                       *)
(*   status   "run" | "ok" | "err"                                         *)
(* Checked for ALL byte strings over a small alphabet, all schemas of the  *)
(* scope and all limit configurations:                                     *)
(*   Bounded      pos never passes the input; the stack never exceeds      *)
(*                allowed_depth + 1 frames; no collection counts more than *)
(*                max_seq_size elements;                                   *)
(*   Decreases    every step strictly decreases the measure                *)
(*                <<bytes left, <<left of each frame, bottom first>>>>     *)
(*                (lexicographic; a prefix is smaller) - so the machine    *)
(*                terminates, and the number of steps is bounded by a      *)
(*                function of the input length and the limits, never by    *)
(*                numbers written in the input;                            *)
(*   AgreesWithDec  the final answer is the one of the functional          *)
(*                specification Dec (AvroBinary), which C03 uses.          *)
(***************************************************************************)
EXTENDS AvroBinary, Json, TLC

CONSTANTS Alphabet, MaxLen, Depths, MaxSeqs,
          MutPerBlockCount      \* mutation: max_seq_size checked per block instead of cumulatively

VARIABLES b, G, pos, stack, status, depth0, maxseq, gi

vars == <<b, G, pos, stack, status, depth0, maxseq, gi>>

Nul == [k |-> "null", lt |-> "none"]
Lng == [k |-> "long", lt |-> "none"]
Str == [k |-> "string", lt |-> "none"]
Arr(i) == [k |-> "array", lt |-> "none", items |-> i]
Mp(i) == [k |-> "map", lt |-> "none", values |-> i]
Un(vs) == [k |-> "union", lt |-> "none", variants |-> vs]
Rc(nm, fs) == [k |-> "record", lt |-> "none", name |-> nm, fields |-> fs]
F(n, t) == [n |-> <<n>>, t |-> t]

Graphs == <<
    << Arr(2), Nul >>,                                        \* array of zero-byte elements
    << Arr(2), Arr(3), Nul >>,                                \* nested arrays of zero-byte elements
    << Arr(2), Lng >>,
    << Mp(2), Nul >>,
    << Rc(<<82>>, <<F(118, 2), F(110, 3)>>), Lng, Un(<<4, 1>>), Nul >>,     \* recursive list R{v: long, next: [null, R]}
    << Rc(<<85>>, <<F(117, 2)>>), Un(<<3, 4, 5>>), Nul, Str, Arr(1) >>,   \* a record reaching itself through a union and an array
    << Rc(<<82>>, <<F(97, 2), F(98, 2)>>), Arr(3), Nul >>,
    << Str >>
>>

RECURSIVE Strings(_)
Strings(n) == IF n = 0 THEN { <<>> } ELSE LET s == Strings(n - 1) IN s \cup { Append(x, c) : x \in {y \in s : Len(y) = n - 1}, c \in Alphabet }

Frame(k, d) == [k |-> k, ph |-> "start", left |-> 0, nread |-> 0, d |-> d]

Init == /\ gi \in 1..Len(Graphs) /\ G = Graphs[gi]
        /\ b \in Strings(MaxLen) /\ depth0 \in Depths /\ maxseq \in MaxSeqs
        /\ pos = 1 /\ status = "run"
        /\ stack = << Frame(1, depth0) >>

Top == stack[Len(stack)]
Pop == SubSeq(stack, 1, Len(stack) - 1)
SetTop(f) == [stack EXCEPT ![Len(stack)] = f]
Fail == status' = "err" /\ UNCHANGED <<pos, stack>>
\* finish the current value: pop its frame; the datum is complete when the stack empties
Return(newPos) == /\ pos' = newPos
                  /\ stack' = Pop
                  /\ status' = IF Len(stack) = 1 THEN "ok" ELSE "run"

Step ==
    /\ status = "run" /\ UNCHANGED <<b, G, depth0, maxseq, gi>>
    /\ LET f == Top  n == G[f.k] IN
       CASE n.k = "null" -> Return(pos)
         [] n.k = "long" ->
               LET r == DecLongRaw(b, pos) IN
               IF r.st = "ok" THEN Return(pos + r.n) ELSE Fail
         [] n.k = "string" ->
               LET l == ReadLen(b, pos) IN
               IF l.st # "ok" THEN Fail
               ELSE IF ~Utf8Valid(Slice(b, l.pos, l.n)) THEN Fail
               ELSE Return(l.pos + l.n)
         [] n.k = "union" ->
               IF f.ph = "start" THEN
                   IF f.d = 0 THEN Fail
                   ELSE LET r == ReadIndex(b, pos, Len(n.variants)) IN
                        IF r.st # "ok" THEN Fail
                        ELSE /\ pos' = r.pos /\ status' = "run"
                             /\ stack' = Append(SetTop([f EXCEPT !.ph = "done"]), Frame(n.variants[r.n + 1], f.d - 1))
               ELSE Return(pos)
         [] n.k = "record" ->
               IF f.ph = "start" THEN
                   IF f.d = 0 THEN Fail
                   ELSE /\ stack' = SetTop([f EXCEPT !.ph = "fields", !.left = Len(n.fields)]) /\ UNCHANGED <<pos, status>>
               ELSE IF f.left = 0 THEN Return(pos)
               ELSE /\ stack' = Append(SetTop([f EXCEPT !.left = f.left - 1]),
                                       Frame(n.fields[Len(n.fields) - f.left + 1].t, f.d - 1))
                    /\ UNCHANGED <<pos, status>>
         [] n.k \in {"array", "map"} ->
               IF f.ph = "start" THEN
                   IF f.d = 0 THEN Fail
                   ELSE /\ stack' = SetTop([f EXCEPT !.ph = "hdr"]) /\ UNCHANGED <<pos, status>>
               ELSE IF f.ph = "hdr" THEN
                   LET c == DecLongRaw(b, pos) IN
                   IF c.st # "ok" THEN Fail
                   ELSE IF c.x = U64Zero THEN Return(pos + c.n)
                   ELSE LET neg  == IsNeg64(c.x)
                            cntU == IF neg THEN Neg64(c.x) ELSE c.x
                            sz   == IF neg THEN DecVarRaw(b, pos + c.n) ELSE [st |-> "ok", n |-> 0]
                        IN  IF sz.st # "ok" THEN Fail
                            ELSE IF ~U64FitsNat31(cntU) \/ U64ToNat(cntU) > (IF MutPerBlockCount THEN maxseq ELSE maxseq - f.nread) THEN Fail
                            ELSE /\ pos' = pos + c.n + sz.n /\ status' = "run"
                                 /\ stack' = SetTop([f EXCEPT !.ph = "elem", !.left = U64ToNat(cntU), !.nread = f.nread + U64ToNat(cntU)])
               ELSE \* "elem": one more element of the open block, or back to the next block header
                   IF f.left = 0 THEN /\ stack' = SetTop([f EXCEPT !.ph = "hdr"]) /\ UNCHANGED <<pos, status>>
                   ELSE IF n.k = "map" /\ f.ph = "elem" THEN
                        \* key (a string) then the value
                        LET l == ReadLen(b, pos) IN
                        IF l.st # "ok" THEN Fail
                        ELSE IF ~Utf8Valid(Slice(b, l.pos, l.n)) THEN Fail
                        ELSE /\ pos' = l.pos + l.n /\ status' = "run"
                             /\ stack' = Append(SetTop([f EXCEPT !.left = f.left - 1]), Frame(n.values, f.d - 1))
                   ELSE /\ stack' = Append(SetTop([f EXCEPT !.left = f.left - 1]), Frame(n.items, f.d - 1))
                        /\ UNCHANGED <<pos, status>>

Spec == Init /\ [][Step]_vars

Bounded == /\ pos <= Len(b) + 1
           /\ Len(stack) <= depth0 + 1
           /\ \A i \in 1..Len(stack) : stack[i].nread <= maxseq /\ stack[i].left <= maxseq + 8

\* lexicographic order on sequences of naturals, a proper prefix being smaller
RECURSIVE SeqLess(_, _)
SeqLess(s, t) ==
    IF Len(t) = 0 THEN FALSE
    ELSE IF Len(s) = 0 THEN TRUE
    ELSE IF s[1] # t[1] THEN s[1] < t[1]
    ELSE SeqLess(Tail(s), Tail(t))

\* per frame: a phase rank makes the phase changes that consume nothing (start -> hdr / fields, elem -> hdr) decrease too
Rank(f) == CASE f.ph = "start" -> 1000 [] f.ph = "elem" -> 3 [] OTHER -> 0
Lefts(st) == [i \in 1..Len(st) |-> 4 * st[i].left + Rank(st[i])]
Measure(p, st) == <<Len(b) + 1 - p>> \o Lefts(st)
Decreases == [][(status' = "run" \/ status' = "ok") => SeqLess(Measure(pos', stack'), Measure(pos, stack))]_vars

AgreesWithDec ==
    status # "run" =>
        LET r == Dec(G, 1, b, 1, depth0, maxseq) IN
        /\ (status = "ok" => (r.st \in {"ok", "free"} /\ (r.st = "ok" => r.pos = pos)))
        /\ (status = "err" => r.st \in {"err", "free"})
        /\ (r.st = "ok" => status = "ok")
        /\ (r.st = "err" => status = "err")

\* scenario emission for replay on the real decoder
Emit == status = "run" \/ PrintT(<<"SCN", ToJson([gi |-> gi, nodes |-> G, bytes |-> b, depth |-> depth0, maxseq |-> maxseq, status |-> status,
                                                 consumed |-> pos - 1, dec |-> Dec(G, 1, b, 1, depth0, maxseq).st])>>)

=============================================================================

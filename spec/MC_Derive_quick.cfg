INIT Init
NEXT Next
CONSTANT RootRegistered = TRUE
INVARIANT DesignOk
INVARIANT Emit
CHECK_DEADLOCK FALSE

INIT Init
NEXT Next
CONSTANT Deep = FALSE
CONSTANT RootRegistered = TRUE
INVARIANT DesignOk
INVARIANT Emit
CHECK_DEADLOCK FALSE

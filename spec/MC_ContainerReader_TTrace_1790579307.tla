---- MODULE MC_ContainerReader_TTrace_1790579307 ----
EXTENDS Sequences, TLCExt, Toolbox, Naturals, TLC, MC_ContainerReader

_expression ==
    LET MC_ContainerReader_TEExpression == INSTANCE MC_ContainerReader_TEExpression
    IN MC_ContainerReader_TEExpression!expression
----

_trace ==
    LET MC_ContainerReader_TETrace == INSTANCE MC_ContainerReader_TETrace
    IN MC_ContainerReader_TETrace!trace
----

_inv ==
    ~(
        TLCGet("level") = Len(_TETrace)
        /\
        ii = (1)
        /\
        st = ("in_block")
        /\
        cut = ([b |-> 0, at |-> -2])
        /\
        called = (2)
        /\
        left = (0)
        /\
        kind = ("slice")
        /\
        blocks = (<<[items |-> <<"short">>, n |-> 1, sync |-> "ok"], [items |-> <<"good">>, n |-> 1, sync |-> "ok"]>>)
        /\
        lost = (FALSE)
        /\
        bi = (2)
        /\
        latch = (FALSE)
        /\
        out = (<<[r |-> "err", id |-> 0, io |-> FALSE], [r |-> "some", id |-> 2, io |-> FALSE]>>)
    )
----

_init ==
    /\ cut = _TETrace[1].cut
    /\ bi = _TETrace[1].bi
    /\ out = _TETrace[1].out
    /\ kind = _TETrace[1].kind
    /\ blocks = _TETrace[1].blocks
    /\ left = _TETrace[1].left
    /\ st = _TETrace[1].st
    /\ lost = _TETrace[1].lost
    /\ ii = _TETrace[1].ii
    /\ latch = _TETrace[1].latch
    /\ called = _TETrace[1].called
----

_next ==
    /\ \E i,j \in DOMAIN _TETrace:
        /\ \/ /\ j = i + 1
              /\ i = TLCGet("level")
        /\ cut  = _TETrace[i].cut
        /\ cut' = _TETrace[j].cut
        /\ bi  = _TETrace[i].bi
        /\ bi' = _TETrace[j].bi
        /\ out  = _TETrace[i].out
        /\ out' = _TETrace[j].out
        /\ kind  = _TETrace[i].kind
        /\ kind' = _TETrace[j].kind
        /\ blocks  = _TETrace[i].blocks
        /\ blocks' = _TETrace[j].blocks
        /\ left  = _TETrace[i].left
        /\ left' = _TETrace[j].left
        /\ st  = _TETrace[i].st
        /\ st' = _TETrace[j].st
        /\ lost  = _TETrace[i].lost
        /\ lost' = _TETrace[j].lost
        /\ ii  = _TETrace[i].ii
        /\ ii' = _TETrace[j].ii
        /\ latch  = _TETrace[i].latch
        /\ latch' = _TETrace[j].latch
        /\ called  = _TETrace[i].called
        /\ called' = _TETrace[j].called

\* Uncomment the ASSUME below to write the states of the error trace
\* to the given file in Json format. Note that you can pass any tuple
\* to `JsonSerialize`. For example, a sub-sequence of _TETrace.
    \* ASSUME
    \*     LET J == INSTANCE Json
    \*         IN J!JsonSerialize("MC_ContainerReader_TTrace_1790579307.json", _TETrace)

=============================================================================

 Note that you can extract this module `MC_ContainerReader_TEExpression`
  to a dedicated file to reuse `expression` (the module in the 
  dedicated `MC_ContainerReader_TEExpression.tla` file takes precedence 
  over the module `MC_ContainerReader_TEExpression` below).

---- MODULE MC_ContainerReader_TEExpression ----
EXTENDS Sequences, TLCExt, Toolbox, Naturals, TLC, MC_ContainerReader

expression == 
    [
        \* To hide variables of the `MC_ContainerReader` spec from the error trace,
        \* remove the variables below.  The trace will be written in the order
        \* of the fields of this record.
        cut |-> cut
        ,bi |-> bi
        ,out |-> out
        ,kind |-> kind
        ,blocks |-> blocks
        ,left |-> left
        ,st |-> st
        ,lost |-> lost
        ,ii |-> ii
        ,latch |-> latch
        ,called |-> called
        
        \* Put additional constant-, state-, and action-level expressions here:
        \* ,_stateNumber |-> _TEPosition
        \* ,_cutUnchanged |-> cut = cut'
        
        \* Format the `cut` variable as Json value.
        \* ,_cutJson |->
        \*     LET J == INSTANCE Json
        \*     IN J!ToJson(cut)
        
        \* Lastly, you may build expressions over arbitrary sets of states by
        \* leveraging the _TETrace operator.  For example, this is how to
        \* count the number of times a spec variable changed up to the current
        \* state in the trace.
        \* ,_cutModCount |->
        \*     LET F[s \in DOMAIN _TETrace] ==
        \*         IF s = 1 THEN 0
        \*         ELSE IF _TETrace[s].cut # _TETrace[s-1].cut
        \*             THEN 1 + F[s-1] ELSE F[s-1]
        \*     IN F[_TEPosition - 1]
    ]

=============================================================================



Parsing and semantic processing can take forever if the trace below is long.
 In this case, it is advised to uncomment the module below to deserialize the
 trace from a generated binary file.

\*
\*---- MODULE MC_ContainerReader_TETrace ----
\*EXTENDS IOUtils, TLC, MC_ContainerReader
\*
\*trace == IODeserialize("MC_ContainerReader_TTrace_1790579307.bin", TRUE)
\*
\*=============================================================================
\*

---- MODULE MC_ContainerReader_TETrace ----
EXTENDS TLC, MC_ContainerReader

trace == 
    <<
    ([ii |-> 0,st |-> "not_in_block",cut |-> [b |-> 0, at |-> -2],called |-> 0,left |-> 0,kind |-> "slice",blocks |-> <<[items |-> <<"short">>, n |-> 1, sync |-> "ok"], [items |-> <<"good">>, n |-> 1, sync |-> "ok"]>>,lost |-> FALSE,bi |-> 1,latch |-> FALSE,out |-> <<>>]),
    ([ii |-> 1,st |-> "in_block",cut |-> [b |-> 0, at |-> -2],called |-> 1,left |-> 0,kind |-> "slice",blocks |-> <<[items |-> <<"short">>, n |-> 1, sync |-> "ok"], [items |-> <<"good">>, n |-> 1, sync |-> "ok"]>>,lost |-> FALSE,bi |-> 1,latch |-> FALSE,out |-> <<[r |-> "err", id |-> 0, io |-> FALSE]>>]),
    ([ii |-> 1,st |-> "in_block",cut |-> [b |-> 0, at |-> -2],called |-> 2,left |-> 0,kind |-> "slice",blocks |-> <<[items |-> <<"short">>, n |-> 1, sync |-> "ok"], [items |-> <<"good">>, n |-> 1, sync |-> "ok"]>>,lost |-> FALSE,bi |-> 2,latch |-> FALSE,out |-> <<[r |-> "err", id |-> 0, io |-> FALSE], [r |-> "some", id |-> 2, io |-> FALSE]>>])
    >>
----


=============================================================================

---- CONFIG MC_ContainerReader_TTrace_1790579307 ----
CONSTANTS
    MaxBlocks = 3
    MaxItems = 2
    MaxCalls = 10
    MutNoLatch = FALSE

INVARIANT
    _inv

CHECK_DEADLOCK
    \* CHECK_DEADLOCK off because of PROPERTY or INVARIANT above.
    FALSE

INIT
    _init

NEXT
    _next

CONSTANT
    _TETrace <- _trace

ALIAS
    _expression
=============================================================================
\* Generated on Mon Sep 28 07:08:30 UTC 2026
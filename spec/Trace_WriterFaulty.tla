------------------------- MODULE Trace_WriterFaulty -------------------------
(***************************************************************************)
(* Trace validation of the real container writer over failing sinks        *)
(* against ContainerWriterFaulty.tla, call by call (C16, C15).             *)
(* Events:                                                                 *)
(*  [ev |-> "open", approx]             a new writer (header delivered)    *)
(*  [ev |-> "call", op, k, sz, res, n, pend, bsz]                          *)
(*      op  "take" (serialize of a fitting value / push_serialized of k    *)
(*          objects, sz bytes in all), "takefail" (a value that does not   *)
(*          fit), "finish" (finish_block / into_inner)                     *)
(*      res "ok" | "err" (the driver cannot always tell a value error from *)
(*          an I/O error when both are due) | "err_io" | "err_val"         *)
(*      n, pend (0 / 1), bsz: Writer::verif_state after the call (-1:      *)
(*          hooks off)                                                     *)
(* Which flush attempt failed, and how, is inferred by TLC (the faults are *)
(* the model's own nondeterminism).                                        *)
(***************************************************************************)
EXTENDS ContainerWriterFaulty, Sequences, Json, IOUtils, TLC

Rec == ndJsonDeserialize(IOEnv.VERIF_TRACE)

VARIABLE l

Open(e) ==
    /\ approx' = e.approx /\ n' = 0 /\ bsz' = 0 /\ pend' = 0 /\ sunk' = 0 /\ taken' = 0 /\ torn' = FALSE
    /\ last' = "ok" /\ fin' = TRUE /\ seenFault' = FALSE /\ assertOk' = TRUE

ResOk(e) == CASE e.res = "err" -> last' \in {"err_val", "err_io"}
              [] OTHER -> last' = e.res

HookOk(e) == e.n = -1 \/ (n' = e.n /\ (IF pend' > 0 THEN 1 ELSE 0) = e.pend /\ bsz' = e.bsz)

CallEv(e) ==
    /\ CASE e.op = "take" -> Take(e.k, e.sz)
         [] e.op = "takefail" -> TakeFail
         [] e.op = "finish" -> Finish
    /\ ResOk(e)
    /\ HookOk(e)

TraceInit == l = 1 /\ Init
TraceNext ==
    /\ l <= Len(Rec)
    /\ l' = l + 1
    /\ IF Rec[l].ev = "open" THEN Open(Rec[l]) ELSE CallEv(Rec[l])
TraceSpec == TraceInit /\ [][TraceNext]_<<vars, l>>

Accepted ==
    \/ TLCGet("stats").diameter - 1 = Len(Rec)
    \/ (PrintT(<<"REJECT", TLCGet("stats").diameter>>) /\ FALSE)
=============================================================================

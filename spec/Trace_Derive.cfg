SPECIFICATION Spec
POSTCONDITION Accepted
CONSTANT RootRegistered = TRUE
CHECK_DEADLOCK FALSE

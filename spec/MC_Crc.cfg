INIT Init
NEXT Next

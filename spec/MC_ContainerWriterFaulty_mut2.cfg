SPECIFICATION Spec
CONSTANTS
  MutNoRetry = FALSE
  MutOkOnFault = TRUE
INVARIANT IndInv
CONSTRAINT Small
CHECK_DEADLOCK FALSE

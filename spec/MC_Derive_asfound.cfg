INIT Init
NEXT Next
CONSTANT RootRegistered = FALSE
INVARIANT DesignOk
CHECK_DEADLOCK FALSE

INIT Init
NEXT Next
CONSTANT Deep = FALSE
CONSTANT RootRegistered = FALSE
INVARIANT DesignOk
CHECK_DEADLOCK FALSE

---------------------------- MODULE MC_CrcBasis ----------------------------
(* (state, byte) pairs with the bit-serial step's answer, replayed on the implementation's table-driven step (C08):
   the 64 one-bit states with byte 0, the zero state with the 8 one-bit bytes (a GF(2) basis), and other pairs. *)
EXTENDS Crc, Json, TLC
OneBit64(k) == [i \in 1..4 |-> IF (k \div 16) + 1 = i THEN 2 ^ (k % 16) ELSE 0]
Mix(n) == << (n * 7919) % 65536, (n * 104729 + 17) % 65536, (n * 1299709 + 5) % 65536, (n * 15485863 + 3) % 65536 >>
VARIABLE c
Init == c = [kind |-> "none"]
Next == /\ c.kind = "none"
        /\ \/ \E k \in 0..63 : c' = [kind |-> "basis_state", state |-> OneBit64(k), bytes |-> <<0>>, exp |-> StepBit(OneBit64(k), 0)]
           \/ \E b \in 0..7 : c' = [kind |-> "basis_byte", state |-> Zero64, bytes |-> <<2 ^ b>>, exp |-> StepBit(Zero64, 2 ^ b)]
           \/ c' = [kind |-> "zero", state |-> Zero64, bytes |-> <<0>>, exp |-> StepBit(Zero64, 0)]
           \/ \E n \in 1..120 : LET st == Mix(n)  bs == [j \in 1..((n % 5) + 1) |-> (n * 31 + j * 57) % 256] IN
                c' = [kind |-> "mixed", state |-> st, bytes |-> bs, exp |-> FoldBytes(bs, 1, st, FALSE)]
Emit == c.kind = "none" \/ PrintT(<<"SCN", ToJson(c)>>)
TabEqBit == c.kind = "none" \/ FoldBytes(c.bytes, 1, c.state, TRUE) = c.exp
=============================================================================

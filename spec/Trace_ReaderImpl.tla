-------------------------- MODULE Trace_ReaderImpl --------------------------
(***************************************************************************)
(* Trace validation of the real container reader against the reader        *)
(* machine of ContainerReader.tla, state by state (C17, C05).              *)
(* Events:                                                                 *)
(*  [ev |-> "file", kind, blocks, cutb, cutat]  a new reader (slice or      *)
(*        stream) on an abstract file                                      *)
(*        (declared counts, what each payload holds, sync markers) as the  *)
(*        driver built / damaged it; the input ends inside part cutat of   *)
(*        block cutb (ContainerReader's parts; -3: somewhere inside the    *)
(*        payload - with a compressed codec which object fails is the      *)
(*        decompressor's business)                                         *)
(*  [ev |-> "call", r, item, st, left, latch]  one deserialize_next:       *)
(*        r \in {"some","none","err"}, item = position of the value among  *)
(*        the written ones (0: none of them), and the hook state           *)
(*        Reader::verif_state after the call (st = "unknown": hooks off).  *)
(* Accepted iff, for some admissible cut, the machine produces exactly     *)
(* these results and these states, call after call - until a recoverable   *)
(* decoding error leaves the input position undefined (`lost`), after      *)
(* which nothing is required.                                              *)
(***************************************************************************)
EXTENDS ContainerReader, Json, IOUtils

Rec == ndJsonDeserialize(IOEnv.VERIF_TRACE)

VARIABLE l

CutChoices(e) ==
    IF e.cutat = -3
    THEN {[b |-> e.cutb, at |-> a] : a \in {AtHdr, AtSync} \cup 1..Len(e.blocks[e.cutb].items)}
    ELSE {[b |-> e.cutb, at |-> e.cutat]}

FileEvent(e) ==
    /\ blocks' = e.blocks
    /\ cut' \in CutChoices(e)
    /\ kind' = e.kind
    /\ st' = "not_in_block" /\ left' = 0 /\ latch' = FALSE /\ bi' = 1 /\ ii' = 0 /\ lost' = FALSE /\ out' = <<>> /\ called' = 0

CallEvent(e) ==
    IF lost THEN UNCHANGED vars
    ELSE /\ Call
         /\ LET c == out'[Len(out')] IN
            /\ c.r = e.r
            /\ (e.r = "some" => c.id = e.item)
         /\ (e.st = "unknown" \/ (e.st = st' /\ e.left = left' /\ e.latch = (IF latch' THEN 1 ELSE 0)))

TraceInit == l = 1 /\ blocks = <<>> /\ cut = NoCut /\ kind = "stream" /\ ReaderInit
TraceNext ==
    /\ l <= Len(Rec)
    /\ l' = l + 1
    /\ IF Rec[l].ev = "file" THEN FileEvent(Rec[l]) ELSE CallEvent(Rec[l])
TraceSpec == TraceInit /\ [][TraceNext]_<<vars, l>>

Accepted ==
    \/ TLCGet("stats").diameter - 1 = Len(Rec)
    \/ (PrintT(<<"REJECT", TLCGet("stats").diameter>>) /\ FALSE)
=============================================================================

----------------------------- MODULE SerdeModel -----------------------------
(***************************************************************************)
(* The serde data model as *presentations* - what a `Serialize` impl calls *)
(* on a serializer - and what each presentation denotes at a schema node.  *)
(*                                                                         *)
(* Presentations (tagged records; payload field names differ per payload   *)
(* type, see AvroBinary):                                                  *)
(*   [p |-> "unit"] [p |-> "none"] [p |-> "some", x |-> P]                 *)
(*   [p |-> "bool", i |-> 0|1]   [p |-> "char", i |-> code point]          *)
(*   [p |-> "i8".."u64", v |-> 4 limbs]  (signed: sign-extended i64;       *)
(*                                        unsigned: zero-extended)         *)
(*   [p |-> "i128"|"u128", v |-> 8 limbs]                                  *)
(*   [p |-> "f32", v |-> 4 bytes] [p |-> "f64", v |-> 8 bytes]             *)
(*   [p |-> "str", v |-> utf8 bytes] [p |-> "bytes", v |-> bytes]          *)
(*   [p |-> "unit_struct", name]  [p |-> "unit_variant", name, idx, variant]*)
(*   [p |-> "newtype_struct", name, x] [p |-> "newtype_variant", name, idx, variant, x]*)
(*   [p |-> "seq", len |-> n | -1, es] [p |-> "tuple", es]                 *)
(*   [p |-> "tuple_struct", name, es] [p |-> "tuple_variant", name, idx, variant, es]*)
(*   [p |-> "map", len |-> n | -1, mode |-> "entry"|"kv", kv |-> << <<P, P>> >>]*)
(*   [p |-> "struct", name, fs |-> << <<text, P>> >>] [p |-> "struct_variant", name, idx, variant, fs]*)
(*   [p |-> "fail"]   (the value's own Serialize impl returns an error)    *)
(*                                                                         *)
(* Den(G, k, p, slow) == [m, vs, any]:                                     *)
(*   m = "ok"   serialization MUST succeed (natural presentation of a      *)
(*              representable value: C01's completeness half);             *)
(*   m = "err"  serialization MUST fail (C02: the schema cannot represent  *)
(*              the value);                                                *)
(*   m = "free" the properties do not say whether it succeeds.             *)
(*   Whenever it succeeds, the bytes must be an encoding (any block        *)
(*   layout) of one of the values in vs - unless `any` is set, in which    *)
(*   case the presentation is a coercion the properties do not cover       *)
(*   (f64 for a float, a unit struct written as its name, ...) and nothing *)
(*   is required of the bytes.                                             *)
(***************************************************************************)
EXTENDS AvroBinary

(***************************************************************************)
(* 128-bit words: 8 limbs, least significant first.                        *)
(***************************************************************************)
W128Zero == <<0, 0, 0, 0, 0, 0, 0, 0>>
W128FromI64(x) == x \o (IF IsNeg64(x) THEN <<65535, 65535, 65535, 65535>> ELSE <<0, 0, 0, 0>>)
W128FromU64(x) == x \o <<0, 0, 0, 0>>
IsNeg128(w) == w[8] >= 32768
Not128(w) == [i \in 1..8 |-> 65535 - w[i]]
RECURSIVE IncFrom(_, _)
IncFrom(w, i) == IF i > Len(w) THEN w
                 ELSE IF w[i] < 65535 THEN [w EXCEPT ![i] = w[i] + 1]
                 ELSE IncFrom([w EXCEPT ![i] = 0], i + 1)
Neg128(w) == IncFrom(Not128(w), 1)

\* multiply an unsigned 8-limb magnitude by a small number: [w, carry]
RECURSIVE MulSmallFrom(_, _, _, _)
MulSmallFrom(w, m, i, carry) ==
    IF i > 8 THEN [w |-> w, carry |-> carry]
    ELSE LET t == w[i] * m + carry
         IN  MulSmallFrom([w EXCEPT ![i] = t % 65536], m, i + 1, t \div 65536)
MulSmall(w, m) == MulSmallFrom(w, m, 1, 0)

\* add a small number to an unsigned magnitude (no overflow expected: callers check)
RECURSIVE AddSmallFrom(_, _, _)
AddSmallFrom(w, a, i) ==
    IF a = 0 \/ i > 8 THEN w
    ELSE LET t == w[i] + a IN AddSmallFrom([w EXCEPT ![i] = t % 65536], t \div 65536, i + 1)
AddSmall(w, a) == AddSmallFrom(w, a, 1)

\* magnitude * 10^n : [w, ovf]
RECURSIVE MulPow10(_, _)
MulPow10(w, n) ==
    IF n = 0 THEN [w |-> w, ovf |-> FALSE]
    ELSE LET r == MulSmall(w, 10) IN
         IF r.carry # 0 THEN [w |-> w, ovf |-> TRUE] ELSE MulPow10(r.w, n - 1)

\* divide an unsigned magnitude by 10: [q, r]
RECURSIVE DivMod10From(_, _, _, _)
DivMod10From(w, i, rem, q) ==
    IF i = 0 THEN [q |-> q, r |-> rem]
    ELSE LET cur == rem * 65536 + w[i]
         IN  DivMod10From(w, i - 1, cur % 10, [q EXCEPT ![i] = cur \div 10])
DivMod10(w) == DivMod10From(w, 8, 0, W128Zero)

W128ToBE16(w) == << w[8] \div 256, w[8] % 256, w[7] \div 256, w[7] % 256, w[6] \div 256, w[6] % 256,
                    w[5] \div 256, w[5] % 256, w[4] \div 256, w[4] % 256, w[3] \div 256, w[3] % 256,
                    w[2] \div 256, w[2] % 256, w[1] \div 256, w[1] % 256 >>
BE16ToW128(b) == << b[16] + 256 * b[15], b[14] + 256 * b[13], b[12] + 256 * b[11], b[10] + 256 * b[9],
                    b[8] + 256 * b[7], b[6] + 256 * b[5], b[4] + 256 * b[3], b[2] + 256 * b[1] >>

Mag96(w) == w[7] = 0 /\ w[8] = 0           \* an unsigned magnitude below 2^96

\* signed value from (neg, magnitude)
Signed128(neg, mag) == IF neg /\ mag # W128Zero THEN Neg128(mag) ELSE mag

(***************************************************************************)
(* Integer presentations.                                                  *)
(***************************************************************************)
SignedKinds   == {"i8", "i16", "i32", "i64"}
UnsignedKinds == {"u8", "u16", "u32", "u64"}
IntKinds      == SignedKinds \cup UnsignedKinds \cup {"i128", "u128"}
IsIntP(p) == p.p \in IntKinds

\* [neg, mag]: sign and 128-bit magnitude of an integer presentation
IntSM(p) ==
    CASE p.p \in SignedKinds -> IF IsNeg64(p.v) THEN [neg |-> TRUE, mag |-> W128FromU64(Neg64(p.v))]
                                ELSE [neg |-> FALSE, mag |-> W128FromU64(p.v)]
      [] p.p \in UnsignedKinds -> [neg |-> FALSE, mag |-> W128FromU64(p.v)]
      [] p.p = "i128" -> IF IsNeg128(p.v) THEN [neg |-> TRUE, mag |-> Neg128(p.v)]
                         ELSE [neg |-> FALSE, mag |-> p.v]
      [] p.p = "u128" -> [neg |-> FALSE, mag |-> p.v]

MagLow64(mag) == <<mag[1], mag[2], mag[3], mag[4]>>
MagFits64(mag) == mag[5] = 0 /\ mag[6] = 0 /\ mag[7] = 0 /\ mag[8] = 0

\* fits i64 ?  and the I64 limbs when it does
IntFitsI64(p) ==
    LET sm == IntSM(p) IN
    /\ MagFits64(sm.mag)
    /\ IF sm.neg THEN Le64(MagLow64(sm.mag), <<0, 0, 0, 32768>>) ELSE MagLow64(sm.mag)[4] < 32768
IntAsI64(p) == LET sm == IntSM(p) IN IF sm.neg THEN Neg64(MagLow64(sm.mag)) ELSE MagLow64(sm.mag)
IntFitsI32(p) == IntFitsI64(p) /\ FitsI32(IntAsI64(p))
IntFitsU8(p) == LET sm == IntSM(p) IN (~sm.neg \/ sm.mag = W128Zero) /\ MagFits64(sm.mag)
                                      /\ sm.mag[2] = 0 /\ sm.mag[3] = 0 /\ sm.mag[4] = 0 /\ sm.mag[1] < 256
IntFitsU32(p) == LET sm == IntSM(p) IN (~sm.neg \/ sm.mag = W128Zero) /\ MagFits64(sm.mag)
                                       /\ sm.mag[3] = 0 /\ sm.mag[4] = 0
\* small non-negative integer as a natural number (callers check IntFitsU8 / a bound below 2^31 first)
IntAsNat(p) == LET sm == IntSM(p) IN sm.mag[1] + 65536 * sm.mag[2]

(***************************************************************************)
(* Decimal text:  -?digits(.digits)?   (anything else: outside the model)  *)
(***************************************************************************)
IsDigit(c) == c >= 48 /\ c <= 57

RECURSIVE ParseDigits(_, _, _, _, _)
\* t: text, i: position, mag: accumulated magnitude, fd: fraction digits so far (-1 before the point), nd: digits seen
ParseDigits(t, i, mag, fd, nd) ==
    IF i > Len(t) THEN [ok |-> nd > 0 /\ fd # 0, mag |-> mag, fd |-> IF fd < 0 THEN 0 ELSE fd, nd |-> nd]
    ELSE IF t[i] = 46 THEN
            IF fd >= 0 \/ nd = 0 THEN [ok |-> FALSE, mag |-> mag, fd |-> 0, nd |-> nd]
            ELSE ParseDigits(t, i + 1, mag, 0, nd)
    ELSE IF ~IsDigit(t[i]) \/ nd >= 29 THEN [ok |-> FALSE, mag |-> mag, fd |-> 0, nd |-> nd]
    ELSE LET r == MulSmall(mag, 10) IN
         ParseDigits(t, i + 1, AddSmall(r.w, t[i] - 48), IF fd < 0 THEN fd ELSE fd + 1, nd + 1)

\* [ok, neg, mag, fd]; ok = FALSE: not of the plain form (or more than 29 digits): outside the model
ParseDecText(t) ==
    LET neg == Len(t) > 0 /\ t[1] = 45
        r   == ParseDigits(t, IF neg THEN 2 ELSE 1, W128Zero, -1, 0)
    IN  [ok |-> r.ok, neg |-> neg, mag |-> r.mag, fd |-> r.fd]

RECURSIVE DigitsOf(_)
DigitsOf(mag) == IF mag = W128Zero THEN <<>>
                 ELSE LET d == DivMod10(mag) IN DigitsOf(d.q) \o <<48 + d.r>>

RECURSIVE Zeros(_)
Zeros(n) == IF n <= 0 THEN <<>> ELSE <<48>> \o Zeros(n - 1)

\* text of the decimal (16-byte BE unscaled, scale): exactly `scale` fraction digits
DecText(be16, scale) ==
    LET w    == BE16ToW128(be16)
        neg  == IsNeg128(w)
        mag  == IF neg THEN Neg128(w) ELSE w
        ds0  == DigitsOf(mag)
        ds   == Zeros(scale + 1 - Len(ds0)) \o ds0          \* at least one integer digit
        ip   == SubSeq(ds, 1, Len(ds) - scale)
        fp   == SubSeq(ds, Len(ds) - scale + 1, Len(ds))
    IN  (IF neg THEN <<45>> ELSE <<>>) \o ip \o (IF scale > 0 THEN <<46>> \o fp ELSE <<>>)

(***************************************************************************)
(* Results.                                                                *)
(***************************************************************************)
RErr      == [m |-> "err",  vs |-> {}, any |-> FALSE]
RAny      == [m |-> "free", vs |-> {}, any |-> TRUE]
ROk(v)    == [m |-> "ok",   vs |-> {v}, any |-> FALSE]
RFree(v)  == [m |-> "free", vs |-> {v}, any |-> FALSE]
Representable(r) == r.any \/ r.vs # {}

\* a decimal value from sign/magnitude at the node's representation, or the verdict when it does not fit
DecimalAt(n, e, neg, mag, scale, natural) ==
    IF ~Mag96(mag) \/ scale > MaxScale THEN RAny                      \* beyond the documented limits
    ELSE LET be == W128ToBE16(Signed128(neg, mag))
             v  == [t |-> "dec", v |-> be, s |-> scale]
         IN  IF e = "decimal_fixed" /\ (n.size = 0 \/ n.size > 16) THEN RAny
             ELSE IF e = "decimal_fixed" /\ ~FitsBE(be, n.size) THEN RErr   \* number does not fit the fixed size
             ELSE IF natural THEN ROk(v) ELSE RFree(v)

(***************************************************************************)
(* Names under which a union branch can be selected.                       *)
(***************************************************************************)
Txt_Null == <<78, 117, 108, 108>>
TypeName(e) ==
    CASE e = "null" -> Txt_Null
      [] e = "boolean" -> <<66, 111, 111, 108, 101, 97, 110>>
      [] e = "int" -> <<73, 110, 116>>
      [] e = "long" -> <<76, 111, 110, 103>>
      [] e = "float" -> <<70, 108, 111, 97, 116>>
      [] e = "double" -> <<68, 111, 117, 98, 108, 101>>
      [] e = "bytes" -> <<66, 121, 116, 101, 115>>
      [] e = "string" -> <<83, 116, 114, 105, 110, 103>>
      [] e = "array" -> <<65, 114, 114, 97, 121>>
      [] e = "map" -> <<77, 97, 112>>
      [] e = "decimal_bytes" -> <<68, 101, 99, 105, 109, 97, 108>>
      [] e = "bigdecimal" -> <<66, 105, 103, 68, 101, 99, 105, 109, 97, 108>>
      [] e = "uuid" -> <<85, 117, 105, 100>>
      [] e = "date" -> <<68, 97, 116, 101>>
      [] e = "time-millis" -> <<84, 105, 109, 101, 77, 105, 108, 108, 105, 115>>
      [] e = "time-micros" -> <<84, 105, 109, 101, 77, 105, 99, 114, 111, 115>>
      [] e = "timestamp-millis" -> <<84, 105, 109, 101, 115, 116, 97, 109, 112, 77, 105, 108, 108, 105, 115>>
      [] e = "timestamp-micros" -> <<84, 105, 109, 101, 115, 116, 97, 109, 112, 77, 105, 99, 114, 111, 115>>
      [] e = "duration" -> <<68, 117, 114, 97, 116, 105, 111, 110>>
      [] OTHER -> <<>>

RECURSIVE LastDot(_, _)
LastDot(t, i) == IF i = 0 THEN 0 ELSE IF t[i] = 46 THEN i ELSE LastDot(t, i - 1)
ShortName(full) == SubSeq(full, LastDot(full, Len(full)) + 1, Len(full))

\* a duration is a fixed(12) in the schema text, but as a union branch it goes by the type name "Duration"
\* (the name the deserializer announces for it), like the other logical types
HasName(n) == n.k \in NamedKinds /\ Eff(n) # "duration"
\* the name that designates the branch unambiguously (what a Rust enum variant is renamed to)
BranchName(n) == IF HasName(n) THEN n.name ELSE TypeName(Eff(n))
\* all names a by-name presentation may use for the branch
BranchNames(n) ==
    LET e == Eff(n) IN
    (IF HasName(n) THEN {n.name, ShortName(n.name)} ELSE {})
    \cup (IF TypeName(e) = <<>> THEN {} ELSE {TypeName(e)})
    \cup (IF e = "decimal_fixed" THEN {TypeName("decimal_bytes")} ELSE {})

\* branches (1-based positions) of union node u that answer to name nm
NamedBranches(G, u, nm) == {i \in 1..Len(u.variants) : nm \in BranchNames(G[u.variants[i]])}
FullNamedBranches(G, u, nm) == {i \in 1..Len(u.variants) : HasName(G[u.variants[i]]) /\ G[u.variants[i]].name = nm}

(***************************************************************************)
(* Natural node kinds of a presentation (type-directed union selection).   *)
(***************************************************************************)
Natural(p) ==
    CASE p.p \in {"unit", "none"} -> {"null"}
      [] p.p = "bool" -> {"boolean"}
      [] p.p \in {"i32", "u32"} -> IntLike
      [] p.p \in {"i64", "u64"} -> LongLike
      [] p.p \in IntKinds -> IntLike \cup LongLike
      [] p.p = "f32" -> {"float"}
      [] p.p = "f64" -> {"double"}
      [] p.p \in {"str", "char"} -> StringLike
      [] p.p = "bytes" -> {"bytes", "fixed"}
      [] p.p \in {"seq", "tuple", "tuple_struct", "tuple_variant"} -> {"array"}
      [] p.p \in {"map", "struct", "struct_variant"} -> {"map", "record"}
      [] OTHER -> {}

Utf8OfChar(c) ==
    IF c < 128 THEN <<c>>
    ELSE IF c < 2048 THEN <<192 + (c \div 64), 128 + (c % 64)>>
    ELSE IF c < 65536 THEN <<224 + (c \div 4096), 128 + ((c \div 64) % 64), 128 + (c % 64)>>
    ELSE <<240 + (c \div 262144), 128 + ((c \div 4096) % 64), 128 + ((c \div 64) % 64), 128 + (c % 64)>>

RECURSIVE IndexOf(_, _, _)
IndexOf(seq, x, i) == IF i > Len(seq) THEN 0 ELSE IF seq[i] = x THEN i ELSE IndexOf(seq, x, i + 1)

Txt_months == <<109, 111, 110, 116, 104, 115>>
Txt_days   == <<100, 97, 121, 115>>
Txt_millis == <<109, 105, 108, 108, 105, 115, 101, 99, 111, 110, 100, 115>>

U32LE(p) == LET sm == IntSM(p) IN << sm.mag[1] % 256, sm.mag[1] \div 256, sm.mag[2] % 256, sm.mag[2] \div 256 >>

(***************************************************************************)
(* Den.                                                                    *)
(***************************************************************************)
RECURSIVE Den(_, _, _, _)
RECURSIVE DenList(_, _, _, _, _)
RECURSIVE DenUnion(_, _, _, _)
RECURSIVE DenRecord(_, _, _, _)
RECURSIVE DenMapEntries(_, _, _, _, _)

\* combine element results (sequence rs of Den results) into one for a composite whose value is Make(<<values>>)
\* m: err if any err; ok if all ok; free otherwise.  vs: only computed for singleton element sets (the general
\* product is not needed: element value sets with several members arise only through `free` unions)
Combine(rs) ==
    IF \E i \in 1..Len(rs) : rs[i].m = "err" THEN [m |-> "err", any |-> FALSE, tuples |-> {}]
    ELSE IF \E i \in 1..Len(rs) : rs[i].any THEN [m |-> "free", any |-> TRUE, tuples |-> {}]
    ELSE IF \E i \in 1..Len(rs) : Cardinality(rs[i].vs) # 1 THEN [m |-> "free", any |-> TRUE, tuples |-> {}]
    ELSE [m |-> IF \A i \in 1..Len(rs) : rs[i].m = "ok" THEN "ok" ELSE "free", any |-> FALSE,
          tuples |-> {[i \in 1..Len(rs) |-> CHOOSE x \in rs[i].vs : TRUE]}]

DenList(G, ik, es, i, slow) ==
    IF i > Len(es) THEN <<>> ELSE <<Den(G, ik, es[i], slow)>> \o DenList(G, ik, es, i + 1, slow)

\* a key presentation at a map: anything a string node accepts
KeyDen(G, kp, slow) == Den(<<[k |-> "string", lt |-> "none"]>>, 1, kp, slow)

DenMapEntries(G, vk, kv, i, slow) ==
    IF i > Len(kv) THEN <<>>
    ELSE << [key |-> KeyDen(G, kv[i][1], slow), val |-> Den(G, vk, kv[i][2], slow)] >>
         \o DenMapEntries(G, vk, kv, i + 1, slow)

\* sequence-like presentation (es, advertised len or -1) at node k
DenSeq(G, k, es, len, slow) ==
    LET n == G[k]  e == Eff(n) IN
    CASE e = "array" ->
            IF len >= 0 /\ Len(es) < len THEN RErr        \* fewer elements than advertised
            ELSE LET c == Combine(DenList(G, n.items, es, 1, slow)) IN
                 IF c.m = "err" THEN RErr
                 ELSE IF c.any THEN RAny
                 ELSE [m |-> c.m, any |-> FALSE, vs |-> {[t |-> "arr", es |-> tp] : tp \in c.tuples}]
      [] e \in {"bytes", "fixed"} ->
            IF ~slow THEN RErr
            ELSE IF \E i \in 1..Len(es) : ~IsIntP(es[i]) \/ ~IntFitsU8(es[i]) THEN RErr
            ELSE IF len >= 0 /\ Len(es) # len THEN RErr
            ELSE IF e = "fixed" /\ Len(es) # n.size THEN RErr
            ELSE RFree([t |-> IF e = "bytes" THEN "bytes" ELSE "fix", v |-> [i \in 1..Len(es) |-> IntAsNat(es[i])]])
      [] e = "duration" ->
            IF Len(es) # 3 \/ (len >= 0 /\ len # 3) THEN RErr
            ELSE IF \E i \in 1..3 : es[i].p # "u32" THEN
                    IF \A i \in 1..3 : IsIntP(es[i]) /\ IntFitsU32(es[i]) THEN RAny ELSE RErr
            ELSE RFree([t |-> "dur", v |-> U32LE(es[1]) \o U32LE(es[2]) \o U32LE(es[3])])
      [] OTHER -> RErr

\* struct-like presentation: fs == << <<name text, P>> >> at a record node
DenRecord(G, k, fs, slow) ==
    LET n  == G[k]
        nf == Len(n.fields)
        fname(i) == n.fields[i].n
        idxOf(nm) == IndexOf([i \in 1..nf |-> fname(i)], nm, 1)
        unknown == \E j \in 1..Len(fs) : idxOf(fs[j][1]) = 0
        dup == \E j1, j2 \in 1..Len(fs) : j1 # j2 /\ fs[j1][1] = fs[j2][1]
        presented(i) == {j \in 1..Len(fs) : fs[j][1] = fname(i)}
        missingRequired == \E i \in 1..nf : presented(i) = {} /\ ~Nullable(G, n.fields[i].t)
        NullVal(key) == IF Eff(G[key]) = "null" THEN VNull
                        ELSE [t |-> "un", b |-> FirstBranch(G, G[key], "null", 1) - 1, x |-> VNull]
        fieldRes(i) == IF presented(i) = {} THEN ROk(NullVal(n.fields[i].t))
                       ELSE Den(G, n.fields[i].t, fs[CHOOSE j \in presented(i) : TRUE][2], slow)
    IN
    IF unknown \/ dup \/ missingRequired THEN RErr
    ELSE LET c == Combine([i \in 1..nf |-> fieldRes(i)]) IN
         IF c.m = "err" THEN RErr
         ELSE IF c.any THEN RAny
         ELSE [m |-> c.m, any |-> FALSE, vs |-> {[t |-> "rec", es |-> tp] : tp \in c.tuples}]

\* map-like presentation: entries == << [key |-> Den result of the key, val |-> Den result of the value] >> at a map node
DenMapAt(ents, len) ==
    IF len >= 0 /\ Len(ents) < len THEN RErr
    ELSE IF \E i \in 1..Len(ents) : ents[i].key.m = "err" \/ ents[i].val.m = "err" THEN RErr
    ELSE IF \E i \in 1..Len(ents) : ents[i].key.any \/ ents[i].val.any
                                     \/ Cardinality(ents[i].key.vs) # 1 \/ Cardinality(ents[i].val.vs) # 1
         THEN RAny
    ELSE LET kvs == [i \in 1..Len(ents) |-> << (CHOOSE x \in ents[i].key.vs : TRUE).v,
                                               CHOOSE x \in ents[i].val.vs : TRUE >>]
         IN  IF ~DistinctKeys(kvs) THEN RAny       \* duplicate keys: the format does not define the map
             ELSE [m |-> IF \A i \in 1..Len(ents) : ents[i].key.m = "ok" /\ ents[i].val.m = "ok" THEN "ok" ELSE "free",
                   any |-> FALSE, vs |-> {[t |-> "map", kv |-> kvs]}]

\* duration from named u32 fields
DenDurationFields(fs) ==
    LET names == <<Txt_months, Txt_days, Txt_millis>>
        pos(nm) == IndexOf(names, nm, 1)
    IN  IF Len(fs) # 3 \/ \E j \in 1..Len(fs) : pos(fs[j][1]) = 0 THEN RErr
        ELSE IF \E j1, j2 \in 1..3 : j1 # j2 /\ fs[j1][1] = fs[j2][1] THEN RErr
        ELSE IF \E j \in 1..3 : fs[j][2].p # "u32" THEN
                IF \A j \in 1..3 : IsIntP(fs[j][2]) /\ IntFitsU32(fs[j][2]) THEN RAny ELSE RErr
        ELSE LET at(i) == fs[CHOOSE j \in 1..3 : fs[j][1] = names[i]][2]
             IN  RFree([t |-> "dur", v |-> U32LE(at(1)) \o U32LE(at(2)) \o U32LE(at(3))])

\* keys of a map presentation as field names (only str keys name record fields)
KvAsFields(kv) == [i \in 1..Len(kv) |-> << kv[i][1].v, kv[i][2] >>]

\* the presentation p at the NON-union node k
DenPlain(G, k, p, slow) ==
    LET n == G[k]  e == Eff(n)  c == p.p IN
    CASE c = "fail" -> RErr
      [] c = "some" -> Den(G, k, p.x, slow)
      [] c \in {"newtype_struct", "newtype_variant"} -> Den(G, k, p.x, slow)
      [] c \in {"unit", "none"} -> IF e = "null" THEN ROk(VNull) ELSE RErr
      [] c = "bool" -> IF e = "boolean" THEN ROk([t |-> "bool", i |-> p.i]) ELSE RErr
      [] c \in IntKinds ->
            (CASE e \in IntLike -> IF IntFitsI32(p) THEN ROk([t |-> "int", v |-> IntAsI64(p)]) ELSE RErr
               [] e \in LongLike -> IF IntFitsI64(p) THEN ROk([t |-> "long", v |-> IntAsI64(p)]) ELSE RErr
               [] e \in {"float", "double"} -> RAny
               [] e \in {"decimal_bytes", "decimal_fixed"} ->
                     LET sm == IntSM(p)
                         r  == IF n.scale > MaxScale THEN [w |-> sm.mag, ovf |-> TRUE] ELSE MulPow10(sm.mag, n.scale)
                     IN  IF r.ovf THEN RAny ELSE DecimalAt(n, e, sm.neg, r.w, n.scale, FALSE)
               [] e = "bigdecimal" -> LET sm == IntSM(p) IN DecimalAt(n, e, sm.neg, sm.mag, 0, FALSE)
               [] e = "enum" -> IF IntFitsI32(p) /\ ~IntSM(p).neg /\ IntAsNat(p) < Len(n.symbols)
                                THEN RFree([t |-> "enum", i |-> IntAsNat(p)]) ELSE RErr
               [] OTHER -> RErr)
      [] c = "f32" -> IF e = "float" THEN ROk([t |-> "f32", v |-> p.v])
                      ELSE IF e = "double" THEN RAny ELSE RErr
      [] c = "f64" -> IF e = "double" THEN ROk([t |-> "f64", v |-> p.v])
                      ELSE IF e \in {"float", "decimal_bytes", "decimal_fixed", "bigdecimal"} THEN RAny ELSE RErr
      [] c = "char" -> Den(G, k, [p |-> "str", v |-> Utf8OfChar(p.i)], slow)
      [] c = "str" ->
            (CASE e \in StringLike -> ROk([t |-> "str", v |-> p.v])
               [] e = "bytes" -> RFree([t |-> "bytes", v |-> p.v])
               [] e = "enum" -> LET i == IndexOf(n.symbols, p.v, 1) IN
                                IF i = 0 THEN RErr ELSE ROk([t |-> "enum", i |-> i - 1])
               [] e = "fixed" -> IF Len(p.v) = n.size THEN RFree([t |-> "fix", v |-> p.v]) ELSE RErr
               [] e \in {"decimal_bytes", "decimal_fixed"} ->
                     LET d == ParseDecText(p.v) IN
                     IF ~d.ok \/ d.fd > n.scale \/ n.scale > MaxScale THEN RAny
                     ELSE LET r == MulPow10(d.mag, n.scale - d.fd) IN
                          IF r.ovf THEN RAny ELSE DecimalAt(n, e, d.neg, r.w, n.scale, TRUE)
               [] e = "bigdecimal" ->
                     LET d == ParseDecText(p.v) IN
                     IF ~d.ok THEN RAny ELSE DecimalAt(n, e, d.neg, d.mag, d.fd, TRUE)
               [] OTHER -> RErr)
      [] c = "bytes" ->
            (CASE e = "bytes" -> ROk([t |-> "bytes", v |-> p.v])
               [] e \in StringLike -> IF Utf8Valid(p.v) THEN RFree([t |-> "str", v |-> p.v]) ELSE RErr
               [] e = "fixed" -> IF Len(p.v) = n.size THEN ROk([t |-> "fix", v |-> p.v]) ELSE RErr
               [] e = "duration" -> IF Len(p.v) = 12 THEN ROk([t |-> "dur", v |-> p.v]) ELSE RErr
               [] e \in DecimalLike -> RAny
               [] OTHER -> RErr)
      [] c = "unit_struct" ->
            (CASE e = "null" -> RFree(VNull)
               [] e \in {"string", "bytes"} -> RAny
               [] e = "enum" -> LET i == IndexOf(n.symbols, p.name, 1) IN
                                IF i = 0 THEN RErr ELSE RFree([t |-> "enum", i |-> i - 1])
               [] OTHER -> RErr)
      [] c = "unit_variant" ->
            (CASE e = "null" -> IF p.variant = Txt_Null THEN RFree(VNull) ELSE RAny
               [] e \in {"string", "bytes"} -> RAny
               [] e = "enum" -> LET i == IndexOf(n.symbols, p.variant, 1) IN
                                IF i = 0 THEN RErr ELSE ROk([t |-> "enum", i |-> i - 1])
               [] OTHER -> RErr)
      [] c = "seq" -> DenSeq(G, k, p.es, p.len, slow)
      [] c \in {"tuple", "tuple_struct", "tuple_variant"} -> DenSeq(G, k, p.es, Len(p.es), slow)
      [] c = "map" ->
            (CASE e = "map" -> DenMapAt(DenMapEntries(G, n.values, p.kv, 1, slow), p.len)
               [] e = "record" -> IF \E i \in 1..Len(p.kv) : p.kv[i][1].p # "str" THEN RErr
                                  ELSE DenRecord(G, k, KvAsFields(p.kv), slow)
               [] e = "duration" -> IF \E i \in 1..Len(p.kv) : p.kv[i][1].p # "str" THEN RErr
                                    ELSE IF p.len >= 0 /\ p.len # 3 THEN RErr
                                    ELSE DenDurationFields(KvAsFields(p.kv))
               [] OTHER -> RErr)
      [] c \in {"struct", "struct_variant"} ->
            (CASE e = "record" -> DenRecord(G, k, p.fs, slow)
               [] e = "map" -> DenMapAt([i \in 1..Len(p.fs) |->
                                            [key |-> ROk([t |-> "str", v |-> p.fs[i][1]]),
                                             val |-> Den(G, n.values, p.fs[i][2], slow)]], Len(p.fs))
               [] e = "duration" -> DenDurationFields(p.fs)
               [] OTHER -> RErr)

\* effective node kinds that accept SOME presentation of serde type c (the non-error arms of DenPlain)
TypeAccepts(c) ==
    CASE c \in {"unit", "none"} -> {"null"}
      [] c = "bool" -> {"boolean"}
      [] c \in IntKinds -> IntLike \cup LongLike \cup {"float", "double", "decimal_bytes", "decimal_fixed", "bigdecimal", "enum"}
      [] c = "f32" -> {"float", "double"}
      [] c = "f64" -> {"double", "float", "decimal_bytes", "decimal_fixed", "bigdecimal"}
      [] c \in {"str", "char"} -> StringLike \cup {"bytes", "enum", "fixed", "decimal_bytes", "decimal_fixed", "bigdecimal"}
      [] c = "bytes" -> StringLike \cup {"bytes", "fixed", "duration"} \cup DecimalLike
      [] c \in {"unit_struct", "unit_variant"} -> {"null", "string", "bytes", "enum"}
      [] c \in {"seq", "tuple", "tuple_struct", "tuple_variant"} -> {"array", "bytes", "fixed", "duration", "string"} \cup DecimalLike
      [] c \in {"map", "struct", "struct_variant"} -> {"map", "record", "duration"}
      [] OTHER -> {}

\* wrap the result of branch b (1-based position) of a union
WrapBranch(b, r) == [m |-> r.m, any |-> r.any, vs |-> {[t |-> "un", b |-> b - 1, x |-> v] : v \in r.vs}]

\* type-directed selection among the branches of union node k
DenUnionByType(G, k, p, slow) ==
    LET u     == G[k]
        nb    == Len(u.variants)
        res   == [b \in 1..nb |-> IF G[u.variants[b]].k = "union" THEN RErr ELSE DenPlain(G, u.variants[b], p, slow)]
        cand  == {b \in 1..nb : Representable(res[b])}
        nat   == {b \in 1..nb : Eff(G[u.variants[b]]) \in Natural(p)}
        rn    == cand \cap nat
        acc   == {b \in 1..nb : Eff(G[u.variants[b]]) \in TypeAccepts(p.p)}
        pick(b) == [m |-> res[b].m, any |-> res[b].any, vs |-> WrapBranch(b, res[b]).vs]
    IN  IF Cardinality(rn) >= 2 THEN RErr                      \* several equally suitable branches
        ELSE IF cand = {} THEN RErr
        ELSE IF Cardinality(nat) = 1 /\ Cardinality(rn) = 1 THEN pick(CHOOSE x \in rn : TRUE)
        ELSE IF nat = {} /\ Cardinality(cand) = 1 /\ ~res[CHOOSE x \in cand : TRUE].any
             THEN \* no natural branch, and only one branch can hold the value.  It is designated BY TYPE only if it is also the
                  \* only branch that accepts presentations of this serde type at all; when other branches accept the type (and
                  \* merely not this value: a str that is no symbol of the enum branch, of the wrong length for the fixed branch)
                  \* the choice is not determined by the type, and the serializer may refuse (C01 then asks for the branch name)
                  IF Cardinality(acc) = 1 THEN pick(CHOOSE x \in cand : TRUE)
                  ELSE [m |-> "free", any |-> FALSE, vs |-> pick(CHOOSE x \in cand : TRUE).vs]
        ELSE IF \E b \in cand : res[b].any THEN RAny
        ELSE [m |-> "free", any |-> FALSE, vs |-> UNION {WrapBranch(b, res[b]).vs : b \in cand}]

DenUnion(G, k, p, slow) ==
    LET u == G[k]  c == p.p IN
    IF c = "fail" THEN RErr
    ELSE IF c = "some" THEN Den(G, k, p.x, slow)
    ELSE IF c \in {"newtype_struct", "newtype_variant", "struct", "struct_variant", "tuple_variant"} THEN
        LET nm    == IF c \in {"newtype_struct", "struct"} THEN p.name ELSE p.variant
            full  == FullNamedBranches(G, u, nm)
            named == NamedBranches(G, u, nm)
            inner(b) == IF c \in {"newtype_struct", "newtype_variant"} THEN Den(G, u.variants[b], p.x, slow)
                        ELSE DenPlain(G, u.variants[b], p, slow)
            byType == IF c \in {"newtype_struct", "newtype_variant"} THEN Den(G, k, p.x, slow)
                      ELSE DenUnionByType(G, k, p, slow)
        IN  IF Cardinality(full) = 1 THEN WrapBranch(CHOOSE b \in full : TRUE, inner(CHOOSE b \in full : TRUE))
            ELSE IF Cardinality(named) = 1 THEN WrapBranch(CHOOSE b \in named : TRUE, inner(CHOOSE b \in named : TRUE))
            ELSE IF named = {} THEN [m |-> IF byType.m = "ok" THEN "free" ELSE byType.m, any |-> byType.any, vs |-> byType.vs]
            ELSE RAny                                           \* a name shared by several branches
    ELSE IF c = "unit_variant" THEN
        LET nb   == Len(u.variants)
            nullB == {b \in 1..nb : Eff(G[u.variants[b]]) = "null" /\ p.variant = Txt_Null}
            enumB == {b \in 1..nb : Eff(G[u.variants[b]]) = "enum" /\ IndexOf(G[u.variants[b]].symbols, p.variant, 1) # 0}
            textB == {b \in 1..nb : Eff(G[u.variants[b]]) \in {"string", "bytes"}}
            r    == nullB \cup enumB
            enumAll == {b \in 1..nb : Eff(G[u.variants[b]]) = "enum"}
        IN  IF Cardinality(r) = 1 THEN
                \* by name: variant `Null` designates the null branch, a symbol designates its enum - when that enum is the only
                \* enum branch.  With several enum branches the presentation's TYPE fits them all, so the choice is not determined by
                \* type (the serializer reports the ambiguity, which C02 lists as an error case); an Ok must still be the right one.
                LET b == CHOOSE x \in r : TRUE IN
                IF b \in enumB /\ Cardinality(enumAll) > 1
                THEN WrapBranch(b, RFree([t |-> "enum", i |-> IndexOf(G[u.variants[b]].symbols, p.variant, 1) - 1]))
                ELSE
                WrapBranch(b, IF b \in nullB THEN ROk(VNull)
                              ELSE ROk([t |-> "enum", i |-> IndexOf(G[u.variants[b]].symbols, p.variant, 1) - 1]))
            ELSE IF r = {} /\ textB = {} THEN RErr
            ELSE RAny
    ELSE IF c = "unit_struct" THEN
        \* written as null, as its name (string / bytes), or as the enum symbol of that name
        IF \E b \in 1..Len(u.variants) : Eff(G[u.variants[b]]) \in {"null", "string", "bytes", "enum"} THEN RAny ELSE RErr
    ELSE DenUnionByType(G, k, p, slow)

Den(G, k, p, slow) == IF G[k].k = "union" THEN DenUnion(G, k, p, slow) ELSE DenPlain(G, k, p, slow)

(***************************************************************************)
(* What an observed serialization outcome must satisfy.                    *)
(*   res = "ok" with bytes, or res = "err".                                *)
(***************************************************************************)
\* Where Den is silent (`any`) one thing can still be said of a decimal on a fixed wider than 16 bytes: the unscaled value fits
\* 16 bytes (i128 / the 96-bit mantissa), so the bytes in front of the last 16 are its sign extension - all 00 or all FF, agreeing
\* with the sign bit of the 16-byte part.  (An Ok with FF FF .. 00 00 .. - a "negative zero" padded as negative - is not a number
\* anywhere near the presented one.  Seeded twice, independently: C02-r2-3, C02-r3-2.)
AnyWellFormed(G, bytes) ==
    LET n == G[1] IN
    IF Eff(n) = "decimal_fixed" /\ n.size > 16
    THEN /\ Len(bytes) = n.size
         /\ LET k == n.size - 16  fill == IF bytes[k + 1] >= 128 THEN 255 ELSE 0 IN \A i \in 1..k : bytes[i] = fill
    ELSE TRUE

SerAllowed(G, p, slow, res, bytes) ==
    LET d == Den(G, 1, p, slow) IN
    CASE res = "err" -> d.m # "ok"
      [] res = "ok"  -> /\ d.m # "err"
                        /\ \/ (d.any /\ AnyWellFormed(G, bytes))
                           \/ \E v \in d.vs : IsEncodingOf(G, bytes, v)
      [] OTHER -> FALSE

(***************************************************************************)
(* Canonical presentations of a value (C01).                               *)
(*   style "named": every union branch by name (newtype variant carrying   *)
(*                  the branch name);                                      *)
(*   style "rust" : what Rust types produce - unit variant `Null`, Option  *)
(*                  (none / some) for two-branch unions with null.         *)
(*   style "bare" : union branches by their type alone whenever Den says   *)
(*                  that is unambiguous, by name otherwise.                *)
(***************************************************************************)
Txt_U == <<85>>
RECURSIVE Canon(_, _, _, _)
Canon(G, k, v, style) ==
    LET n == G[k]  e == Eff(n) IN
    CASE e = "null" -> [p |-> "unit"]
      [] e = "boolean" -> [p |-> "bool", i |-> v.i]
      [] e \in IntLike -> [p |-> "i32", v |-> v.v]
      [] e \in LongLike -> [p |-> "i64", v |-> v.v]
      [] e = "float" -> [p |-> "f32", v |-> v.v]
      [] e = "double" -> [p |-> "f64", v |-> v.v]
      [] e \in {"bytes", "fixed", "duration"} -> [p |-> "bytes", v |-> v.v]
      [] e \in StringLike -> [p |-> "str", v |-> v.v]
      [] e = "enum" -> [p |-> "unit_variant", name |-> ShortName(n.name), idx |-> v.i, variant |-> n.symbols[v.i + 1]]
      [] e \in DecimalLike -> [p |-> "str", v |-> DecText(v.v, v.s)]
      [] e = "array" -> [p |-> "seq", len |-> Len(v.es), es |-> [i \in 1..Len(v.es) |-> Canon(G, n.items, v.es[i], style)]]
      [] e = "map" -> [p |-> "map", len |-> Len(v.kv), mode |-> "entry",
                       kv |-> [i \in 1..Len(v.kv) |-> << [p |-> "str", v |-> v.kv[i][1]], Canon(G, n.values, v.kv[i][2], style) >>]]
      [] e = "record" -> [p |-> "struct", name |-> ShortName(n.name),
                          fs |-> [i \in 1..Len(v.es) |-> << n.fields[i].n, Canon(G, n.fields[i].t, v.es[i], style) >>]]
      [] e = "union" ->
            LET bk    == n.variants[v.b + 1]
                bn    == G[bk]
                inner == Canon(G, bk, v.x, style)
                nm    == BranchName(bn)
                named == IF nm = <<>> THEN inner
                         ELSE [p |-> "newtype_variant", name |-> Txt_U, idx |-> v.b, variant |-> nm, x |-> inner]
                isOpt == Len(n.variants) = 2 /\ Cardinality({i \in 1..2 : Eff(G[n.variants[i]]) = "null"}) = 1
            IN  IF style = "named" THEN named
                ELSE IF style = "rust" THEN
                    IF isOpt THEN (IF Eff(bn) = "null" THEN [p |-> "none"] ELSE [p |-> "some", x |-> inner])
                    ELSE IF Eff(bn) = "null" THEN [p |-> "unit_variant", name |-> Txt_U, idx |-> v.b, variant |-> Txt_Null]
                    ELSE named
                ELSE \* bare
                    LET d == Den(G, k, inner, FALSE) IN
                    IF d.m = "ok" /\ d.vs = {v} THEN inner ELSE named

CanonStyles == {"named", "rust", "bare"}

=============================================================================

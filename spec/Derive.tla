------------------------------- MODULE Derive -------------------------------
(***************************************************************************)
(* #[derive(BuildSchema)]: the relation between a Rust type (a "shape")    *)
(* and the schema graph derived for it (C20).                              *)
(*                                                                         *)
(* A shape is a sequence D of monomorphic definitions plus a root type     *)
(* expression:                                                             *)
(*   type expressions  [k |-> prim] (bool i8 i16 i32 i64 u16 u32 u64 usize *)
(*       f32 f64 string bytes), [k |-> "bytearr", n |-> N],                *)
(*       [k |-> "opt"/"vec"/"map", t |-> te], [k |-> "lt", lt, t],         *)
(*       [k |-> "ref", i |-> index into D]   (pointers Box/Rc/Arc/& are    *)
(*       transparent and already removed; a generic definition appears     *)
(*       once per instantiation)                                           *)
(*   definitions  [kind |-> "struct", fields |-> <<[n, t]>>]               *)
(*                [kind |-> "newtype", t]                                  *)
(*                [kind |-> "unit_enum", variants |-> <<names>>]           *)
(*                [kind |-> "union_enum", variants |-> <<[unit, serde, t]>>]*)
(*                                                                         *)
(* Fits(D, root, G): node 1 of G is a schema for the root type: records    *)
(* for structs (same field names, in order), the inner schema for newtypes *)
(* and pointers, enum for unit-only enums, union for enums of newtype      *)
(* variants (null for the unit variant) whose serde names are the branch   *)
(* names, [null, T] for Option, array / map / bytes / fixed(N), the Avro   *)
(* primitive each Rust primitive maps to (u16 -> int, u32/u64 -> long),    *)
(* the logical type asked for.  Names are NOT prescribed: only that named  *)
(* nodes are defined once per fullname (UniqueFullnames of SchemaDesc).    *)
(* The relation is coinductive (recursive types): a (definition, node)     *)
(* pair under examination is assumed to fit.                               *)
(*                                                                         *)
(* Build(D, root): the derive's construction (find_or_build per type,      *)
(* reserve-then-fill), as a model; MC_Derive checks Fits(Build) and that   *)
(* every value's presentation serializes and round-trips under it.         *)
(***************************************************************************)
EXTENDS SerdeModel, SchemaDesc

PrimTEs == {"bool", "i8", "i16", "i32", "i64", "u16", "u32", "u64", "usize", "f32", "f64", "string", "bytes"}
PrimKind(k) ==
    CASE k = "bool" -> "boolean"
      [] k \in {"i8", "i16", "i32", "u16"} -> "int"
      [] k \in {"i64", "u32", "u64", "usize"} -> "long"
      [] k = "f32" -> "float"
      [] k = "f64" -> "double"
      [] k = "string" -> "string"
      [] k = "bytes" -> "bytes"
      [] k = "unit" -> "null"
      [] OTHER -> "none"

KeyOk(G, k) == k \in 1..Len(G)

(***************************************************************************)
(* Walk: depth-first check of Fits, threading the set of (definition,      *)
(* node) pairs already examined or under examination.                      *)
(***************************************************************************)
RECURSIVE WalkTE(_, _, _, _, _)
RECURSIVE WalkDef(_, _, _, _, _)
RECURSIVE WalkFields(_, _, _, _, _, _)
RECURSIVE WalkVariants(_, _, _, _, _, _)

No(acc) == [ok |-> FALSE, acc |-> acc]
Yes(acc) == [ok |-> TRUE, acc |-> acc]

WalkTE(D, G, te, k, acc) ==
    IF ~KeyOk(G, k) THEN No(acc)
    ELSE LET n == G[k] IN
    CASE te.k \in PrimTEs -> IF n.k = PrimKind(te.k) /\ n.lt = "none" THEN Yes(acc) ELSE No(acc)
      [] te.k = "bytearr" -> IF n.k = "fixed" /\ n.lt = "none" /\ n.size = te.n THEN Yes(acc) ELSE No(acc)
      [] te.k = "lt" -> IF te.t.k = "bytearr"        \* a logical type over a byte array: a named fixed of that size (duration, decimal)
                        THEN (IF n.k = "fixed" /\ n.size = te.t.n /\ n.lt = te.lt THEN Yes(acc) ELSE No(acc))
                        ELSE IF n.k = PrimKind(te.t.k) /\ n.lt = te.lt THEN Yes(acc) ELSE No(acc)
      [] te.k = "opt" ->
            IF n.k = "union" /\ n.lt = "none" /\ Len(n.variants) = 2 /\ KeyOk(G, n.variants[1]) /\ G[n.variants[1]].k = "null"
            THEN WalkTE(D, G, te.t, n.variants[2], acc) ELSE No(acc)
      [] te.k = "vec" -> IF n.k = "array" /\ n.lt = "none" THEN WalkTE(D, G, te.t, n.items, acc) ELSE No(acc)
      [] te.k = "map" -> IF n.k = "map" /\ n.lt = "none" THEN WalkTE(D, G, te.t, n.values, acc) ELSE No(acc)
      [] te.k = "ref" -> WalkDef(D, G, te.i, k, acc)
      [] OTHER -> No(acc)

WalkFields(D, G, fs, nfs, i, acc) ==
    IF i > Len(fs) THEN Yes(acc)
    ELSE IF nfs[i].n # fs[i].n THEN No(acc)
    ELSE LET h == WalkTE(D, G, fs[i].t, nfs[i].t, acc) IN
         IF ~h.ok THEN h ELSE WalkFields(D, G, fs, nfs, i + 1, h.acc)

WalkVariants(D, G, vs, nvs, i, acc) ==
    IF i > Len(vs) THEN Yes(acc)
    ELSE IF ~KeyOk(G, nvs[i]) THEN No(acc)
    ELSE IF vs[i].unit THEN (IF G[nvs[i]].k = "null" THEN WalkVariants(D, G, vs, nvs, i + 1, acc) ELSE No(acc))
    ELSE IF vs[i].serde # BranchName(G[nvs[i]]) THEN No(acc)        \* the type does not carry the branch's name: precondition of C20
    ELSE LET h == WalkTE(D, G, vs[i].t, nvs[i], acc) IN
         IF ~h.ok THEN h ELSE WalkVariants(D, G, vs, nvs, i + 1, h.acc)

WalkDef(D, G, i, k, acc) ==
    IF <<i, k>> \in acc THEN Yes(acc)
    ELSE LET d == D[i]  n == G[k]  a1 == acc \cup {<<i, k>>} IN
    CASE d.kind = "struct" ->
            IF n.k = "record" /\ n.lt = "none" /\ Len(n.fields) = Len(d.fields) THEN WalkFields(D, G, d.fields, n.fields, 1, a1) ELSE No(acc)
      [] d.kind = "newtype" -> WalkTE(D, G, d.t, k, a1)
      [] d.kind = "unit_enum" -> IF n.k = "enum" /\ n.lt = "none" /\ n.symbols = d.variants THEN Yes(a1) ELSE No(acc)
      [] d.kind = "union_enum" ->
            IF n.k = "union" /\ n.lt = "none" /\ Len(n.variants) = Len(d.variants) THEN WalkVariants(D, G, d.variants, n.variants, 1, a1) ELSE No(acc)
      [] OTHER -> No(acc)

Fits(D, root, G) == Len(G) >= 1 /\ WalkTE(D, G, root, 1, {}).ok

(***************************************************************************)
(* Validity of the derived graph as an Avro schema beyond what GraphDesc   *)
(* says: a union holds no union directly and no two branches of the same   *)
(* unnamed type or of the same fullname.                                   *)
(***************************************************************************)
UnionOk(G, n) ==
    /\ \A i \in 1..Len(n.variants) : KeyOk(G, n.variants[i]) /\ G[n.variants[i]].k # "union"
    /\ \A i, j \in 1..Len(n.variants) :
          i < j => LET a == G[n.variants[i]]  b == G[n.variants[j]] IN
                   IF a.k \in NamedKinds /\ b.k \in NamedKinds THEN a.name # b.name
                   ELSE a.k # b.k
WellFormedUnions(G) == \A k \in 1..Len(G) : G[k].k = "union" => UnionOk(G, G[k])

ValidDerived(G) ==
    LET gd == GraphDesc(G) IN
    /\ gd.st = "ok"
    /\ UniqueFullnames(gd.d)            \* one definition per fullname
    /\ ~UncondCycle(G)                  \* no record that unconditionally contains itself
    /\ WellFormedUnions(G)

(***************************************************************************)
(* Build: the construction the derive performs, as a model.                *)
(* State [nodes, built]: `built` is the set of <<lookup key, node key>>    *)
(* pairs of already_built_types.  The lookup key of a type is what         *)
(* TypeId::of::<T::TypeLookup>() distinguishes: pointers are transparent,  *)
(* u16 / i32 (and u32 / u64 / i64) are one type, a newtype struct that     *)
(* forwards to its inner type has the inner type's key, a definition       *)
(* instance has its own.  Encoded as a prefix-free sequence of naturals.   *)
(* RootRegistered = FALSE is the construction as found (schema_mut         *)
(* appended the root without registering it: a root that refers to itself  *)
(* was defined twice - D17).                                               *)
(***************************************************************************)
CONSTANT RootRegistered

Placeholder == [k |-> "null", lt |-> "none"]
PrimNode(kind) == [k |-> kind, lt |-> "none"]
UnitTE == [k |-> "unit"]

KindCode(kind) ==
    CASE kind = "null" -> 0 [] kind = "boolean" -> 1 [] kind = "int" -> 2 [] kind = "long" -> 3 [] kind = "float" -> 4
      [] kind = "double" -> 5 [] kind = "string" -> 6 [] kind = "bytes" -> 7 [] OTHER -> 9

Forwards(d) == d.kind = "newtype" /\ d.t.k \notin {"bytearr", "lt"}

RECURSIVE LookupKey(_, _)
LookupKey(D, te) ==
    CASE te.k \in PrimTEs \cup {"unit"} -> <<1, KindCode(PrimKind(te.k))>>
      [] te.k = "bytearr" -> <<2, te.n>>
      [] te.k = "opt" -> <<3>> \o LookupKey(D, te.t)
      [] te.k = "vec" -> <<4>> \o LookupKey(D, te.t)
      [] te.k = "map" -> <<5>> \o LookupKey(D, te.t)
      [] te.k = "ref" -> IF Forwards(D[te.i]) THEN LookupKey(D, D[te.i].t) ELSE <<6, te.i>>
      [] OTHER -> <<9>>

Digits(n) == IF n < 10 THEN <<48 + n>> ELSE <<48 + (n \div 10), 48 + (n % 10)>>
Txt_u8_array == <<117, 56, 95, 97, 114, 114, 97, 121, 95>>
\* the fullname of a definition instance: the documented name, plus a suffix that differs per instantiation for generics
NameOf(D, i) == IF D[i].generic THEN D[i].full \o <<95>> \o Digits(i) ELSE D[i].full

Push(st, n) == [st EXCEPT !.nodes = Append(@, n)]
SetNode(st, k, n) == [st EXCEPT !.nodes[k] = n]
Found(st, lk) == {p \in st.built : p[1] = lk}

RECURSIVE FindOrBuild(_, _, _)
RECURSIVE AppendSchema(_, _, _)
RECURSIVE AppendDef(_, _, _)
RECURSIVE FieldInst(_, _, _)
RECURSIVE BuildFields(_, _, _, _, _)
RECURSIVE BuildVariants(_, _, _, _, _)

\* -> [st, key]
FindOrBuild(D, te, st) ==
    LET lk == LookupKey(D, te)  f == Found(st, lk) IN
    IF f # {} THEN [st |-> st, key |-> (CHOOSE p \in f : TRUE)[2]]
    ELSE LET k == Len(st.nodes) + 1
             s1 == [st EXCEPT !.built = @ \cup {<<lk, k>>}]
         IN  [st |-> AppendSchema(D, te, s1), key |-> k]

\* a field / variant position: a logical-type attribute always builds a node of its own
FieldInst(D, te, st) ==
    IF te.k = "lt" THEN [st |-> Push(st, [k |-> PrimKind(te.t.k), lt |-> te.lt]), key |-> Len(st.nodes) + 1]
    ELSE FindOrBuild(D, te, st)

\* T::append_schema: appends T's node first (at Len + 1), then whatever it needs below -> st
AppendSchema(D, te, st) ==
    LET k == Len(st.nodes) + 1 IN
    CASE te.k \in PrimTEs \cup {"unit"} -> Push(st, PrimNode(PrimKind(te.k)))
      [] te.k = "bytearr" -> Push(st, [k |-> "fixed", lt |-> "none", name |-> Txt_u8_array \o Digits(te.n), size |-> te.n])
      [] te.k = "opt" -> LET a == FindOrBuild(D, UnitTE, Push(st, Placeholder))
                             b == FindOrBuild(D, te.t, a.st)
                         IN  SetNode(b.st, k, [k |-> "union", lt |-> "none", variants |-> <<a.key, b.key>>])
      [] te.k = "vec" -> LET a == FindOrBuild(D, te.t, Push(st, Placeholder)) IN
                         SetNode(a.st, k, [k |-> "array", lt |-> "none", items |-> a.key])
      [] te.k = "map" -> LET a == FindOrBuild(D, te.t, Push(st, Placeholder)) IN
                         SetNode(a.st, k, [k |-> "map", lt |-> "none", values |-> a.key])
      [] te.k = "ref" -> AppendDef(D, te.i, st)

\* -> [st, fs]
BuildFields(D, fs, i, st, acc) ==
    IF i > Len(fs) THEN [st |-> st, fs |-> acc]
    ELSE LET r == FieldInst(D, fs[i].t, st) IN BuildFields(D, fs, i + 1, r.st, Append(acc, [n |-> fs[i].n, t |-> r.key]))

\* -> [st, vs]
BuildVariants(D, vs, i, st, acc) ==
    IF i > Len(vs) THEN [st |-> st, vs |-> acc]
    ELSE LET v == vs[i]
             r == IF v.unit THEN FindOrBuild(D, UnitTE, st)
                  ELSE IF v.t.k = "bytearr"        \* a byte array variant is a fixed named after the enum and the variant
                       THEN [st |-> Push(st, [k |-> "fixed", lt |-> "none", name |-> v.serde, size |-> v.t.n]), key |-> Len(st.nodes) + 1]
                  ELSE FieldInst(D, v.t, st)
         IN  BuildVariants(D, vs, i + 1, r.st, Append(acc, r.key))

AppendDef(D, i, st) ==
    LET d == D[i]  k == Len(st.nodes) + 1 IN
    CASE d.kind = "struct" ->
            LET r == BuildFields(D, d.fields, 1, Push(st, Placeholder), <<>>) IN
            SetNode(r.st, k, [k |-> "record", lt |-> "none", name |-> NameOf(D, i), fields |-> r.fs])
      [] d.kind = "newtype" ->
            IF d.t.k = "bytearr" THEN Push(st, [k |-> "fixed", lt |-> "none", name |-> NameOf(D, i), size |-> d.t.n])
            ELSE IF d.t.k = "lt" THEN Push(st, [k |-> PrimKind(d.t.t.k), lt |-> d.t.lt])
            ELSE AppendSchema(D, d.t, st)
      [] d.kind = "unit_enum" -> Push(st, [k |-> "enum", lt |-> "none", name |-> NameOf(D, i), symbols |-> d.variants])
      [] d.kind = "union_enum" ->
            LET r == BuildVariants(D, d.variants, 1, Push(st, Placeholder), <<>>) IN
            SetNode(r.st, k, [k |-> "union", lt |-> "none", variants |-> r.vs])

Build(D, root) ==
    LET st0 == [nodes |-> <<>>, built |-> {}] IN
    IF RootRegistered THEN FindOrBuild(D, root, st0).st.nodes ELSE AppendSchema(D, root, st0).nodes

(***************************************************************************)
(* Two values of every type as serde presents them: w = 0 the "empty" one  *)
(* (None, no elements, 0, first variant), w = 1 a populated one.  fuel     *)
(* bounds recursive types (below it, only empty values).                   *)
(***************************************************************************)
IntPresKind(k) == IF k = "usize" THEN "u64" ELSE k
RECURSIVE PresOf(_, _, _, _)
RECURSIVE PresFields(_, _, _, _, _)
PresFields(D, fs, i, w, fuel) ==
    IF i > Len(fs) THEN <<>> ELSE << <<fs[i].n, PresOf(D, fs[i].t, w, fuel)>> >> \o PresFields(D, fs, i + 1, w, fuel)
PresOf(D, te, w0, fuel) ==
    LET w == IF fuel <= 0 THEN 0 ELSE w0 IN
    CASE te.k = "bool" -> [p |-> "bool", i |-> w]
      [] te.k \in {"i8", "i16", "i32", "i64", "u16", "u32", "u64", "usize"} -> [p |-> IntPresKind(te.k), v |-> IntToI64(IF w = 0 THEN 0 ELSE 100)]
      [] te.k = "f32" -> [p |-> "f32", v |-> IF w = 0 THEN <<0, 0, 0, 0>> ELSE <<0, 0, 128, 63>>]
      [] te.k = "f64" -> [p |-> "f64", v |-> IF w = 0 THEN <<0, 0, 0, 0, 0, 0, 0, 0>> ELSE <<0, 0, 0, 0, 0, 0, 248, 63>>]
      [] te.k = "string" -> [p |-> "str", v |-> IF w = 0 THEN <<>> ELSE <<97, 98>>]
      [] te.k = "bytes" -> [p |-> "bytes", v |-> IF w = 0 THEN <<>> ELSE <<255, 0>>]
      [] te.k = "bytearr" -> [p |-> "bytes", v |-> [j \in 1..te.n |-> IF w = 0 THEN 0 ELSE 200 + j]]
      [] te.k = "lt" -> IF te.lt = "uuid" THEN [p |-> "str", v |-> <<97>>] ELSE PresOf(D, te.t, w, fuel)
      [] te.k = "opt" -> IF w = 0 THEN [p |-> "none"] ELSE [p |-> "some", x |-> PresOf(D, te.t, 1, fuel - 1)]
      [] te.k = "vec" -> IF w = 0 THEN [p |-> "seq", len |-> 0, es |-> <<>>]
                         ELSE [p |-> "seq", len |-> 2, es |-> <<PresOf(D, te.t, 1, fuel - 1), PresOf(D, te.t, 0, fuel - 1)>>]
      [] te.k = "map" -> IF w = 0 THEN [p |-> "map", len |-> 0, mode |-> "entry", kv |-> <<>>]
                         ELSE [p |-> "map", len |-> 1, mode |-> "entry", kv |-> << <<[p |-> "str", v |-> <<107>>], PresOf(D, te.t, 1, fuel - 1)>> >>]
      [] te.k = "ref" ->
            LET d == D[te.i] IN
            CASE d.kind = "struct" -> [p |-> "struct", name |-> d.rust, fs |-> PresFields(D, d.fields, 1, w, fuel)]
              [] d.kind = "newtype" -> [p |-> "newtype_struct", name |-> d.rust, x |-> PresOf(D, d.t, w, fuel)]
              [] d.kind = "unit_enum" -> LET i == IF w = 0 THEN 1 ELSE Len(d.variants) IN
                                         [p |-> "unit_variant", name |-> d.rust, idx |-> i - 1, variant |-> d.variants[i]]
              [] d.kind = "union_enum" ->
                    LET i == IF w = 0 THEN 1 ELSE Len(d.variants)  v == d.variants[i] IN
                    IF v.unit THEN [p |-> "unit_variant", name |-> d.rust, idx |-> i - 1, variant |-> v.serde]
                    ELSE [p |-> "newtype_variant", name |-> d.rust, idx |-> i - 1, variant |-> v.serde, x |-> PresOf(D, v.t, w, fuel - 1)]

\* the value denotes exactly one Avro value, whose encoding decodes back to it.  (m = "free" arises only for a newtype
\* struct directly inside a union, selected by the type of its content: SerdeModel leaves that fallback open; the
\* trace check on the real serializer demands success there too)
RoundTrips(G, p) ==
    LET d == Den(G, 1, p, FALSE) IN
    /\ d.m # "err" /\ ~d.any /\ Cardinality(d.vs) = 1
    /\ \A v \in d.vs : Conforms(G, 1, v) /\ LET r == DecAll(G, Enc(G, 1, v)) IN r.st = "ok" /\ r.v = v

=============================================================================

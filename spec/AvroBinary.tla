----------------------------- MODULE AvroBinary -----------------------------
(***************************************************************************)
(* The Avro binary encoding as a specification: which byte strings are     *)
(* encodings of which values under which schema.                           *)
(*                                                                         *)
(* Values (tagged records, one shape per wire class):                      *)
(*   [t |-> "null"]                         [t |-> "bool", i |-> 0 | 1]    *)
(*   [t |-> "int",  v |-> I64 limbs]  (fits i32)   [t |-> "long", v |-> I64]*)
(*   [t |-> "f32", v |-> 4 bytes LE]        [t |-> "f64", v |-> 8 bytes]   *)
(*   [t |-> "bytes" | "str" | "fix", v |-> bytes]   [t |-> "dur", v |-> 12]*)
(*   [t |-> "enum", i |-> index from 0]                                    *)
(*   [t |-> "dec", v |-> 16 bytes BE two's complement unscaled, s |-> scale]*)
(*   [t |-> "arr", es |-> <<values>>]  [t |-> "map", kv |-> << <<key, value>> >>]*)
(*   [t |-> "rec", es |-> <<field values in schema order>>]                *)
(*   [t |-> "un",  b |-> branch index from 0, x |-> value]                 *)
(* (Payload field names differ per payload type on purpose: TLC orders set *)
(* elements by comparing record fields in an arbitrary field order, so two *)
(* records with equal field names must have equally typed fields.)         *)
(*                                                                         *)
(* Enc      : the encoding with one positive-count block per non-empty     *)
(*            collection.                                                  *)
(* EncWith  : the encoding under a block-layout policy; Layouts = the set  *)
(*            of encodings over all policies (legal variants of the same   *)
(*            value: several blocks, negative counts with byte sizes).     *)
(* Dec      : total decoder.  st = "ok" (value, next position), "err"      *)
(*            (not an encoding: the property says decoding must fail), or  *)
(*            "free" (the specification / the listed properties are silent:*)
(*            over-long varints, int beyond 32 bits, a block byte size     *)
(*            that disagrees with the block, duplicate map keys, decimals  *)
(*            outside the documented limits).                              *)
(***************************************************************************)
EXTENDS AvroSchema, AvVarint

NoVal == [t |-> "none"]
VNull == [t |-> "null"]

DErr  == [st |-> "err",  v |-> NoVal, pos |-> 0]
DFree == [st |-> "free", v |-> NoVal, pos |-> 0]
DOk(v, p) == [st |-> "ok", v |-> v, pos |-> p]

\* value tag expected at an effective kind
TagOf(e) ==
    CASE e = "null" -> "null"
      [] e = "boolean" -> "bool"
      [] e \in IntLike -> "int"
      [] e \in LongLike -> "long"
      [] e = "float" -> "f32"
      [] e = "double" -> "f64"
      [] e = "bytes" -> "bytes"
      [] e \in StringLike -> "str"
      [] e = "fixed" -> "fix"
      [] e = "duration" -> "dur"
      [] e = "enum" -> "enum"
      [] e \in DecimalLike -> "dec"
      [] e = "array" -> "arr"
      [] e = "map" -> "map"
      [] e = "record" -> "rec"
      [] e = "union" -> "un"

(***************************************************************************)
(* Decimal limits documented by the implementation: at most 16 bytes on    *)
(* the wire, mantissa magnitude below 2^96, scale at most 28.              *)
(***************************************************************************)
Within96(be16) ==
    \/ (be16[1] = 0 /\ be16[2] = 0 /\ be16[3] = 0 /\ be16[4] = 0)
    \/ (be16[1] = 255 /\ be16[2] = 255 /\ be16[3] = 255 /\ be16[4] = 255
        /\ \E i \in 5..16 : be16[i] # 0)
MaxScale == 28

(***************************************************************************)
(* Conformance of a value to a schema node.                                *)
(***************************************************************************)
RECURSIVE Conforms(_, _, _)
Conforms(G, k, v) ==
    LET n == G[k]  e == Eff(n) IN
    /\ v.t = TagOf(e)
    /\ CASE e = "null" -> TRUE
         [] e = "boolean" -> v.i \in {0, 1}
         [] e \in IntLike -> IsU64(v.v) /\ FitsI32(v.v)
         [] e \in LongLike -> IsU64(v.v)
         [] e = "float" -> IsBytes(v.v) /\ Len(v.v) = 4
         [] e = "double" -> IsBytes(v.v) /\ Len(v.v) = 8
         [] e = "bytes" -> IsBytes(v.v)
         [] e \in StringLike -> IsBytes(v.v) /\ Utf8Valid(v.v)
         [] e = "fixed" -> IsBytes(v.v) /\ Len(v.v) = n.size
         [] e = "duration" -> IsBytes(v.v) /\ Len(v.v) = 12
         [] e = "enum" -> v.i \in 0..(Len(n.symbols) - 1)
         [] e = "decimal_bytes" -> IsBytes(v.v) /\ Len(v.v) = 16 /\ Within96(v.v)
                                   /\ v.s = n.scale /\ n.scale <= MaxScale
         [] e = "decimal_fixed" -> IsBytes(v.v) /\ Len(v.v) = 16 /\ Within96(v.v)
                                   /\ v.s = n.scale /\ n.scale <= MaxScale
                                   /\ n.size \in 1..16 /\ FitsBE(v.v, n.size)
         [] e = "bigdecimal" -> IsBytes(v.v) /\ Len(v.v) = 16 /\ Within96(v.v) /\ v.s \in 0..MaxScale
         [] e = "array" -> \A i \in 1..Len(v.es) : Conforms(G, n.items, v.es[i])
         [] e = "map" -> /\ \A i \in 1..Len(v.kv) :
                              /\ IsBytes(v.kv[i][1]) /\ Utf8Valid(v.kv[i][1])
                              /\ Conforms(G, n.values, v.kv[i][2])
                         /\ \A i, j \in 1..Len(v.kv) : v.kv[i][1] = v.kv[j][1] => i = j
         [] e = "record" -> /\ Len(v.es) = Len(n.fields)
                            /\ \A i \in 1..Len(v.es) : Conforms(G, n.fields[i].t, v.es[i])
         [] e = "union" -> /\ v.b \in 0..(Len(n.variants) - 1)
                           /\ Conforms(G, n.variants[v.b + 1], v.x)

\* number of array / map / union / record levels on the deepest path of a value
RECURSIVE Nesting(_)
RECURSIVE MaxNesting(_, _)
MaxNesting(vs, i) == IF i > Len(vs) THEN 0 ELSE MaxN(Nesting(vs[i]), MaxNesting(vs, i + 1))
Nesting(v) ==
    CASE v.t = "arr" -> 1 + MaxNesting(v.es, 1)
      [] v.t = "rec" -> 1 + MaxNesting(v.es, 1)
      [] v.t = "map" -> 1 + MaxNesting([i \in 1..Len(v.kv) |-> v.kv[i][2]], 1)
      [] v.t = "un"  -> 1 + Nesting(v.x)
      [] OTHER -> 0

(***************************************************************************)
(* Block-layout policies for a collection of n elements: a sequence of     *)
(* [c |-> element count, neg |-> written with negative count + byte size]. *)
(***************************************************************************)
Policies == 1..7
BlockPlan(p, n) ==
    IF n = 0 THEN <<>>
    ELSE CASE p = 1 -> << [c |-> n, neg |-> FALSE] >>
           [] p = 2 -> [i \in 1..n |-> [c |-> 1, neg |-> FALSE]]
           [] p = 3 -> << [c |-> n, neg |-> TRUE] >>
           [] p = 4 -> [i \in 1..n |-> [c |-> 1, neg |-> TRUE]]
           [] p = 5 -> IF n = 1 THEN << [c |-> 1, neg |-> TRUE] >>
                       ELSE << [c |-> 1, neg |-> FALSE], [c |-> n - 1, neg |-> TRUE] >>
           [] p = 6 -> IF n = 1 THEN << [c |-> 1, neg |-> FALSE] >>
                       ELSE << [c |-> n - 1, neg |-> TRUE], [c |-> 1, neg |-> FALSE] >>
           [] p = 7 -> IF n = 1 THEN << [c |-> 1, neg |-> TRUE] >>
                       ELSE << [c |-> (n + 1) \div 2, neg |-> TRUE], [c |-> n \div 2, neg |-> TRUE] >>

\* a layout == [p |-> policy, lvl |-> 0 (all collection levels) | 1.. (only collections at that nesting level)]
Canonical == [p |-> 1, lvl |-> 0]
PolicyAt(L, lvl) == IF L.lvl = 0 \/ L.lvl = lvl THEN L.p ELSE 1

RECURSIVE EncW(_, _, _, _, _)
RECURSIVE EncBlocks(_, _, _)
\* items: sequence of already-encoded elements; plan: block plan; from: index of first item of the plan's head
EncBlocks(items, plan, from) ==
    IF Len(plan) = 0 THEN <<0>>
    ELSE LET bl   == Head(plan)
             body == ConcatAll(SubSeq(items, from, from + bl.c - 1))
             hdr  == IF bl.neg THEN EncInt(-bl.c) \o EncNat(Len(body)) ELSE EncNat(bl.c)
         IN  hdr \o body \o EncBlocks(items, Tail(plan), from + bl.c)

EncW(G, k, v, L, lvl) ==
    LET n == G[k]  e == Eff(n) IN
    CASE e = "null" -> <<>>
      [] e = "boolean" -> <<v.i>>
      [] e \in IntLike \cup LongLike -> EncLong(v.v)
      [] e \in {"float", "double", "fixed", "duration"} -> v.v
      [] e \in {"bytes", "string", "uuid"} -> EncNat(Len(v.v)) \o v.v
      [] e = "enum" -> EncNat(v.i)
      [] e = "decimal_bytes" -> LET t == TrimBE(v.v) IN EncNat(Len(t)) \o t
      [] e = "decimal_fixed" -> ToSizeBE(v.v, n.size)
      [] e = "bigdecimal" -> LET t == TrimBE(v.v)
                                 inner == EncNat(Len(t)) \o t \o EncNat(v.s)
                             IN  EncNat(Len(inner)) \o inner
      [] e = "array" -> EncBlocks([i \in 1..Len(v.es) |-> EncW(G, n.items, v.es[i], L, lvl + 1)],
                                  BlockPlan(PolicyAt(L, lvl + 1), Len(v.es)), 1)
      [] e = "map" -> EncBlocks([i \in 1..Len(v.kv) |->
                                     EncNat(Len(v.kv[i][1])) \o v.kv[i][1]
                                     \o EncW(G, n.values, v.kv[i][2], L, lvl + 1)],
                                BlockPlan(PolicyAt(L, lvl + 1), Len(v.kv)), 1)
      [] e = "record" -> ConcatAll([i \in 1..Len(v.es) |-> EncW(G, n.fields[i].t, v.es[i], L, lvl)])
      [] e = "union" -> EncNat(v.b) \o EncW(G, n.variants[v.b + 1], v.x, L, lvl)

EncWith(G, k, v, L) == EncW(G, k, v, L, 0)
Enc(G, k, v) == EncW(G, k, v, Canonical, 0)

LayoutChoices == {[p |-> p, lvl |-> l] : p \in Policies, l \in 0..2}
Layouts(G, k, v) == {EncWith(G, k, v, L) : L \in LayoutChoices}

(***************************************************************************)
(* Decoder.  d = remaining nesting budget (array, map, union and record    *)
(* levels cost one each), ms = maximum cumulative element count of one     *)
(* collection.  Exceeding either is "err" (C04).                           *)
(***************************************************************************)
\* read a non-negative length that must be available: [st, n (small nat), pos (after the length)]
ReadLen(b, pos) ==
    LET r == DecLongRaw(b, pos) IN
    IF r.st = "eof" THEN [st |-> "err", n |-> 0, pos |-> 0]
    ELSE IF r.st = "over" \/ ~r.min THEN [st |-> "free", n |-> 0, pos |-> 0]
    ELSE IF IsNeg64(r.x) THEN [st |-> "err", n |-> 0, pos |-> 0]
    ELSE IF ~U64FitsNat31(r.x) \/ U64ToNat(r.x) > Len(b) - (pos + r.n - 1)
         THEN [st |-> "err", n |-> 0, pos |-> 0]           \* premature end of input
    ELSE [st |-> "ok", n |-> U64ToNat(r.x), pos |-> pos + r.n]

\* read an index in 0..(card-1)
ReadIndex(b, pos, card) ==
    LET r == DecLongRaw(b, pos) IN
    IF r.st = "eof" THEN [st |-> "err", n |-> 0, pos |-> 0]
    ELSE IF r.st = "over" \/ ~r.min THEN [st |-> "free", n |-> 0, pos |-> 0]
    ELSE IF IsNeg64(r.x) \/ ~U64FitsNat31(r.x) \/ U64ToNat(r.x) >= card
         THEN [st |-> "err", n |-> 0, pos |-> 0]
    ELSE [st |-> "ok", n |-> U64ToNat(r.x), pos |-> pos + r.n]

Avail(b, pos, n) == pos + n - 1 <= Len(b)

DistinctKeys(es) == \A i, j \in 1..Len(es) : es[i][1] = es[j][1] => i = j

RECURSIVE Dec(_, _, _, _, _, _)
RECURSIVE DecEntries(_, _, _, _, _, _, _, _)
RECURSIVE DecBlocks(_, _, _, _, _, _, _, _)
RECURSIVE DecFields(_, _, _, _, _, _, _)

\* cnt entries (elements, or key/value pairs when isMap) -> [st, vs, pos]
DecEntries(G, ik, isMap, b, pos, cnt, d, ms) ==
    IF cnt = 0 THEN [st |-> "ok", vs |-> <<>>, pos |-> pos]
    ELSE LET kl == IF isMap THEN ReadLen(b, pos) ELSE [st |-> "ok", n |-> 0, pos |-> pos]
         IN
         IF kl.st # "ok" THEN [st |-> kl.st, vs |-> <<>>, pos |-> 0]
         ELSE LET key == Slice(b, kl.pos, kl.n) IN
         IF isMap /\ ~Utf8Valid(key) THEN [st |-> "err", vs |-> <<>>, pos |-> 0]
         ELSE LET r == Dec(G, ik, b, kl.pos + kl.n, d, ms) IN
         IF r.st # "ok" THEN [st |-> r.st, vs |-> <<>>, pos |-> 0]
         ELSE LET rest == DecEntries(G, ik, isMap, b, r.pos, cnt - 1, d, ms) IN
         IF rest.st # "ok" THEN rest
         ELSE [st |-> "ok",
               vs |-> << (IF isMap THEN <<key, r.v>> ELSE r.v) >> \o rest.vs,
               pos |-> rest.pos]

DecBlocks(G, ik, isMap, b, pos, nread, d, ms) ==
    LET c == DecLongRaw(b, pos) IN
    IF c.st = "eof" THEN [st |-> "err", vs |-> <<>>, pos |-> 0]
    ELSE IF c.st = "over" \/ ~c.min THEN [st |-> "free", vs |-> <<>>, pos |-> 0]
    ELSE IF c.x = U64Zero THEN [st |-> "ok", vs |-> <<>>, pos |-> pos + c.n]
    ELSE LET neg  == IsNeg64(c.x)
             cntU == IF neg THEN Neg64(c.x) ELSE c.x
             sz   == IF neg THEN DecLongRaw(b, pos + c.n)
                     ELSE [st |-> "ok", x |-> U64Zero, n |-> 0, min |-> TRUE]
         IN
         IF sz.st = "eof" THEN [st |-> "err", vs |-> <<>>, pos |-> 0]
         ELSE IF sz.st = "over" \/ ~sz.min THEN [st |-> "free", vs |-> <<>>, pos |-> 0]
         ELSE IF ~U64FitsNat31(cntU) \/ U64ToNat(cntU) > ms - nread
              THEN [st |-> "err", vs |-> <<>>, pos |-> 0]       \* longer than the configured maximum
         ELSE LET cnt   == U64ToNat(cntU)
                  start == pos + c.n + sz.n
                  es    == DecEntries(G, ik, isMap, b, start, cnt, d, ms)
              IN
              IF es.st # "ok" THEN es
              ELSE IF neg /\ sz.x # NatToU64(es.pos - start)
                   THEN [st |-> "free", vs |-> <<>>, pos |-> 0]  \* byte size disagrees with the block
              ELSE LET rest == DecBlocks(G, ik, isMap, b, es.pos, nread + cnt, d, ms) IN
                   IF rest.st # "ok" THEN rest
                   ELSE [st |-> "ok", vs |-> es.vs \o rest.vs, pos |-> rest.pos]

DecFields(G, fs, i, b, pos, d, ms) ==
    IF i > Len(fs) THEN [st |-> "ok", vs |-> <<>>, pos |-> pos]
    ELSE LET r == Dec(G, fs[i].t, b, pos, d, ms) IN
         IF r.st # "ok" THEN [st |-> r.st, vs |-> <<>>, pos |-> 0]
         ELSE LET rest == DecFields(G, fs, i + 1, b, r.pos, d, ms) IN
              IF rest.st # "ok" THEN rest
              ELSE [st |-> "ok", vs |-> <<r.v>> \o rest.vs, pos |-> rest.pos]

\* a non-empty big-endian two's complement string of at most 16 bytes as a decimal value
DecimalOf(raw, scale, pos) ==
    LET be == SignExtendBE(raw, 16) IN
    IF ~Within96(be) \/ scale > MaxScale THEN DFree
    ELSE DOk([t |-> "dec", v |-> be, s |-> scale], pos)

Dec(G, k, b, pos, d, ms) ==
    LET n == G[k]  e == Eff(n) IN
    CASE e = "null" -> DOk(VNull, pos)
      [] e = "boolean" ->
            IF ~Avail(b, pos, 1) THEN DErr
            ELSE IF b[pos] > 1 THEN DErr
            ELSE DOk([t |-> "bool", i |-> b[pos]], pos + 1)
      [] e \in IntLike ->
            LET r == DecLongRaw(b, pos) IN
            IF r.st = "eof" THEN DErr
            ELSE IF r.st = "over" \/ ~r.min \/ ~FitsI32(r.x) THEN DFree
            ELSE DOk([t |-> "int", v |-> r.x], pos + r.n)
      [] e \in LongLike ->
            LET r == DecLongRaw(b, pos) IN
            IF r.st = "eof" THEN DErr
            ELSE IF r.st = "over" \/ ~r.min THEN DFree
            ELSE DOk([t |-> "long", v |-> r.x], pos + r.n)
      [] e = "float" ->
            IF ~Avail(b, pos, 4) THEN DErr ELSE DOk([t |-> "f32", v |-> Slice(b, pos, 4)], pos + 4)
      [] e = "double" ->
            IF ~Avail(b, pos, 8) THEN DErr ELSE DOk([t |-> "f64", v |-> Slice(b, pos, 8)], pos + 8)
      [] e = "bytes" ->
            LET l == ReadLen(b, pos) IN
            IF l.st = "err" THEN DErr ELSE IF l.st = "free" THEN DFree
            ELSE DOk([t |-> "bytes", v |-> Slice(b, l.pos, l.n)], l.pos + l.n)
      [] e \in StringLike ->
            LET l == ReadLen(b, pos) IN
            IF l.st = "err" THEN DErr ELSE IF l.st = "free" THEN DFree
            ELSE IF ~Utf8Valid(Slice(b, l.pos, l.n)) THEN DErr
            ELSE DOk([t |-> "str", v |-> Slice(b, l.pos, l.n)], l.pos + l.n)
      [] e = "fixed" ->
            IF ~Avail(b, pos, n.size) THEN DErr
            ELSE DOk([t |-> "fix", v |-> Slice(b, pos, n.size)], pos + n.size)
      [] e = "duration" ->
            IF ~Avail(b, pos, 12) THEN DErr
            ELSE DOk([t |-> "dur", v |-> Slice(b, pos, 12)], pos + 12)
      [] e = "enum" ->
            LET r == ReadIndex(b, pos, Len(n.symbols)) IN
            IF r.st = "err" THEN DErr ELSE IF r.st = "free" THEN DFree
            ELSE DOk([t |-> "enum", i |-> r.n], r.pos)
      [] e = "decimal_bytes" ->
            LET l == ReadLen(b, pos) IN
            IF l.st = "err" THEN DErr ELSE IF l.st = "free" THEN DFree
            ELSE IF l.n = 0 \/ l.n > 16 THEN DFree
            ELSE DecimalOf(Slice(b, l.pos, l.n), n.scale, l.pos + l.n)
      [] e = "decimal_fixed" ->
            IF n.size = 0 \/ n.size > 16 THEN DFree
            ELSE IF ~Avail(b, pos, n.size) THEN DErr
            ELSE DecimalOf(Slice(b, pos, n.size), n.scale, pos + n.size)
      [] e = "bigdecimal" ->
            LET l == ReadLen(b, pos) IN
            IF l.st = "err" THEN DErr ELSE IF l.st = "free" THEN DFree
            ELSE LET w  == Slice(b, l.pos, l.n)
                     ul == ReadLen(w, 1)
                 IN
                 IF ul.st # "ok" THEN DFree
                 ELSE IF ul.n = 0 \/ ul.n > 16 THEN DFree
                 ELSE \* the scale is a long written after the unscaled bytes
                      LET sr == DecLongRaw(w, ul.pos + ul.n) IN
                      IF sr.st # "ok" \/ ~sr.min \/ IsNeg64(sr.x) \/ ~U64FitsNat31(sr.x) THEN DFree
                      ELSE IF ul.pos + ul.n + sr.n - 1 # Len(w) THEN DFree
                      ELSE DecimalOf(Slice(w, ul.pos, ul.n), U64ToNat(sr.x), l.pos + l.n)
      [] e = "array" ->
            IF d = 0 THEN DErr
            ELSE LET r == DecBlocks(G, n.items, FALSE, b, pos, 0, d - 1, ms) IN
                 IF r.st = "err" THEN DErr ELSE IF r.st = "free" THEN DFree
                 ELSE DOk([t |-> "arr", es |-> r.vs], r.pos)
      [] e = "map" ->
            IF d = 0 THEN DErr
            ELSE LET r == DecBlocks(G, n.values, TRUE, b, pos, 0, d - 1, ms) IN
                 IF r.st = "err" THEN DErr ELSE IF r.st = "free" THEN DFree
                 ELSE IF ~DistinctKeys(r.vs) THEN DFree
                 ELSE DOk([t |-> "map", kv |-> r.vs], r.pos)
      [] e = "record" ->
            IF d = 0 THEN DErr
            ELSE LET r == DecFields(G, n.fields, 1, b, pos, d - 1, ms) IN
                 IF r.st = "err" THEN DErr ELSE IF r.st = "free" THEN DFree
                 ELSE DOk([t |-> "rec", es |-> r.vs], r.pos)
      [] e = "union" ->
            IF d = 0 THEN DErr
            ELSE LET r == ReadIndex(b, pos, Len(n.variants)) IN
                 IF r.st = "err" THEN DErr ELSE IF r.st = "free" THEN DFree
                 ELSE LET x == Dec(G, n.variants[r.n + 1], b, r.pos, d - 1, ms) IN
                      IF x.st # "ok" THEN x
                      ELSE DOk([t |-> "un", b |-> r.n, x |-> x.v], x.pos)


(***************************************************************************)
(* Single-point malformations of the canonical encoding of v, by the       *)
(* classes C03 names: boolean byte other than 0/1, invalid UTF-8 in a      *)
(* string or map key, union / enum index outside the schema, negative      *)
(* lengths.  (Premature end of input = every proper prefix, see            *)
(* MC_Codec.)  Every element must be rejected by Dec: a theorem TLC checks *)
(* before the set is used to judge the implementation.                     *)
(***************************************************************************)
BadUtf8(s) == IF Len(s) = 0 THEN {}
              ELSE {[s EXCEPT ![1] = 255], [s EXCEPT ![Len(s)] = 192]}

RECURSIVE Mal(_, _, _)
Mal(G, k, v) ==
    LET n == G[k]  e == Eff(n) IN
    CASE e = "boolean" -> {<<2>>, <<255>>}
      [] e \in StringLike ->
            {EncInt(-1) \o v.v} \cup {EncNat(Len(v.v)) \o s : s \in BadUtf8(v.v)}
      [] e = "bytes" -> {EncInt(-1) \o v.v}
      [] e = "decimal_bytes" -> {EncInt(-1) \o TrimBE(v.v)}
      [] e = "enum" -> {EncNat(Len(n.symbols)), EncInt(-1)}
      [] e = "union" ->
            LET body == Enc(G, n.variants[v.b + 1], v.x) IN
            {EncNat(Len(n.variants)) \o body, EncInt(-1) \o body}
            \cup {EncNat(v.b) \o m : m \in Mal(G, n.variants[v.b + 1], v.x)}
      [] e = "array" ->
            LET es == [i \in 1..Len(v.es) |-> Enc(G, n.items, v.es[i])] IN
            UNION {{EncNat(Len(es)) \o ConcatAll(SubSeq(es, 1, i - 1)) \o m
                      \o ConcatAll(SubSeq(es, i + 1, Len(es))) \o <<0>>
                    : m \in Mal(G, n.items, v.es[i])} : i \in 1..Len(es)}
      [] e = "map" ->
            LET ent(i) == EncNat(Len(v.kv[i][1])) \o v.kv[i][1] \o Enc(G, n.values, v.kv[i][2])
                es == [i \in 1..Len(v.kv) |-> ent(i)]
                wrap(i, m) == EncNat(Len(es)) \o ConcatAll(SubSeq(es, 1, i - 1)) \o m
                              \o ConcatAll(SubSeq(es, i + 1, Len(es))) \o <<0>>
            IN
            UNION {{wrap(i, EncNat(Len(v.kv[i][1])) \o v.kv[i][1] \o m) : m \in Mal(G, n.values, v.kv[i][2])}
                   \cup {wrap(i, EncNat(Len(v.kv[i][1])) \o s \o Enc(G, n.values, v.kv[i][2])) : s \in BadUtf8(v.kv[i][1])}
                   \cup {wrap(i, EncInt(-1) \o v.kv[i][1] \o Enc(G, n.values, v.kv[i][2]))}
                   : i \in 1..Len(es)}
      [] e = "record" ->
            LET es == [i \in 1..Len(v.es) |-> Enc(G, n.fields[i].t, v.es[i])] IN
            UNION {{ConcatAll(SubSeq(es, 1, i - 1)) \o m \o ConcatAll(SubSeq(es, i + 1, Len(es)))
                    : m \in Mal(G, n.fields[i].t, v.es[i])} : i \in 1..Len(es)}
      [] OTHER -> {}

DefaultDepth  == 64
DefaultMaxSeq == 1000000000
DecAll(G, b) == Dec(G, 1, b, 1, DefaultDepth, DefaultMaxSeq)

\* b is a complete, valid encoding of v
IsEncodingOf(G, b, v) ==
    LET r == DecAll(G, b) IN r.st = "ok" /\ r.pos = Len(b) + 1 /\ r.v = v

=============================================================================

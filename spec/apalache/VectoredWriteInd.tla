------------------------------- MODULE VectoredWriteInd -------------------------------
(* VectoredWrite with Apalache type annotations: the invariant "nothing lost or duplicated" is INDUCTIVE
   for buffers of any content up to the length bounds below (no bound on the number of steps). *)
EXTENDS Integers, Sequences, Apalache

CONSTANTS
    \* @type: Int;
    MaxAccept,
    \* @type: Bool;
    MutOffByOne

VARIABLES
    \* @type: Seq(Int);
    b1,
    \* @type: Seq(Int);
    b2,
    \* @type: Seq(Int);
    b3,
    \* @type: Seq(Int);
    got,
    \* @type: Seq(Int);
    total,
    \* @type: Str;
    result

ConstInit == MaxAccept \in 1..5 /\ MutOffByOne = FALSE
ConstInitMut == MaxAccept \in 1..5 /\ MutOffByOne = TRUE

\* @type: (Seq(Int), Int) => Seq(Int);
Drop(s, k) == SubSeq(s, k + 1, Len(s))

Remaining == Len(b1) + Len(b2) + Len(b3)
All == b1 \o b2 \o b3

\* any state satisfying the invariant, with bounded buffer lengths
IndInit ==
    /\ b1 = Gen(3) /\ b2 = Gen(4) /\ b3 = Gen(2) /\ got = Gen(9) /\ total = Gen(9)
    /\ result \in {"run", "ok", "err"}
    /\ got \o All = total
    /\ (result = "ok" => got = total)

Init == /\ b1 = Gen(3) /\ b2 = Gen(4) /\ b3 = Gen(2)
        /\ got = <<>> /\ total = b1 \o b2 \o b3 /\ result = "run"

\* (mutation: on a partial write the slices are advanced by one byte too few)
Adv(k) == IF MutOffByOne /\ k > 1 /\ k < Remaining THEN k - 1 ELSE k

Accept(k0) ==
    /\ got' = got \o SubSeq(All, 1, k0)
    /\ LET k == Adv(k0) IN
       IF k <= Len(b1) THEN b1' = Drop(b1, k) /\ b2' = b2 /\ b3' = b3
       ELSE IF k <= Len(b1) + Len(b2) THEN b1' = <<>> /\ b2' = Drop(b2, k - Len(b1)) /\ b3' = b3
       ELSE b1' = <<>> /\ b2' = <<>> /\ b3' = Drop(b3, k - Len(b1) - Len(b2))
    /\ UNCHANGED <<result, total>>

Next ==
    \/ /\ result = "run" /\ Remaining = 0 /\ result' = "ok" /\ UNCHANGED <<b1, b2, b3, got, total>>
    \/ /\ result = "run" /\ Remaining > 0
       /\ \E k \in 1..9 : k <= Remaining /\ k <= MaxAccept /\ Accept(k)
    \/ /\ result = "run" /\ Remaining > 0 /\ result' = "err" /\ UNCHANGED <<b1, b2, b3, got, total>>
    \/ UNCHANGED <<b1, b2, b3, got, total, result>>

IndInv == /\ got \o All = total
          /\ (result = "ok" => got = total)
=============================================================================

------------------------------ MODULE Trace_Reader ------------------------------
(***************************************************************************)
(* ContainerReaderAbs (C05 read side, C06, C17): what the sequence of      *)
(* results of successive deserialize_next calls must look like, given what *)
(* was written and how the file was damaged.  One event per file read:     *)
(*   [written |-> <<items>>, damage, results |-> << [r, item, io, st] >>]  *)
(*   r \in {"some","none","err"}; item = position of the value among the   *)
(*   written ones (0: a value that was not written at that position - the  *)
(*   harness compares the decoded value with the written values);          *)
(*   io: the error carries an I/O error; st: reader state after the call   *)
(*   (hooks; "unknown" without them).                                      *)
(*                                                                         *)
(* damage = "intact":    exactly the written items in order, no error,     *)
(*                       then end of stream (and only end of stream);      *)
(*          "truncated": the items yielded are a prefix of the written     *)
(*                       ones (each exactly as written), then an error or  *)
(*                       end of stream;                                    *)
(*          "sync":      a block's sync marker differs: as "named", and the *)
(*                       error is unrecoverable (only end of stream after); *)
(*          "named":     (sync marker differs / declared size or count     *)
(*                       disagrees with the contents / snappy CRC) an      *)
(*                       error is reported, and before it only a prefix of *)
(*                       the written items;                                *)
(*          "named_ends": as "named", and end of stream is reached within   *)
(*                       the calls made (count / size off by one);         *)
(*          "io":        an I/O error injected at some read call: prefix   *)
(*                       of the written items, the error reported ONCE,    *)
(*                       then end of stream;                               *)
(*          "arbitrary": every call returned (nothing else required).      *)
(* Always: once end of stream has been reported it is reported forever;    *)
(* after an unrecoverable error (I/O error, or the reader state "broken")  *)
(* only end of stream follows.                                             *)
(***************************************************************************)
EXTENDS Naturals, Sequences, SequencesExt, FiniteSets, Json, IOUtils, TLC

Rec == ndJsonDeserialize(IOEnv.VERIF_TRACE)

VARIABLE l

Somes(rs) == SelectSeq(rs, LAMBDA x : x.r = "some")
Items(rs) == [i \in 1..Len(Somes(rs)) |-> Somes(rs)[i].item]
FirstIdx(rs, kind) == IF \E i \in 1..Len(rs) : rs[i].r = kind
                      THEN CHOOSE i \in 1..Len(rs) : rs[i].r = kind /\ \A j \in 1..(i - 1) : rs[j].r # kind
                      ELSE 0

IsPrefixOfWritten(items, n) == Len(items) <= n /\ \A i \in 1..Len(items) : items[i] = i

StickyNone(rs) == \A i \in 1..Len(rs) : rs[i].r = "none" => \A j \in i..Len(rs) : rs[j].r = "none"
Latch(rs) == \A i \in 1..Len(rs) : (rs[i].r = "err" /\ (rs[i].io \/ rs[i].st = "broken")) => \A j \in (i + 1)..Len(rs) : rs[j].r = "none"

RunAllowed(e) ==
    LET rs == e.results  n == e.nwritten IN
    /\ \A i \in 1..Len(rs) : rs[i].r \in {"some", "none", "err"}
    /\ StickyNone(rs)
    /\ Latch(rs)
    /\ CASE e.damage = "intact" ->
              /\ \A i \in 1..Len(rs) : rs[i].r # "err"
              /\ Items(rs) = [i \in 1..n |-> i]
              /\ rs[Len(rs)].r = "none"
         [] e.damage = "truncated" ->
              /\ IsPrefixOfWritten(Items(rs), n)
              /\ \E i \in 1..Len(rs) : rs[i].r \in {"none", "err"}
              \* premature end of input is an unrecoverable (I/O or framing) error: reported once, then end of stream
              /\ \A i \in 1..Len(rs) : rs[i].r = "err" => \A j \in (i + 1)..Len(rs) : rs[j].r = "none"
         [] e.damage = "sync" ->
              \* a block's trailing sync marker differs from the header's: a framing error, reported once, then end of stream
              LET k == FirstIdx(rs, "err") IN
              /\ k > 0
              /\ IsPrefixOfWritten(Items(SubSeq(rs, 1, k - 1)), n)
              /\ \A j \in (k + 1)..Len(rs) : rs[j].r = "none"
         [] e.damage = "named" ->
              LET k == FirstIdx(rs, "err") IN
              /\ k > 0
              /\ IsPrefixOfWritten(Items(SubSeq(rs, 1, k - 1)), n)
         [] e.damage = "named_ends" ->
              \* a declared count or size that is off by one: as "named", and the reader gets over it - the calls made (as many as there are
              \* values, plus a margin) reach end of stream instead of reporting the same error for ever
              LET k == FirstIdx(rs, "err") IN
              /\ k > 0
              /\ IsPrefixOfWritten(Items(SubSeq(rs, 1, k - 1)), n)
              /\ rs[Len(rs)].r = "none"
         [] e.damage = "io" ->
              /\ IsPrefixOfWritten(Items(rs), n)
              /\ Cardinality({i \in 1..Len(rs) : rs[i].r = "err"}) <= 1
         [] e.damage = "arbitrary" -> TRUE

Init == l = 1
Next == /\ l <= Len(Rec)
        /\ Rec[l].ev = "r_run" /\ RunAllowed(Rec[l])
        /\ l' = l + 1

Accepted ==
    \/ TLCGet("stats").diameter - 1 = Len(Rec)
    \/ (PrintT(<<"REJECT", TLCGet("stats").diameter>>) /\ FALSE)
=============================================================================

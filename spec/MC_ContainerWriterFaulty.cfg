SPECIFICATION Spec
CONSTANTS
  MutNoRetry = FALSE
  MutOkOnFault = FALSE
INVARIANT IndInv
CONSTRAINT Small
CHECK_DEADLOCK FALSE

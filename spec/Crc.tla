--------------------------------- MODULE Crc ---------------------------------
(***************************************************************************)
(* CRC-32 (IEEE, reflected; the snappy block trailer of container files)   *)
(* and CRC-64-AVRO (the "Rabin" schema fingerprint), on 16-bit limbs.      *)
(*                                                                         *)
(* CRC-64-AVRO is given twice: the bit-serial definition from the Avro     *)
(* specification (Fp64Bit) and the table-driven form implementations use   *)
(* (Fp64Tab, with the 256-entry table computed from the definition).       *)
(* Both step functions are GF(2)-linear in (state, byte) - shifts, XOR     *)
(* with a constant selected by one bit, a table that is itself linear      *)
(* (Table(i ^^ j) = Table(i) ^^ Table(j)) - so their equality on a basis   *)
(* of the 72-dimensional space {state} x {byte} (MC_Crc checks the 64      *)
(* one-bit states with byte 0, the zero state with the 8 one-bit bytes,    *)
(* and linearity of the table) extends to all 2^64 x 256 pairs.            *)
(***************************************************************************)
EXTENDS Naturals, Sequences, Bitwise

\* ---- 32 bit: <<lo, hi>>
Shr1_32(x) == << (x[1] \div 2) + (x[2] % 2) * 32768, x[2] \div 2 >>
Xor32(a, b) == << a[1] ^^ b[1], a[2] ^^ b[2] >>
Poly32 == <<33568, 60856>>            \* 0xEDB88320

RECURSIVE Crc32Bits(_, _)
Crc32Bits(c, k) == IF k = 0 THEN c
                   ELSE Crc32Bits(IF c[1] % 2 = 1 THEN Xor32(Shr1_32(c), Poly32) ELSE Shr1_32(c), k - 1)

RECURSIVE Crc32From(_, _, _)
Crc32From(b, i, c) == IF i > Len(b) THEN c
                      ELSE Crc32From(b, i + 1, Crc32Bits(<<c[1] ^^ b[i], c[2]>>, 8))

Crc32(b) == Xor32(Crc32From(b, 1, <<65535, 65535>>), <<65535, 65535>>)
Crc32BE(b) == LET c == Crc32(b) IN << c[2] \div 256, c[2] % 256, c[1] \div 256, c[1] % 256 >>

\* ---- 64 bit: <<l1, l2, l3, l4>>, l1 least significant
Shr1_64(x) == << (x[1] \div 2) + (x[2] % 2) * 32768, (x[2] \div 2) + (x[3] % 2) * 32768,
                 (x[3] \div 2) + (x[4] % 2) * 32768, x[4] \div 2 >>
Shr8_64(x) == << (x[1] \div 256) + (x[2] % 256) * 256, (x[2] \div 256) + (x[3] % 256) * 256,
                 (x[3] \div 256) + (x[4] % 256) * 256, x[4] \div 256 >>
Xor64(a, b) == << a[1] ^^ b[1], a[2] ^^ b[2], a[3] ^^ b[3], a[4] ^^ b[4] >>
Zero64 == <<0, 0, 0, 0>>
Empty64 == <<42901, 42199, 8506, 49501>>      \* 0xC15D213AA4D7A795

RECURSIVE Fp64Bits(_, _)
Fp64Bits(fp, k) == IF k = 0 THEN fp
                   ELSE Fp64Bits(IF fp[1] % 2 = 1 THEN Xor64(Shr1_64(fp), Empty64) ELSE Shr1_64(fp), k - 1)

\* one byte, bit-serial (the definition)
StepBit(fp, byte) == Fp64Bits(<<fp[1] ^^ byte, fp[2], fp[3], fp[4]>>, 8)

\* entry i of the 256-entry table (an operator rather than a function constant: TLC evaluates it on demand)
Table(i) == Fp64Bits(<<i, 0, 0, 0>>, 8)

\* one byte, table-driven (what the implementation does)
StepTab(fp, byte) == Xor64(Shr8_64(fp), Table((fp[1] ^^ byte) % 256))

RECURSIVE FoldBytes(_, _, _, _)
FoldBytes(b, i, fp, tab) == IF i > Len(b) THEN fp
                            ELSE FoldBytes(b, i + 1, IF tab THEN StepTab(fp, b[i]) ELSE StepBit(fp, b[i]), tab)

Fp64Bit(b) == FoldBytes(b, 1, Empty64, FALSE)
Fp64Tab(b) == FoldBytes(b, 1, Empty64, TRUE)

LE8(x) == << x[1] % 256, x[1] \div 256, x[2] % 256, x[2] \div 256, x[3] % 256, x[3] \div 256, x[4] % 256, x[4] \div 256 >>
\* the 8-byte little-endian fingerprint of a byte string
Fingerprint(b) == LE8(Fp64Tab(b))

=============================================================================

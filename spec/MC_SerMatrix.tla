---------------------------- MODULE MC_SerMatrix ----------------------------
(***************************************************************************)
(* The (schema x presentation) matrix of C02.                              *)
(* For every schema of the scope and every presentation of the catalogue   *)
(* (SerdePres), TLC computes Den and checks the relation's consistency:    *)
(*   - must-ok cells have exactly the denoted values, never `any`;         *)
(*   - every denoted value conforms to the schema and Dec(Enc(v)) = v      *)
(*     (so "Ok bytes" can be judged);                                      *)
(* and prints the cell - verdict class plus the canonical encodings of the *)
(* denoted values - to be replayed on the real serializer.                 *)
(* `slow` (allow_slow_sequence_to_bytes) is enumerated for sequence        *)
(* presentations only.                                                     *)
(***************************************************************************)
EXTENDS SerdePres, Json, IOUtils, SequencesExt

Scope   == ndJsonDeserialize(IOEnv.VERIF_SCOPE)
NShards == atoi(IOEnv.VERIF_NSHARDS)
Shard   == atoi(IOEnv.VERIF_SHARD)

VARIABLE c

SeqLike(p) == p.p \in {"seq", "tuple", "tuple_struct", "tuple_variant"}

MkCell(i, j, slow) ==
    LET G == Scope[i].nodes
        p == AllPres[j]
        d == Den(G, 1, p, slow)
    IN  [si |-> i, sid |-> Scope[i].sid, pi |-> j, pres |-> p, slow |-> slow,
         m |-> d.m, any |-> d.any, nvs |-> Cardinality(d.vs),
         okb |-> SetToSeq({Enc(G, 1, v) : v \in d.vs}),
         sane |-> /\ (d.m = "ok" => (~d.any /\ d.vs # {}))
                  /\ (d.m = "err" => (~d.any /\ d.vs = {}))
                  /\ \A v \in d.vs : Conforms(G, 1, v) /\ IsEncodingOf(G, Enc(G, 1, v), v)]

Init == c = [si |-> 0]
Next == /\ c.si = 0
        /\ \E i \in 1..Len(Scope), j \in 1..Len(AllPres) :
             /\ (i * 7 + j) % NShards = Shard
             /\ \E slow \in (IF SeqLike(AllPres[j]) THEN {FALSE, TRUE} ELSE {FALSE}) : c' = MkCell(i, j, slow)

CellSane == c.si = 0 \/ c.sane
Emit == c.si = 0 \/ PrintT(<<"SCN", ToJson(c)>>)

=============================================================================

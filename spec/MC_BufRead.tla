----------------------------- MODULE MC_BufRead -----------------------------
(* all byte strings over Alphabet of length <= MaxLen x every first-refill length x every type *)
EXTENDS BufReadModel, TLC
CONSTANTS Alphabet, MaxLen

RECURSIVE Strings(_)
Strings(n) == IF n = 0 THEN { <<>> } ELSE LET s == Strings(n - 1) IN s \cup { Append(x, b) : x \in {y \in s : Len(y) = n - 1}, b \in Alphabet }

VARIABLE c
Init == c = [s |-> <<>>, k |-> 0, t |-> "none"]
Next == /\ c.t = "none"
        /\ \E s \in Strings(MaxLen), T \in Types : \E k \in 1..(IF Len(s) = 0 THEN 1 ELSE Len(s)) :
             c' = [s |-> s, k |-> k, t |-> T]
Agree == c.t = "none" \/ (/\ VarintAgree(c.t, c.s, IF Len(c.s) = 0 THEN 0 ELSE c.k)
                          /\ \A n \in 0..(Len(c.s) + 1) : SliceAgree(c.s, IF Len(c.s) = 0 THEN 0 ELSE c.k, n, 3))
=============================================================================

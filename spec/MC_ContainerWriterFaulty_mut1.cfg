SPECIFICATION Spec
CONSTANTS
  MutNoRetry = TRUE
  MutOkOnFault = FALSE
INVARIANT IndInv
CONSTRAINT Small
CHECK_DEADLOCK FALSE

INIT Init
NEXT Next
POSTCONDITION Accepted
CHECK_DEADLOCK FALSE

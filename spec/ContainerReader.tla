--------------------------- MODULE ContainerReader ---------------------------
(***************************************************************************)
(* The container reader as the implementation structures it (reader/mod.rs *)
(* deserialize_seed_next / deserialize_next_inner), over an ABSTRACT file: *)
(*                                                                         *)
(*   blocks[b] = [n     |-> declared object count,                         *)
(*                items |-> <<"good" | "bad" | "short" | "junk", ...>>     *)
(*                          what the payload really holds ("bad": decoding *)
(*                          fails without an I/O error; "short": the block *)
(*                          ends inside the object; "junk": stray bytes),  *)
(*                sync  |-> "ok" | "bad"]                                  *)
(*   cut = [b, at]: the input ends inside part `at` of block b:            *)
(*         at \in {"hdr", "sync"} or an item index 1..Len(items); or       *)
(*         "clean": exactly before block b; or "none": input complete      *)
(*                                                                         *)
(*   kind = "slice": the input is a slice - a block's payload is taken as  *)
(*         a sub-slice when the block is opened (so it must be wholly      *)
(*         there), and running off its end is an ordinary decoding error;  *)
(*         "stream": a BufRead - the payload is read through io::Take, and *)
(*         running off its end (or the input's) is an I/O error;           *)
(*         "whole_io": a slice reader over a streaming-compressed block -  *)
(*         the compressed payload is a sub-slice (wholly there at open),   *)
(*         the decompressed data is read through a BufReader (I/O error at *)
(*         its end); a snappy block, decompressed when it is opened, is of *)
(*         this kind whatever the reader.                                  *)
(*                                                                         *)
(* Reader state (the three variables the hook Reader::verif_state shows):  *)
(*   st    "not_in_block" | "in_block" | "broken"                          *)
(*   left  objects the open block still owes according to its header       *)
(*   latch pretend_eof_because_yielded_unrecoverable_error                 *)
(* plus the position (bi, ii) and `lost`: a recoverable decoding error has *)
(* left the input position undefined (what follows is not specified).      *)
(*                                                                         *)
(* One Call = one deserialize_next: result [r, id, io].                    *)
(*                                                                         *)
(* MC_ContainerReader checks, for every small file, every damage and every *)
(* number of calls, the rules C17 states (and Trace_Reader demands of the  *)
(* real reader): values form a prefix of what was written; damage is       *)
(* reported before a clean end of stream; after an I/O error or once       *)
(* broken, every later call says end of stream.  Trace_ReaderImpl replays  *)
(* the real reader's calls and hook states against this machine.           *)
(***************************************************************************)
EXTENDS Integers, Sequences, FiniteSets, TLC

VARIABLES blocks, cut, kind, st, left, latch, bi, ii, lost, out, called

rvars == <<st, left, latch, bi, ii, lost>>
vars == <<blocks, cut, kind, st, left, latch, bi, ii, lost, out, called>>

\* parts of a block as integers (TLC cannot compare strings with numbers): header 0, object i = i, sync marker 1000;
\* -1: the input ends exactly before the block ("clean"); -2: the input is complete
AtHdr == 0
AtSync == 1000
AtClean == -1
AtNone == -2
NoCut == [b |-> 0, at |-> AtNone]

\* global (1-based) id of item i of block b = its position among all written items ("junk" is not an item)
RECURSIVE Before(_, _)
NItems(blk) == Cardinality({i \in 1..Len(blk.items) : blk.items[i] # "junk"})
Before(bl, b) == IF b <= 1 THEN 0 ELSE NItems(bl[b - 1]) + Before(bl, b - 1)
IdOf(b, i) == Before(blocks, b) + i
NWritten == Before(blocks, Len(blocks) + 1)

\* is part `at` of block b wholly present in the input?  (parts in order: hdr, items 1.., sync)
Present(b, at) ==
    \/ cut.at = AtNone
    \/ b < cut.b
    \/ (b = cut.b /\ cut.at # AtClean /\ at < cut.at)
\* the input is exhausted when the reader looks for block b
AtEnd(b) == b > Len(blocks) \/ (cut.at = AtClean /\ b >= cut.b)

Res(r, id, io) == [r |-> r, id |-> id, io |-> io]

(***************************************************************************)
(* One call, as a function of the reader state: [res, st, left, latch, bi, *)
(* ii, lost].  The loop of deserialize_next_inner is unrolled by recursion *)
(* (each iteration either returns or moves to the next block).            *)
(***************************************************************************)
RECURSIVE Step(_, _, _, _)
Step(s, lf, b, i) ==
    CASE s = "broken" -> [res |-> Res("err", 0, FALSE), st |-> "broken", left |-> 0, bi |-> b, ii |-> i, lost |-> FALSE]
      [] s = "not_in_block" ->
            IF AtEnd(b)
            THEN [res |-> Res("none", 0, FALSE), st |-> s, left |-> 0, bi |-> b, ii |-> i, lost |-> FALSE]       \* fill_buf is empty
            ELSE IF ~Present(b, AtHdr)
            THEN \* the header is cut: the state was already replaced by Broken when read_varint fails
                 [res |-> Res("err", 0, TRUE), st |-> "broken", left |-> 0, bi |-> b, ii |-> i, lost |-> FALSE]
            ELSE IF kind \in {"slice", "whole_io"} /\ ~Present(b, AtSync - 1)
            THEN \* a slice reader takes the whole payload when it opens the block: it is not all there
                 [res |-> Res("err", 0, TRUE), st |-> "broken", left |-> 0, bi |-> b, ii |-> i, lost |-> FALSE]
            ELSE Step("in_block", blocks[b].n, b, 0)
      [] s = "in_block" ->
            IF lf = 0 THEN
                \* end of block: leftover data, then the sync marker; the state is Broken while this is checked
                IF i < Len(blocks[b].items) /\ Present(b, i + 1)
                THEN [res |-> Res("err", 0, FALSE), st |-> "broken", left |-> 0, bi |-> b, ii |-> i, lost |-> FALSE]    \* data left in the block
                ELSE IF ~Present(b, AtSync)
                THEN [res |-> Res("err", 0, TRUE), st |-> "broken", left |-> 0, bi |-> b, ii |-> i, lost |-> FALSE]
                ELSE IF blocks[b].sync = "bad"
                THEN [res |-> Res("err", 0, FALSE), st |-> "broken", left |-> 0, bi |-> b, ii |-> i, lost |-> FALSE]
                ELSE Step("not_in_block", 0, b + 1, 0)
            ELSE
                \* one more object: the count is decremented before decoding
                IF i + 1 > Len(blocks[b].items) \/ ~Present(b, i + 1) \/ blocks[b].items[i + 1] \in {"short", "junk"}
                THEN \* the block's bytes are exhausted (declared more than present) or the input ends inside the object:
                     \* an I/O error through io::Take, an ordinary one at the end of a sub-slice
                     [res |-> Res("err", 0, kind \in {"stream", "whole_io"}), st |-> "in_block", left |-> lf - 1, bi |-> b, ii |-> i + 1, lost |-> FALSE]
                ELSE IF blocks[b].items[i + 1] = "bad"
                THEN [res |-> Res("err", 0, FALSE), st |-> "in_block", left |-> lf - 1, bi |-> b, ii |-> i + 1, lost |-> TRUE]
                ELSE [res |-> Res("some", IdOf(b, i + 1), FALSE), st |-> "in_block", left |-> lf - 1, bi |-> b, ii |-> i + 1, lost |-> FALSE]

CallResult ==
    IF latch THEN [res |-> Res("none", 0, FALSE), st |-> st, left |-> left, bi |-> bi, ii |-> ii, lost |-> lost]
    ELSE Step(st, left, bi, ii)

\* the latch of deserialize_seed_next: an I/O error, or the state is Broken after an error
LatchAfter(c) == latch \/ (c.res.r = "err" /\ (c.res.io \/ c.st = "broken"))

Call ==
    /\ ~lost
    /\ LET c == CallResult IN
       /\ st' = c.st /\ left' = c.left /\ bi' = c.bi /\ ii' = c.ii /\ lost' = c.lost
       /\ latch' = LatchAfter(c)
       /\ out' = Append(out, c.res)
    /\ called' = called + 1
    /\ UNCHANGED <<blocks, cut, kind>>

ReaderInit == st = "not_in_block" /\ left = 0 /\ latch = FALSE /\ bi = 1 /\ ii = 0 /\ lost = FALSE /\ out = <<>> /\ called = 0

(***************************************************************************)
(* The rules (C17).                                                        *)
(***************************************************************************)
Somes == SelectSeq(out, LAMBDA x : x.r = "some")
\* values are exactly the first written ones, in order
PrefixOnly == \A k \in 1..Len(Somes) : Somes[k].id = k /\ k <= NWritten
\* the file is damaged in a way the reader can see
Damaged ==
    \/ cut.at \notin {AtNone, AtClean}             \* (a cut exactly before a block is a shorter, intact file)
    \/ \E b \in 1..Len(blocks) : (cut.at = AtNone \/ b < cut.b) /\ (blocks[b].sync = "bad" \/ blocks[b].n # Len(blocks[b].items)
                                                                     \/ \E i \in 1..Len(blocks[b].items) : blocks[b].items[i] # "good")
\* a damaged file never ends cleanly without an error having been reported
MustReport == \A k \in 1..Len(out) : (out[k].r = "none" /\ Damaged) => \E j \in 1..(k - 1) : out[j].r = "err"
\* once an I/O error was reported or the reader is broken, every later call says end of stream
Sticky == \A j, k \in 1..Len(out) : (j < k /\ out[j].r = "err" /\ out[j].io) => out[k].r = "none"
StickyBroken == (st = "broken" /\ Len(out) > 0 /\ out[Len(out)].r = "none") => latch
OnceBroken == \A j, k \in 1..Len(out) : (j < k /\ out[j].r = "none") => out[k].r = "none"
StateSane == /\ st \in {"not_in_block", "in_block", "broken"}
             /\ (st # "in_block" => left = 0)
             /\ (st = "broken" /\ out # <<>> => latch)
=============================================================================

----------------------------- MODULE MC_Derive -----------------------------
(***************************************************************************)
(* C20, design level: for every shape of an enumerated scope, the schema   *)
(* the derive's construction (Derive!Build) produces                       *)
(*   - is a valid Avro schema with one definition per fullname,            *)
(*   - fits the type (Derive!Fits),                                        *)
(*   - lets an empty and a populated value of the type serialize (Den says *)
(*     must-ok, one denoted value) and decode back (Dec(Enc(v)) = v).      *)
(* Every shape is printed as a scenario: the driver turns it into Rust     *)
(* source and the same questions are put to the real derive.               *)
(*                                                                         *)
(* Scope: root record R {a: X, b: Y}; X, Y range over leaves (i32, u32,    *)
(* string, bytes-array-free primitives; references to a leaf record L, a   *)
(* unit enum E, a forwarding newtype N, a union enum U, a fixed newtype F, *)
(* two instantiations GI / GS of one generic record) and one wrapper       *)
(* (Option / Vec / map) around a leaf or around R itself (recursion);      *)
(* root type R, Vec<R> or Option<R>.                                       *)
(***************************************************************************)
EXTENDS Derive, Json, IOUtils, TLC

NShards == atoi(IOEnv.VERIF_NSHARDS)
Shard   == atoi(IOEnv.VERIF_SHARD)
Sample  == atoi(IOEnv.VERIF_SAMPLE)      \* emit (and check) one shape in Sample

Tx(s) == s
N_R == <<82>>  N_L == <<76>>  N_E == <<69>>  N_N == <<78>>  N_U == <<85>>  N_F == <<70>>  N_G == <<71>>
Full(nm) == <<109, 46>> \o nm        \* "m." + name
P(k) == [k |-> k]
Ref(i) == [k |-> "ref", i |-> i]
W(w, t) == [k |-> w, t |-> t]

Defs(X, Y) == <<
    [kind |-> "struct", rust |-> N_R, full |-> Full(N_R), generic |-> FALSE, fields |-> <<[n |-> <<97>>, t |-> X], [n |-> <<98>>, t |-> Y]>>],
    [kind |-> "struct", rust |-> N_L, full |-> Full(N_L), generic |-> FALSE, fields |-> <<[n |-> <<120>>, t |-> P("i32")]>>],
    [kind |-> "unit_enum", rust |-> N_E, full |-> Full(N_E), generic |-> FALSE, variants |-> <<<<65>>, <<66>>>>],
    [kind |-> "newtype", rust |-> N_N, full |-> Full(N_N), generic |-> FALSE, t |-> P("i32")],
    [kind |-> "union_enum", rust |-> N_U, full |-> Full(N_U), generic |-> FALSE,
     variants |-> << [unit |-> TRUE, serde |-> Txt_Null, t |-> [k |-> "unit"]],
                     [unit |-> FALSE, serde |-> <<73, 110, 116>>, t |-> P("i32")],
                     [unit |-> FALSE, serde |-> Full(N_L), t |-> Ref(2)] >>],
    [kind |-> "newtype", rust |-> N_F, full |-> Full(N_F), generic |-> FALSE, t |-> [k |-> "bytearr", n |-> 2]],
    [kind |-> "struct", rust |-> N_G, full |-> Full(N_G), generic |-> TRUE, fields |-> <<[n |-> <<103>>, t |-> P("i32")]>>],
    [kind |-> "struct", rust |-> N_G, full |-> Full(N_G), generic |-> TRUE, fields |-> <<[n |-> <<103>>, t |-> P("string")]>>]
>>

Leaves == { P("i32"), P("u32"), P("string") } \cup { Ref(i) : i \in 2..8 }
Wrapped == { W(w, t) : w \in {"opt", "vec", "map"}, t \in Leaves \cup {Ref(1)} } \ { W("opt", Ref(5)) }    \* Option<union enum>: not valid Avro (D12)
\* thorough tier: two wrappers (Vec<Option<_>>, Option<Vec<R>>, map of Vec ...), again without a union directly inside a union
CONSTANT Deep
Wrappers == {"opt", "vec", "map"}
Wrapped2 == { W(w1, W(w2, t)) : w1 \in Wrappers, w2 \in Wrappers, t \in Leaves \cup {Ref(1)} }
            \ ({ W("opt", W("opt", t)) : t \in Leaves \cup {Ref(1)} } \cup { W(w1, W("opt", Ref(5))) : w1 \in Wrappers })
FieldTypes == IF Deep THEN Leaves \cup Wrapped \cup Wrapped2 ELSE Leaves \cup Wrapped
Roots == { Ref(1), W("vec", Ref(1)), W("opt", Ref(1)) }

VARIABLE c

Init == c = [done |-> FALSE]
Next == /\ ~c.done
        /\ \E X \in FieldTypes, Y \in FieldTypes, r \in Roots :
              c' = [done |-> TRUE, x |-> X, y |-> Y, root |-> r]

Hash(cc) == (Len(ToString(cc.x)) * 7 + Len(ToString(cc.y)) * 13 + Len(ToString(cc.root)) * 3)

Graph(cc) == Build(Defs(cc.x, cc.y), cc.root)

DesignOk ==
    c.done =>
        LET D == Defs(c.x, c.y)  G == Graph(c) IN
        /\ ValidDerived(G)
        /\ Fits(D, c.root, G)
        /\ RoundTrips(G, PresOf(D, c.root, 0, 3))
        /\ RoundTrips(G, PresOf(D, c.root, 1, 3))

Emit == c.done => PrintT(<<"SCN", ToJson([x |-> c.x, y |-> c.y, root |-> c.root, nodes |-> Graph(c)])>>)
=============================================================================

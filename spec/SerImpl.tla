------------------------------- MODULE SerImpl -------------------------------
(***************************************************************************)
(* Implementation-shaped model of the serializer's record machinery        *)
(* (C13, C14): field reordering through pooled side buffers, flushing of   *)
(* contiguous buffered successors, end() filling omitted nullable fields,  *)
(* nested records sharing the pools kept in the serializer configuration,  *)
(* sequences buffered as bytes, and the Drop paths that give buffers back. *)
(*                                                                         *)
(* State threaded through one serialization:                               *)
(*   pool == [bufs   |-> <<length of each pooled byte buffer>>,            *)
(*            supers |-> <<length of each pooled buffer-of-buffers>>,      *)
(*            assertOk |-> no `assert!(v.is_empty())` has failed]          *)
(*   w    == [out |-> bytes written, budget |-> -1 (unlimited) or bytes    *)
(*            the sink still accepts, side |-> writing into a side buffer] *)
(* Leaves (everything that is not a record, array, map or union) are not   *)
(* re-modelled: their bytes are those of the abstract SerdeModel!Den.      *)
(*                                                                         *)
(* The `Mut*` constants switch on model-level mutations used to show that  *)
(* the invariants checked on this model are not vacuous.                   *)
(***************************************************************************)
EXTENDS SerdeModel

CONSTANTS MutDropNoClear,     \* Drop forgets to clear() the buffers it gives back
          MutFlushNoClear     \* the flush loop gives a buffer back without clear()

EmptyPool == [bufs |-> <<>>, supers |-> <<>>, assertOk |-> TRUE]

PopBuf(p) ==
    IF Len(p.bufs) = 0 THEN p
    ELSE [p EXCEPT !.bufs = SubSeq(p.bufs, 1, Len(p.bufs) - 1),
                   !.assertOk = p.assertOk /\ (p.bufs[Len(p.bufs)] = 0)]
PopSuper(p) ==
    IF Len(p.supers) = 0 THEN p
    ELSE [p EXCEPT !.supers = SubSeq(p.supers, 1, Len(p.supers) - 1),
                   !.assertOk = p.assertOk /\ (p.supers[Len(p.supers)] = 0)]
PushBuf(p, len) == [p EXCEPT !.bufs = Append(p.bufs, len)]
PushSuper(p, len) == [p EXCEPT !.supers = Append(p.supers, len)]

MainWriter(budget) == [out |-> <<>>, budget |-> budget, side |-> FALSE]
SideWriter == [out |-> <<>>, budget |-> -1, side |-> TRUE]

\* write_all: [ok, w]; a failing sink keeps the prefix it accepted
WriteTo(w, bytes) ==
    IF w.budget < 0 \/ Len(bytes) <= w.budget
    THEN [ok |-> TRUE, w |-> [w EXCEPT !.out = w.out \o bytes,
                                       !.budget = IF w.budget < 0 THEN -1 ELSE w.budget - Len(bytes)]]
    ELSE [ok |-> FALSE, w |-> [w EXCEPT !.out = w.out \o SubSeq(bytes, 1, w.budget), !.budget = 0]]

NoBuf == <<-1>>           \* an empty slot of the record's buffer-of-buffers (distinct from every byte string)

IsRecordPres(p) == p.p \in {"struct", "struct_variant"} \/ (p.p = "map" /\ \A i \in 1..Len(p.kv) : p.kv[i][1].p = "str")
FieldsOfPres(p) == IF p.p = "map" THEN KvAsFields(p.kv) ELSE p.fs

Unwrap(p) == IF p.p \in {"some", "newtype_struct", "newtype_variant"} THEN p.x ELSE p

RECURSIVE SerValue(_, _, _, _, _, _)
RECURSIVE SerFields(_, _, _, _, _, _)
RECURSIVE FlushSucc(_, _)
RECURSIVE EndLoop(_, _, _)
RECURSIVE SerElems(_, _, _, _, _, _, _)
RECURSIVE PushU8s(_, _, _)
RECURSIVE SerExtra(_, _, _, _, _, _, _)

\* result of serializing one value: [ok, pool, w]
R(ok, pool, w) == [ok |-> ok, pool |-> pool, w |-> w]

\* "while let Some(already_serialized) = buffers[current_idx].take()": st == [cur, side, pool, w, ok]
FlushSucc(st, nf) ==
    IF st.cur <= nf /\ st.cur <= Len(st.side) /\ st.side[st.cur] # NoBuf
    THEN LET r == WriteTo(st.w, st.side[st.cur]) IN
         IF ~r.ok THEN [st EXCEPT !.ok = FALSE, !.w = r.w, !.side[st.cur] = NoBuf]      \* the taken buffer is dropped
         ELSE FlushSucc([st EXCEPT !.w = r.w,
                                   !.pool = PushBuf(st.pool, IF MutFlushNoClear THEN Len(st.side[st.cur]) ELSE 0),
                                   !.side[st.cur] = NoBuf, !.cur = st.cur + 1], nf)
    ELSE st

Resize(side, n) == IF Len(side) >= n THEN side ELSE side \o [i \in 1..(n - Len(side)) |-> NoBuf]

\* one presented field (name, value presentation) on record node rk
Present(G, rk, st, f, slow) ==
    LET rec == G[rk]
        nf  == Len(rec.fields)
        idx == IndexOf([i \in 1..nf |-> rec.fields[i].n], f[1], 1)
    IN
    IF st.cur > nf THEN [st EXCEPT !.ok = FALSE]                    \* all fields written: same field twice / unknown
    ELSE IF idx = 0 THEN [st EXCEPT !.ok = FALSE]                   \* unknown field
    ELSE IF idx < st.cur THEN [st EXCEPT !.ok = FALSE]              \* already written
    ELSE IF idx = st.cur THEN                                       \* fast path: straight into the current writer
        LET r == SerValue(G, rec.fields[idx].t, f[2], st.pool, st.w, slow) IN
        IF ~r.ok THEN [st EXCEPT !.ok = FALSE, !.pool = r.pool, !.w = r.w]
        ELSE FlushSucc([st EXCEPT !.pool = r.pool, !.w = r.w, !.cur = st.cur + 1], nf)
    ELSE LET side1 == Resize(st.side, idx) IN                       \* buffers.resize(field_idx + 1, None)
         IF side1[idx] # NoBuf THEN [st EXCEPT !.ok = FALSE, !.side = side1, !.used = TRUE]
         ELSE LET p1 == PopBuf(st.pool)
                  r  == SerValue(G, rec.fields[idx].t, f[2], p1, SideWriter, slow)
              IN  IF ~r.ok THEN [st EXCEPT !.ok = FALSE, !.pool = r.pool, !.side = side1, !.used = TRUE]   \* popped buffer dropped
                  ELSE [st EXCEPT !.pool = r.pool, !.side = [side1 EXCEPT ![idx] = r.w.out], !.used = TRUE]

SerFields(G, rk, st, fs, i, slow) ==
    IF i > Len(fs) \/ ~st.ok THEN st
    ELSE SerFields(G, rk, Present(G, rk, st, fs[i], slow), fs, i + 1, slow)

\* end(): fill omitted nullable fields, flush what follows, or "missing field"
EndLoop(G, rk, st) ==
    LET rec == G[rk]  nf == Len(rec.fields) IN
    IF ~st.ok \/ st.cur > nf THEN st
    ELSE LET fk == rec.fields[st.cur].t IN
         IF Eff(G[fk]) = "null" THEN EndLoop(G, rk, FlushSucc([st EXCEPT !.cur = st.cur + 1], nf))
         ELSE IF Nullable(G, fk) THEN
              LET r == WriteTo(st.w, EncNat(FirstBranch(G, G[fk], "null", 1) - 1)) IN
              IF ~r.ok THEN [st EXCEPT !.ok = FALSE, !.w = r.w]
              ELSE EndLoop(G, rk, FlushSucc([st EXCEPT !.w = r.w, !.cur = st.cur + 1], nf))
         ELSE [st EXCEPT !.ok = FALSE]

\* impl Drop for KindRecord - runs on success and on every error path
DropRecord(st) ==
    IF ~st.used THEN st
    ELSE LET kept == SelectSeq(st.side, LAMBDA b : b # NoBuf)
             lens == [i \in 1..Len(kept) |-> IF MutDropNoClear THEN Len(kept[i]) ELSE 0]
         IN  [st EXCEPT !.pool = PushSuper([st.pool EXCEPT !.bufs = st.pool.bufs \o lens], 0), !.side = <<>>]

SerStruct(G, rk, fs, pool, w, slow) ==
    LET hadSuper == Len(pool.supers) > 0
        st0 == [cur |-> 1, side |-> <<>>, pool |-> PopSuper(pool), w |-> w, ok |-> TRUE, used |-> hadSuper]
        st1 == SerFields(G, rk, st0, fs, 1, slow)
        st2 == EndLoop(G, rk, st1)
        \* on success end() has emptied every slot (buffers.clear()); the super buffer keeps its capacity
        st3 == DropRecord(st2)
    IN  R(st3.ok, st3.pool, st3.w)

\* elements of an array / entries of a map sharing the writer: [ok, pool, w]
SerElems(G, ik, es, i, pool, w, slow) ==
    IF i > Len(es) THEN R(TRUE, pool, w)
    ELSE LET r == SerValue(G, ik, es[i], pool, w, slow) IN
         IF ~r.ok THEN r ELSE SerElems(G, ik, es, i + 1, r.pool, r.w, slow)

\* buffered-bytes sequence (serialize_seq(None) on a bytes node): elements pushed into a pooled buffer
PushU8s(es, i, acc) ==
    IF i > Len(es) THEN [ok |-> TRUE, buf |-> acc]
    ELSE IF ~IsIntP(es[i]) \/ ~IntFitsU8(es[i]) THEN [ok |-> FALSE, buf |-> acc]
    ELSE PushU8s(es, i + 1, Append(acc, IntAsNat(es[i])))

\* a leaf: the abstract verdict decides, the bytes are the canonical encoding
SerLeaf(G, k, p, pool, w, slow) ==
    LET d == Den(G, k, p, slow) IN
    IF d.m = "err" \/ d.any \/ Cardinality(d.vs) # 1 THEN R(FALSE, pool, w)
    ELSE LET r == WriteTo(w, Enc(G, k, CHOOSE v \in d.vs : TRUE)) IN R(r.ok, pool, r.w)

SerValue(G, k, p, pool, w, slow) ==
    LET n == G[k]  e == Eff(n)  q == Unwrap(p) IN
    IF p.p = "fail" THEN R(FALSE, pool, w)
    ELSE IF p.p # q.p /\ e # "union" THEN SerValue(G, k, q, pool, w, slow)          \* some / newtype wrappers are transparent
    ELSE IF e = "record" /\ IsRecordPres(p) THEN SerStruct(G, k, FieldsOfPres(p), pool, w, slow)
    ELSE IF e = "array" /\ p.p \in {"seq", "tuple", "tuple_struct", "tuple_variant"} THEN
        LET len == IF p.p = "seq" THEN p.len ELSE Len(p.es)
            adv == IF len < 0 THEN 0 ELSE len
        IN  IF Len(p.es) < adv THEN
                \* the advertised block is written, then the elements, then end() fails
                LET h == IF adv > 0 THEN WriteTo(w, EncNat(adv)) ELSE [ok |-> TRUE, w |-> w] IN
                IF ~h.ok THEN R(FALSE, pool, h.w)
                ELSE LET r == SerElems(G, n.items, p.es, 1, pool, h.w, slow) IN R(FALSE, r.pool, r.w)
            ELSE \* one block of `adv` elements, then blocks of one
                 LET h == IF adv > 0 THEN WriteTo(w, EncNat(adv)) ELSE [ok |-> TRUE, w |-> w] IN
                 IF ~h.ok THEN R(FALSE, pool, h.w)
                 ELSE LET first == SerElems(G, n.items, SubSeq(p.es, 1, adv), 1, pool, h.w, slow) IN
                      IF ~first.ok THEN first
                      ELSE LET rest == SerExtra(G, n.items, SubSeq(p.es, adv + 1, Len(p.es)), 1, first.pool, first.w, slow) IN
                           IF ~rest.ok THEN rest
                           ELSE LET z == WriteTo(rest.w, <<0>>) IN R(z.ok, rest.pool, z.w)
    ELSE IF e = "bytes" /\ p.p = "seq" /\ p.len < 0 THEN
        IF ~slow THEN R(FALSE, pool, w)
        ELSE LET p1 == PopBuf(pool)
                 u  == PushU8s(p.es, 1, <<>>)
             IN  IF ~u.ok THEN R(FALSE, PushBuf(p1, 0), w)                         \* Drop: cleared, pooled
                 ELSE LET r == WriteTo(w, EncNat(Len(u.buf)) \o u.buf) IN
                      R(r.ok, PushBuf(p1, 0), r.w)
    ELSE IF e = "union" THEN
        LET d == Den(G, k, p, slow) IN
        IF d.m = "err" \/ d.any \/ Cardinality(d.vs) # 1 THEN R(FALSE, pool, w)
        ELSE LET v  == CHOOSE x \in d.vs : TRUE
                 h  == WriteTo(w, EncNat(v.b))
                 bk == n.variants[v.b + 1]
                 inner == IF p.p \in {"some", "newtype_struct", "newtype_variant"} THEN p.x ELSE p
             IN  IF ~h.ok THEN R(FALSE, pool, h.w)
                 ELSE IF Eff(G[bk]) = "null" THEN R(TRUE, pool, h.w)
                 ELSE SerValue(G, bk, inner, pool, h.w, slow)
    ELSE SerLeaf(G, k, p, pool, w, slow)

\* elements beyond the advertised length: each in a block of one
SerExtra(G, ik, es, i, pool, w, slow) ==
    IF i > Len(es) THEN R(TRUE, pool, w)
    ELSE LET h == WriteTo(w, <<2>>) IN
         IF ~h.ok THEN R(FALSE, pool, h.w)
         ELSE LET r == SerValue(G, ik, es[i], pool, h.w, slow) IN
              IF ~r.ok THEN r ELSE SerExtra(G, ik, es, i + 1, r.pool, r.w, slow)

\* one call of to_datum on a configuration whose pools are `pool`, with a sink accepting `budget` bytes (-1: all)
Call(G, p, pool, budget, slow) == SerValue(G, 1, p, pool, MainWriter(budget), slow)

PoolClean(pool) == /\ \A i \in 1..Len(pool.bufs) : pool.bufs[i] = 0
                   /\ \A i \in 1..Len(pool.supers) : pool.supers[i] = 0
                   /\ pool.assertOk

(***************************************************************************)
(* RecordAbs (C13) / ProbeEqFresh (C14) for one call: with d == Den,       *)
(*  - Ok output = the encoding of the denoted value (schema order, null    *)
(*    for omitted nullable fields), whatever the pool held before;         *)
(*  - must-err presentations fail; must-ok ones succeed when the sink      *)
(*    accepts the bytes;                                                   *)
(*  - the outcome is the same as with an empty pool.                       *)
(***************************************************************************)
CallRefinesAbs(G, p, pool, budget, slow) ==
    LET r     == Call(G, p, pool, budget, slow)
        fresh == Call(G, p, EmptyPool, budget, slow)
        d     == Den(G, 1, p, slow)
    IN  /\ r.ok = fresh.ok /\ r.w.out = fresh.w.out
        /\ ((r.ok /\ ~d.any) => \E v \in d.vs : IsEncodingOf(G, r.w.out, v))      \* any legal block layout
        /\ (d.m = "err" => ~r.ok)
        /\ (d.m = "ok" /\ (budget < 0 \/ budget >= Len(Enc(G, 1, CHOOSE v \in d.vs : TRUE))) => r.ok)

=============================================================================

----------------------------- MODULE Trace_Vectored -----------------------------
(***************************************************************************)
(* Trace validation of the real sink-call sequence of a writer session     *)
(* against VectoredWrite (C16).  One event per write_vectored call made by *)
(* the writer: [offered (total bytes offered), k (bytes accepted, -1 =      *)
(* Interrupted, -2 = hard error)].                                         *)
(* `rem` = bytes of the current block not yet accepted (0: no flush in      *)
(* progress).  The loop must offer exactly the bytes not yet accepted:      *)
(* nothing lost, duplicated or skipped; an interruption is retried with    *)
(* the same bytes; after Ok(0) or a hard error the flush is abandoned (the  *)
(* failing call returns the error - checked by the driver).                *)
(***************************************************************************)
EXTENDS Naturals, Integers, Sequences, Json, IOUtils, TLC

Rec == ndJsonDeserialize(IOEnv.VERIF_TRACE)

VARIABLES l, rem

Init == l = 1 /\ rem = 0
Next ==
    /\ l <= Len(Rec)
    /\ LET e == Rec[l] IN
       \/ /\ e.ev = "reset" /\ rem' = 0
       \/ /\ e.ev = "vw"
          /\ e.offered > 0                         \* write_vectored is never called with nothing to write
          /\ (rem > 0 => e.offered = rem)          \* exactly the not-yet-accepted bytes are offered again
          /\ e.k <= e.offered
          /\ rem' = IF e.k > 0 THEN e.offered - e.k
                    ELSE IF e.k = -1 THEN e.offered       \* Interrupted: retried
                    ELSE 0                                \* Ok(0) / hard error: abandoned
    /\ l' = l + 1

Accepted ==
    \/ TLCGet("stats").diameter - 1 = Len(Rec)
    \/ (PrintT(<<"REJECT", TLCGet("stats").diameter>>) /\ FALSE)
=============================================================================

CONSTANTS
    MutDropNoClear = FALSE
    MutFlushNoClear = TRUE
INIT PInit
NEXT PNext
INVARIANT PoolAlwaysClean
INVARIANT ReuseEqFresh
CHECK_DEADLOCK FALSE

SPECIFICATION Spec
CONSTANTS
  NS = 2
  NR = 2
  Graphs = {1, 2}
  MaxBad = 3
  MaxLen = 9
  MutArcFirst = FALSE
  MutLeakPartial = FALSE
VIEW view
INVARIANT NoDangling
INVARIANT FrozenWhole
INVARIANT Accounting
INVARIANT TypeOk
CHECK_DEADLOCK FALSE

INIT Init
NEXT Next
CONSTANT Deep = TRUE
CONSTANT RootRegistered = TRUE
INVARIANT DesignOk
INVARIANT Emit
CHECK_DEADLOCK FALSE

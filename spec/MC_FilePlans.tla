---------------------------- MODULE MC_FilePlans ----------------------------
(***************************************************************************)
(* Reference container files written by the SPECIFICATION (C06, reader     *)
(* side): every plan of                                                    *)
(*   - 0..3 values of schema "long" partitioned into blocks in every way   *)
(*     (compositions), optionally with an empty file (no block at all);    *)
(*   - metadata: avro.schema, avro.codec ABSENT (absent means "null") or    *)
(*     one of the six codec names, 0..2 extra user keys, in every order;   *)
(*   - the metadata map written under every block-layout policy (several   *)
(*     blocks, negative counts with byte sizes).                           *)
(* TLC checks ParseFile(BuildFile(plan)) = plan and prints the file bytes  *)
(* with what a conforming reader must return.                              *)
(***************************************************************************)
EXTENDS ContainerFile, Json, IOUtils, SequencesExt, TLC

NShards == atoi(IOEnv.VERIF_NSHARDS)
Shard   == atoi(IOEnv.VERIF_SHARD)

VARIABLE c

SchemaText == <<34, 108, 111, 110, 103, 34>>          \* "long"
Sync == [i \in 1..16 |-> (i * 13 + 5) % 256]
K1 == <<117, 115, 101, 114, 46, 107>>                 \* user.k
K2 == <<122>>                                          \* z
V1 == <<1, 2, 255>>
V2 == <<>>
ValuePool == << IntToI64(0), IntToI64(-1), IntToI64(300), <<65535, 65535, 65535, 32767>> >>

\* all ways of cutting n values into consecutive blocks
RECURSIVE Comps(_)
Comps(n) == IF n = 0 THEN { <<>> } ELSE UNION {{ <<k>> \o r : r \in Comps(n - k)} : k \in 1..n}

Perms(S) == {p \in [1..Cardinality(S) -> S] : \A i, j \in 1..Cardinality(S) : p[i] = p[j] => i = j}

RECURSIVE BlocksOf(_, _, _)
BlocksOf(vals, comp, from) ==
    IF Len(comp) = 0 THEN <<>>
    ELSE << [count |-> comp[1], payload |-> ConcatAll([i \in 1..comp[1] |-> EncLong(vals[from + i - 1])])] >>
         \o BlocksOf(vals, Tail(comp), from + comp[1])

CodecNames == << CodecNull, <<100, 101, 102, 108, 97, 116, 101>>, <<115, 110, 97, 112, 112, 121>>, <<98, 122, 105, 112, 50>>,
                 <<120, 122>>, <<122, 115, 116, 97, 110, 100, 97, 114, 100>> >>      \* null deflate snappy bzip2 xz zstandard

\* codecIdx: 0 = no avro.codec entry, i = CodecNames[i]
MetaEntries(codecIdx, nExtra) ==
    { <<KeySchema, SchemaText>> } \cup (IF codecIdx > 0 THEN { <<KeyCodec, CodecNames[codecIdx]>> } ELSE {})
    \cup (IF nExtra >= 1 THEN { <<K1, V1>> } ELSE {}) \cup (IF nExtra >= 2 THEN { <<K2, V2>> } ELSE {})

Init == c = [n |-> -1]
Next == /\ c.n = -1
        /\ \E n \in 0..3, codecIdx \in 0..6, nExtra \in 0..2, pol \in Policies :
             \* compressed codecs: the payloads are framed by the harness (codec libraries); fewer layout variations
             /\ (codecIdx > 1 => (pol \in {1, 4} /\ nExtra <= 1))
             /\ (n + 4 * codecIdx + pol + 3 * nExtra) % NShards = Shard
             /\ \E comp \in Comps(n) :
                LET ents == MetaEntries(codecIdx, nExtra) IN
                \E order \in Perms(ents) :
                   LET vals == [i \in 1..n |-> ValuePool[i]]
                       plan == [meta |-> order, metaLayout |-> [p |-> pol, lvl |-> 0], sync |-> Sync, blocks |-> BlocksOf(vals, comp, 1)]
                       file == BuildFile(plan)
                       pf   == ParseFile(file)
                   IN  c' = [n |-> n, file |-> file, values |-> [i \in 1..n |-> [t |-> "long", v |-> vals[i]]],
                             user |-> [i \in 1..nExtra |-> IF i = 1 THEN <<K1, V1>> ELSE <<K2, V2>>],
                             codecIdx |-> codecIdx,
                             header |-> SubSeq(file, 1, pf.h.pos - 1),
                             blocks |-> [i \in 1..Len(plan.blocks) |-> [count |-> plan.blocks[i].count, raw |-> plan.blocks[i].payload]],
                             roundtrip |-> /\ pf.st = "ok" /\ pf.h.schema = SchemaText /\ pf.h.sync = Sync
                                           /\ pf.h.codec = (IF codecIdx = 0 THEN CodecNull ELSE CodecNames[codecIdx])
                                           /\ Len(pf.blocks) = Len(plan.blocks)
                                           /\ \A i \in 1..Len(pf.blocks) : pf.blocks[i].count = plan.blocks[i].count /\ pf.blocks[i].payload = plan.blocks[i].payload
                                           /\ \A e \in ents : MetaLookup(pf.h.meta, e[1], 1) = e[2]]

ParseBuildRoundTrip == c.n = -1 \/ c.roundtrip
Emit == c.n = -1 \/ PrintT(<<"SCN", ToJson(c)>>)
=============================================================================

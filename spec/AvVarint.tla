------------------------------ MODULE AvVarint ------------------------------
(***************************************************************************)
(* Zig-zag and base-128 variable-length integers of the Avro binary        *)
(* encoding, on 4x16-bit limb words (AvBytes).                             *)
(*                                                                         *)
(* Encoding is the canonical (shortest) form.  Decoding is specified       *)
(* twice:                                                                  *)
(*   * DecVarRaw    - what a 64-bit base-128 decoder that stops at the     *)
(*                    first byte < 128, or at the 10th byte, computes (the *)
(*                    semantics the implementation's varint library has);  *)
(*   * the result carries `min`, whether the bytes are the canonical form, *)
(*     so that users of this module can treat over-long forms as outside   *)
(*     the specification ("free").                                         *)
(***************************************************************************)
EXTENDS AvBytes

\* 7-bit group i (0..9) of a U64; group 9 is the single bit 63
Grp(u, i) ==
    LET o     == 7 * i
        j     == (o \div 16) + 1
        s     == o % 16
        avail == 16 - s
        low   == u[j] \div Pow2(s)
    IN  IF avail >= 7 THEN low % 128
        ELSE IF j = 4 THEN low
        ELSE low + (u[j + 1] % Pow2(7 - avail)) * Pow2(avail)

\* number of groups of the canonical encoding (1 for zero)
NGroups(u) ==
    LET nz == {i \in 0..9 : Grp(u, i) # 0}
    IN  IF nz = {} THEN 1 ELSE (CHOOSE i \in nz : \A j \in nz : j <= i) + 1

EncUVar(u) ==
    LET n == NGroups(u)
    IN  [i \in 1..n |-> IF i < n THEN Grp(u, i - 1) + 128 ELSE Grp(u, i - 1)]

ZigZag(x)   == IF IsNeg64(x) THEN Not64(Shl1(x)) ELSE Shl1(x)
UnZigZag(u) == IF u[1] % 2 = 1 THEN Not64(Shr1(u)) ELSE Shr1(u)

EncLong(x) == EncUVar(ZigZag(x))         \* x: I64 limbs
EncNat(n)  == EncLong(NatToU64(n))       \* small non-negative number as an Avro long
EncInt(n)  == EncLong(IntToI64(n))       \* small integer as an Avro long

\* contribution of 7-bit group value gv at bit offset o to limb j (1..4)
Contrib(gv, o, j) ==
    LET base == 16 * (j - 1)
    IN  IF o + 6 < base \/ o > base + 15 THEN 0
        ELSE IF o >= base THEN (gv * Pow2(o - base)) % 65536
        ELSE gv \div Pow2(base - o)

RECURSIVE SumContrib(_, _, _)
SumContrib(g, j, i) ==   \* groups i..Len(g)
    IF i > Len(g) THEN 0 ELSE Contrib(g[i], 7 * (i - 1), j) + SumContrib(g, j, i + 1)

FromGroups(g) == << SumContrib(g, 1, 1), SumContrib(g, 2, 1),
                    SumContrib(g, 3, 1), SumContrib(g, 4, 1) >>

(***************************************************************************)
(* DecVarRaw(b, pos): decode starting at 1-based index pos.                *)
(*   st = "ok"   : u = value, n = bytes consumed, min = canonical form     *)
(*   st = "eof"  : input ended before a terminating byte (fewer than 10    *)
(*                 bytes, all with the high bit set)                       *)
(*   st = "over" : the 10th byte is >= 2: more than 64 bits                *)
(***************************************************************************)
RECURSIVE VarLen(_, _, _)
\* number of bytes of the varint starting at pos: first k (1..10) with b < 128, 0 if none within range
VarLen(b, pos, k) ==
    IF pos + k - 1 > Len(b) THEN 0
    ELSE IF k = 10 THEN 10
    ELSE IF b[pos + k - 1] < 128 THEN k
    ELSE VarLen(b, pos, k + 1)

DecVarRaw(b, pos) ==
    LET n == VarLen(b, pos, 1)
    IN  IF n = 0 THEN [st |-> "eof", u |-> U64Zero, n |-> 0, min |-> FALSE]
        ELSE IF n = 10 /\ b[pos + 9] >= 2
             THEN [st |-> "over", u |-> U64Zero, n |-> 10, min |-> FALSE]
        ELSE LET g == [i \in 1..n |-> b[pos + i - 1] % 128]
                 u == FromGroups(g)
             IN  [st |-> "ok", u |-> u, n |-> n, min |-> (n = NGroups(u))]

\* decode an Avro long (zig-zag) at pos
DecLongRaw(b, pos) ==
    LET r == DecVarRaw(b, pos)
    IN  [st |-> r.st, x |-> UnZigZag(r.u), n |-> r.n, min |-> r.min]

=============================================================================

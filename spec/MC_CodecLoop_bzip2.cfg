CONSTANTS
    Codec = "bzip2"
    Arms <- ArmsBzip2
    MaxIn = 3
    MaxOut = 9
    Caps = {1, 2, 3}
SPECIFICATION Spec
INVARIANT WholeStream
INVARIANT NeverFails
INVARIANT InBounds
CHECK_DEADLOCK FALSE

SPECIFICATION TraceSpec
CONSTANTS
  MutNoRetry = FALSE
  MutOkOnFault = FALSE
INVARIANT IndInv
POSTCONDITION Accepted
CHECK_DEADLOCK FALSE

---------------------------- MODULE MC_CodecLoop ----------------------------
EXTENDS CodecLoop
ArmsDeflate      == [Ok |-> "grow", BufError |-> "err", StreamEnd |-> "done"]
ArmsBzip2        == [FinishOk |-> "grow", StreamEnd |-> "done"]
ArmsXz           == [Ok |-> "grow", MemNeeded |-> "grow", StreamEnd |-> "done"]
\* the arms as found in the implementation before the repairs recorded in known_findings.json
ArmsBzip2AsFound == [FinishOk |-> "done", StreamEnd |-> "done"]
ArmsXzAsFound    == [Ok |-> "err", MemNeeded |-> "grow", StreamEnd |-> "done"]
=============================================================================

SPECIFICATION Spec
CONSTANTS
  MaxBlocks = 3
  MaxItems = 2
  MaxCalls = 10
  MutNoLatch = FALSE
INVARIANT PrefixOnly
INVARIANT MustReport
INVARIANT Sticky
INVARIANT OnceBroken
INVARIANT StateSane
CHECK_DEADLOCK FALSE

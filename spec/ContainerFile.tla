---------------------------- MODULE ContainerFile ----------------------------
(***************************************************************************)
(* The Avro object container file layout (C06), as a parser over bytes:    *)
(*   magic 'O' 'b' 'j' 1                                                   *)
(*   file metadata: an Avro map<bytes> (any legal block layout, any key    *)
(*     order) with avro.schema, optionally avro.codec (absent = "null"),   *)
(*     and any other keys                                                  *)
(*   16-byte sync marker                                                   *)
(*   blocks: long count, long size, `size` bytes of codec-framed data,     *)
(*     the same 16-byte sync marker                                        *)
(* Codec framing is uninterpreted here except for "null" (identity) and    *)
(* the snappy trailer (4-byte big-endian CRC-32 of the uncompressed data). *)
(***************************************************************************)
EXTENDS AvroBinary

Magic == <<79, 98, 106, 1>>
MetaSchema == << [k |-> "map", lt |-> "none", values |-> 2], [k |-> "bytes", lt |-> "none"] >>
KeySchema == <<97, 118, 114, 111, 46, 115, 99, 104, 101, 109, 97>>        \* "avro.schema"
KeyCodec  == <<97, 118, 114, 111, 46, 99, 111, 100, 101, 99>>             \* "avro.codec"
CodecNull == <<110, 117, 108, 108>>

RECURSIVE MetaLookup(_, _, _)
\* value bytes for key, or <<-1>> when absent (kv: << <<key, [t |-> "bytes", v]>> >>)
MetaLookup(kv, key, i) ==
    IF i > Len(kv) THEN <<-1>> ELSE IF kv[i][1] = key THEN kv[i][2].v ELSE MetaLookup(kv, key, i + 1)

\* [st \in {"ok","err"}, meta, schema (text bytes), codec (name bytes), sync, pos (first byte after the header)]
HErr == [st |-> "err", meta |-> <<>>, schema |-> <<>>, codec |-> <<>>, sync |-> <<>>, pos |-> 0]
ParseHeader(b) ==
    IF Len(b) < 4 \/ SubSeq(b, 1, 4) # Magic THEN HErr
    ELSE LET m == Dec(MetaSchema, 1, b, 5, 64, 1000) IN
         IF m.st # "ok" THEN HErr
         ELSE IF ~Avail(b, m.pos, 16) THEN HErr
         ELSE LET sch == MetaLookup(m.v.kv, KeySchema, 1)
                  cod == MetaLookup(m.v.kv, KeyCodec, 1)
              IN  IF sch = <<-1>> THEN HErr
                  ELSE [st |-> "ok", meta |-> m.v.kv, schema |-> sch,
                        codec |-> IF cod = <<-1>> THEN CodecNull ELSE cod,
                        sync |-> Slice(b, m.pos, 16), pos |-> m.pos + 16]

\* blocks from position pos on: [st, blocks (<< [count, size, payload] >>)]
RECURSIVE ParseBlocks(_, _, _)
ParseBlocks(b, pos, sync) ==
    IF pos > Len(b) THEN [st |-> "ok", blocks |-> <<>>]
    ELSE LET c == DecLongRaw(b, pos) IN
         IF c.st # "ok" \/ ~c.min \/ IsNeg64(c.x) \/ ~U64FitsNat31(c.x) THEN [st |-> "err", blocks |-> <<>>]
         ELSE LET s == ReadLen(b, pos + c.n) IN
              IF s.st # "ok" THEN [st |-> "err", blocks |-> <<>>]
              ELSE IF ~Avail(b, s.pos + s.n, 16) \/ Slice(b, s.pos + s.n, 16) # sync THEN [st |-> "err", blocks |-> <<>>]
              ELSE LET rest == ParseBlocks(b, s.pos + s.n + 16, sync) IN
                   IF rest.st # "ok" THEN rest
                   ELSE [st |-> "ok",
                         blocks |-> << [count |-> U64ToNat(c.x), size |-> s.n, payload |-> Slice(b, s.pos, s.n)] >> \o rest.blocks]

ParseFile(b) ==
    LET h == ParseHeader(b) IN
    IF h.st # "ok" THEN [st |-> "err", h |-> h, blocks |-> <<>>]
    ELSE LET bl == ParseBlocks(b, h.pos, h.sync) IN [st |-> bl.st, h |-> h, blocks |-> bl.blocks]

\* `count` items of schema G filling `raw` exactly: [ok, items (their encodings), values]
RECURSIVE ItemsFrom(_, _, _, _)
ItemsFrom(G, raw, pos, count) ==
    IF count = 0 THEN [ok |-> pos = Len(raw) + 1, items |-> <<>>, values |-> <<>>]
    ELSE LET r == Dec(G, 1, raw, pos, DefaultDepth, DefaultMaxSeq) IN
         IF r.st # "ok" THEN [ok |-> FALSE, items |-> <<>>, values |-> <<>>]
         ELSE LET rest == ItemsFrom(G, raw, r.pos, count - 1) IN
              [ok |-> rest.ok, items |-> <<SubSeq(raw, pos, r.pos - 1)>> \o rest.items, values |-> <<r.v>> \o rest.values]

(***************************************************************************)
(* Building a file from a plan (reference writer, "null" codec):           *)
(* plan == [meta |-> << <<key, value bytes>> >> (must contain avro.schema),*)
(*          metaLayout |-> layout of the metadata map,                     *)
(*          sync, blocks |-> << [count, payload] >>]                       *)
(***************************************************************************)
EncMeta(meta, L) ==
    EncWith(MetaSchema, 1, [t |-> "map", kv |-> [i \in 1..Len(meta) |-> <<meta[i][1], [t |-> "bytes", v |-> meta[i][2]]>>]], L)

RECURSIVE EncBlocksOf(_, _, _)
EncBlocksOf(blocks, i, sync) ==
    IF i > Len(blocks) THEN <<>>
    ELSE EncNat(blocks[i].count) \o EncNat(Len(blocks[i].payload)) \o blocks[i].payload \o sync
         \o EncBlocksOf(blocks, i + 1, sync)

BuildFile(plan) == Magic \o EncMeta(plan.meta, plan.metaLayout) \o plan.sync \o EncBlocksOf(plan.blocks, 1, plan.sync)

=============================================================================

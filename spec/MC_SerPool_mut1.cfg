CONSTANTS
    MutDropNoClear = TRUE
    MutFlushNoClear = FALSE
INIT PInit
NEXT PNext
INVARIANT PoolAlwaysClean
INVARIANT ReuseEqFresh
CHECK_DEADLOCK FALSE

----------------------------- MODULE SingleObject -----------------------------
(***************************************************************************)
(* Single-object encoding as the code performs it (C18), one action per    *)
(* call the library makes on the caller's sink / source:                   *)
(*                                                                         *)
(*  writer  (single_object_encoding.rs: to_single_object)                  *)
(*     write_all(marker, 2 bytes); write_all(fingerprint, 8 bytes); then   *)
(*     the datum serializer's own write_all calls (Parts: their lengths).  *)
(*     Every sink call may accept 1..offered bytes, be Interrupted (the    *)
(*     call is made again with the same bytes), return Ok(0) or fail: the  *)
(*     last two end the session with an error.                             *)
(*  reader  (from_single_object_reader)                                    *)
(*     read_exact(10 bytes) over a source that hands out 1..k bytes per    *)
(*     call, is Interrupted, or is at its end; then the marker and the     *)
(*     fingerprint are compared, and only then the datum decoder starts,   *)
(*     at position 11.                                                     *)
(*                                                                         *)
(* What the property states, as invariants: the sink holds a prefix of     *)
(* marker ++ fingerprint ++ datum at every moment and all of it when the   *)
(* call returns Ok; a fault of the sink is returned, never swallowed; the  *)
(* reader says Ok only for a message of at least ten bytes whose marker    *)
(* and fingerprint are the expected ones, and hands the datum decoder      *)
(* exactly the bytes from the eleventh on.                                 *)
(*                                                                         *)
(* Every finished writer behaviour is printed (SCN) and replayed into the  *)
(* real to_single_object over a sink following that schedule.              *)
(***************************************************************************)
EXTENDS Naturals, Sequences, FiniteSets, TLC, Json

CONSTANTS PartsId,     \* which sequence of datum write_all lengths (see Parts)
          MaxCalls,    \* sink / source calls explored
          SrcLens,     \* lengths of the messages offered to the reader
          Mutant,      \* 0 = as the code is; 1 = an interrupted call restarts its part; 2 = a failing fingerprint write is swallowed;
                       \* 3 = the reader compares the fingerprint only when the marker is wrong
          Side,        \* "w": the writer's calls are explored, "r": the reader's (the two share nothing)
          Emit

\* lengths of the datum serializer's write_all calls: a long of three bytes (one call: this is the layout the replays use); a zero-byte
\* datum (null); three small fields
Parts == CASE PartsId = 1 -> <<3>> [] PartsId = 2 -> <<>> [] OTHER -> <<2, 1, 1>>
AllParts == <<2, 8>> \o Parts
Total == LET S[i \in 0..Len(AllParts)] == IF i = 0 THEN 0 ELSE S[i - 1] + AllParts[i] IN S[Len(AllParts)]
Base(p) == LET S[i \in 0..Len(AllParts)] == IF i = 0 THEN 0 ELSE S[i - 1] + AllParts[i] IN S[p - 1]

VARIABLES
    \* writer
    part, off, sink, wst, sched, fault,
    \* reader
    srcLen, markerOk, fpOk, got, rpos, rst, rcalls, datumFrom, rsched

wvars == <<part, off, sink, wst, sched, fault>>
rvars == <<srcLen, markerOk, fpOk, got, rpos, rst, rcalls, datumFrom, rsched>>
vars == <<wvars, rvars>>

Init ==
    /\ part = 1 /\ off = 0 /\ sink = <<>> /\ wst = "run" /\ sched = <<>> /\ fault = FALSE
    /\ IF Side = "r" THEN srcLen \in SrcLens /\ markerOk \in BOOLEAN /\ fpOk \in BOOLEAN
                    ELSE srcLen = 0 /\ markerOk = TRUE /\ fpOk = TRUE
    /\ rsched = <<>>
    /\ got = 0 /\ rpos = 0 /\ rst = "header" /\ rcalls = 0 /\ datumFrom = 0

Room == wst = "run" /\ Len(sched) < MaxCalls

Accept(k) ==
    /\ Room /\ k \in 1..(AllParts[part] - off)
    /\ sink' = sink \o [i \in 1..k |-> Base(part) + off + i]
    /\ sched' = Append(sched, k)
    /\ IF off + k = AllParts[part]
         THEN /\ part' = part + 1 /\ off' = 0
              /\ wst' = IF part + 1 > Len(AllParts) THEN "ok" ELSE "run"
         ELSE /\ part' = part /\ off' = off + k /\ wst' = wst
    /\ UNCHANGED fault

Interrupted ==
    /\ Room
    /\ sched' = Append(sched, 100)
    /\ off' = IF Mutant = 1 THEN 0 ELSE off
    /\ UNCHANGED <<part, sink, wst, fault>>

Fail(kind) ==
    /\ Room
    /\ sched' = Append(sched, kind)
    /\ fault' = TRUE
    /\ IF Mutant = 2 /\ part = 2
         THEN /\ part' = 3 /\ off' = 0 /\ wst' = IF 3 > Len(AllParts) THEN "ok" ELSE "run"
         ELSE /\ wst' = "err" /\ UNCHANGED <<part, off>>
    /\ UNCHANGED sink

\* schedule codes: k > 0 = accept k bytes, 0 = Ok(0), 100 = Interrupted, 101 = a hard error
WNext == (\E k \in 1..8 : Accept(k)) \/ Interrupted \/ Fail(0) \/ Fail(101)

\* ---- reader: read_exact(10), the two comparisons, then the datum decoder
ReadSome(k) ==
    /\ rst = "header" /\ rcalls < MaxCalls
    /\ k \in 1..(10 - got) /\ rpos + k <= srcLen
    /\ got' = got + k /\ rpos' = rpos + k /\ rcalls' = rcalls + 1
    /\ rst' = IF got + k = 10 THEN "check" ELSE "header"
    /\ rsched' = Append(rsched, k)
    /\ UNCHANGED <<srcLen, markerOk, fpOk, datumFrom>>

ReadInterrupted ==
    /\ rst = "header" /\ rcalls < MaxCalls
    /\ rcalls' = rcalls + 1
    /\ rsched' = Append(rsched, 100)
    /\ UNCHANGED <<srcLen, markerOk, fpOk, got, rpos, rst, datumFrom>>

ReadEof ==
    /\ rst = "header" /\ rpos = srcLen
    /\ rst' = "err"
    /\ UNCHANGED <<srcLen, markerOk, fpOk, got, rpos, rcalls, datumFrom, rsched>>

Check ==
    /\ rst = "check"
    /\ LET good == IF Mutant = 3 THEN markerOk \/ fpOk ELSE markerOk /\ fpOk IN
       IF good THEN rst' = "datum" /\ datumFrom' = rpos + 1
               ELSE rst' = "err" /\ UNCHANGED datumFrom
    /\ UNCHANGED <<srcLen, markerOk, fpOk, got, rpos, rcalls, rsched>>

RNext == (\E k \in 1..10 : ReadSome(k)) \/ ReadInterrupted \/ ReadEof \/ Check

Next == IF Side = "w" THEN WNext /\ UNCHANGED rvars ELSE RNext /\ UNCHANGED wvars
Spec == Init /\ [][Next]_vars

\* ---- the property
SinkIsPrefix == sink = [i \in 1..Len(sink) |-> i]
OkMeansWhole == wst = "ok" => Len(sink) = Total
FaultSurfaces == (wst = "ok" => ~fault) /\ (wst = "err" => fault)
ReaderSound == rst = "datum" => (srcLen >= 10 /\ markerOk /\ fpOk /\ datumFrom = 11)
ReaderShort == (srcLen < 10) => rst \in {"header", "err"}
TypeOK == /\ part \in 1..(Len(AllParts) + 1) /\ off \in 0..8 /\ wst \in {"run", "ok", "err"}
          /\ rst \in {"header", "check", "datum", "err"} /\ got \in 0..10

\* ---- emission of finished behaviours (one line each): the writer's sink schedule, the reader's source schedule
Emitted ==
    /\ (Emit /\ Side = "w" /\ (wst # "run" \/ Len(sched) = MaxCalls))
            => PrintT(<<"SCN", ToJson([side |-> "w", sched |-> sched, res |-> wst, accepted |-> Len(sink)])>>)
    /\ (Emit /\ Side = "r" /\ rst \in {"datum", "err"})
            => PrintT(<<"SCN", ToJson([side |-> "r", sched |-> rsched, res |-> rst, srcLen |-> srcLen, markerOk |-> markerOk, fpOk |-> fpOk])>>)
=============================================================================

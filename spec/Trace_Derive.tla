---------------------------- MODULE Trace_Derive ----------------------------
(***************************************************************************)
(* Trace validation of #[derive(BuildSchema)] observations (C20).          *)
(* One event per generated Rust type family:                               *)
(*   defs, root   the shape (monomorphic definitions, Derive.tla)          *)
(*   build        "ok" | "panic"        nodes / nodes2: two calls of       *)
(*                schema_mut()                                             *)
(*   freeze       "ok" | "err" | "panic"   (T::schema())                   *)
(*   json_parse   "ok" | ...  json_nodes: the graph obtained by parsing    *)
(*                the schema's own JSON text                               *)
(* Allowed iff building succeeds and is deterministic, the graph is a      *)
(* valid Avro schema with one definition per fullname, it fits the type    *)
(* (Fits), and its JSON text denotes the same schema.                      *)
(* The values of the type are validated by Trace_Codec ("ser" events over  *)
(* the derived node vector).                                               *)
(***************************************************************************)
EXTENDS Derive, Json, IOUtils, TLC

Rec == ndJsonDeserialize(IOEnv.VERIF_TRACE)

VARIABLE l

DeriveOk(e) ==
    /\ e.build = "ok"
    /\ e.nodes = e.nodes2
    /\ e.freeze = "ok"
    /\ ValidDerived(e.nodes)
    /\ Fits(e.defs, e.root, e.nodes)
    /\ e.json_parse = "ok"
    /\ GraphDesc(e.json_nodes) = GraphDesc(e.nodes)

Init == l = 1
Next == /\ l <= Len(Rec)
        /\ Rec[l].ev = "derive" /\ DeriveOk(Rec[l])
        /\ l' = l + 1
Spec == Init /\ [][Next]_l

Accepted ==
    \/ TLCGet("stats").diameter - 1 = Len(Rec)
    \/ (PrintT(<<"REJECT", TLCGet("stats").diameter>>) /\ FALSE)
=============================================================================

------------------------------ MODULE Trace_Skip ------------------------------
(***************************************************************************)
(* Trace validation of "decode while ignoring a sub-tree" events (C12).    *)
(* Event: [ev |-> "skip", si, bytes, path, res, value, consumed].          *)
(* Allowed iff, with r == Dec(bytes):                                      *)
(*   r ok   : res = "ok", value = r.v with the sub-tree at `path` replaced  *)
(*            by the marker [t |-> "ignored"], consumed = Dec's end - i.e.  *)
(*            every other part, and whatever follows the datum, is exactly *)
(*            what it is when nothing is ignored;                          *)
(*   r err  : res = "err" - except that an ignored part need not be        *)
(*            validated (invalid UTF-8 inside an ignored string), so "ok"  *)
(*            is tolerated iff decoding with that part's text unchecked... *)
(*            the drivers only record valid encodings, so r err => err;    *)
(*   r free : anything that returns.                                       *)
(***************************************************************************)
EXTENDS AvroBinary, Json, IOUtils, TLC

Rec   == ndJsonDeserialize(IOEnv.VERIF_TRACE)
Scope == ndJsonDeserialize(IOEnv.VERIF_SCOPE)

VARIABLE l

Ignored == [t |-> "ignored"]

RECURSIVE Blank(_, _, _, _)
Blank(G, k, v, path) ==
    IF Len(path) = 0 THEN Ignored
    ELSE LET n == G[k]  s == path[1]  rest == Tail(path) IN
         CASE v.t = "rec" -> [t |-> "rec", es |-> [i \in 1..Len(v.es) |->
                                 IF i - 1 = s THEN Blank(G, n.fields[i].t, v.es[i], rest) ELSE v.es[i]]]
           [] v.t = "arr" -> [t |-> "arr", es |-> [i \in 1..Len(v.es) |-> Blank(G, n.items, v.es[i], rest)]]
           [] v.t = "map" -> [t |-> "map", kv |-> [i \in 1..Len(v.kv) |-> <<v.kv[i][1], Blank(G, n.values, v.kv[i][2], rest)>>]]
           [] v.t = "un"  -> IF v.b = s THEN [t |-> "un", b |-> v.b, x |-> Blank(G, n.variants[v.b + 1], v.x, rest)] ELSE v
           [] OTHER -> v

\* optional limits of the event (C04): allowed depth and maximum sequence size; the defaults otherwise
DepthOf(e) == IF "depth" \in DOMAIN e THEN e.depth ELSE DefaultDepth
MaxSeqOf(e) == IF "maxseq" \in DOMAIN e THEN e.maxseq ELSE DefaultMaxSeq

SkipAllowed(e) ==
    LET G == Scope[e.si].nodes
        r == Dec(G, 1, e.bytes, 1, DepthOf(e), MaxSeqOf(e))
        unlimited == Dec(G, 1, e.bytes, 1, 100000, DefaultMaxSeq)
        depthOnly == Dec(G, 1, e.bytes, 1, DepthOf(e), DefaultMaxSeq)
    IN  \* a VALID encoding that the depth limit refuses must be refused by an ignoring target as well (C04: nesting deeper than the
        \* limit is rejected - the skip paths recurse too).  The sequence maximum is different: a skipped collection written in
        \* byte-sized blocks is jumped over without counting its elements, which costs nothing and is what C12 expects; so when only
        \* max_seq refuses the encoding, the ignoring target may or may not.
        IF depthOnly.st = "err" /\ unlimited.st = "ok" THEN e.res = "err"
        ELSE IF r.st = "err" /\ unlimited.st = "ok" THEN e.res \in {"ok", "err"} ELSE
        CASE r.st = "ok"   -> e.res = "ok" /\ e.value = Blank(G, 1, r.v, e.path) /\ e.consumed = r.pos - 1
          \* C12 speaks of VALID encodings only.  On a malformed one the ignoring target may or may not notice (the skip paths
          \* validate neither UTF-8 nor enum indices, and that is what the property expects of them); it must return (C04)
          [] r.st = "err"  -> e.res \in {"ok", "err"}
          [] r.st = "free" -> e.res \in {"ok", "err"}

Init == l = 1
Next == /\ l <= Len(Rec)
        /\ Rec[l].ev = "skip" /\ SkipAllowed(Rec[l])
        /\ l' = l + 1

Accepted ==
    \/ TLCGet("stats").diameter - 1 = Len(Rec)
    \/ (PrintT(<<"REJECT", TLCGet("stats").diameter>>) /\ FALSE)

=============================================================================

------------------------------ MODULE AvroSkip ------------------------------
(***************************************************************************)
(* Skipping a value (C12).  The property is stated on AvroBinary alone:    *)
(* ignoring a part of the data must advance the input by exactly the       *)
(* encoded length of that part, i.e. to Dec's end position.                *)
(*                                                                         *)
(* This module is implementation-shaped: it transcribes how the            *)
(* deserializer skips - dedicated paths that do not validate UTF-8, read   *)
(* ints as unsigned varints, and JUMP over array/map blocks written with   *)
(* a negative count by their advertised byte size - so that TLC can check  *)
(* the design:  for every legal layout b of every value,                   *)
(*     SkipI(G, 1, b, 1) ends exactly where Dec ends.                      *)
(*                                                                         *)
(* hinted = TRUE : the target asked to ignore the value                    *)
(*                 (deserialize_ignored_any);                              *)
(* hinted = FALSE: the value is visited generically by an ignoring visitor *)
(*                 (a union branch reached through deserialize_any).       *)
(* Result [st \in {"ok","err"}, pos].                                      *)
(***************************************************************************)
EXTENDS AvroBinary

SOk(p) == [st |-> "ok", pos |-> p]
SErr   == [st |-> "err", pos |-> 0]

\* a length-prefixed field whose content is not looked at
SkipLenDelimited(b, pos) ==
    LET r == DecLongRaw(b, pos) IN
    IF r.st # "ok" THEN SErr
    ELSE IF IsNeg64(r.x) \/ ~U64FitsNat31(r.x) \/ U64ToNat(r.x) > Len(b) - (pos + r.n - 1) THEN SErr
    ELSE SOk(pos + r.n + U64ToNat(r.x))

SkipVarint(b, pos, max32) ==
    LET r == DecVarRaw(b, pos) IN
    IF r.st # "ok" THEN SErr
    ELSE IF max32 /\ ~(r.u[3] = 0 /\ r.u[4] = 0) THEN SErr
    ELSE SOk(pos + r.n)

SkipFixedLen(b, pos, n) == IF Avail(b, pos, n) THEN SOk(pos + n) ELSE SErr

RECURSIVE Skip(_, _, _, _, _, _, _)
RECURSIVE SkipEntries(_, _, _, _, _, _, _, _)
RECURSIVE SkipBlocks(_, _, _, _, _, _, _, _, _)
RECURSIVE SkipFields(_, _, _, _, _, _, _)

\* elements of a block are always handed an ignoring seed: they are skipped with hinted = TRUE
SkipEntries(G, ik, isMap, b, pos, cnt, d, ms) ==
    IF cnt = 0 THEN SOk(pos)
    ELSE LET k1 == IF isMap THEN SkipLenDelimited(b, pos) ELSE SOk(pos) IN
         IF k1.st # "ok" THEN SErr
         ELSE LET r == Skip(G, ik, b, k1.pos, TRUE, d, ms) IN
              IF r.st # "ok" THEN SErr ELSE SkipEntries(G, ik, isMap, b, r.pos, cnt - 1, d, ms)

SkipBlocks(G, ik, isMap, b, pos, nread, jump, d, ms) ==
    LET c == DecLongRaw(b, pos) IN
    IF c.st # "ok" THEN SErr
    ELSE IF c.x = U64Zero THEN SOk(pos + c.n)
    ELSE IF IsNeg64(c.x) /\ jump THEN
         \* block written with its byte size and the value is being ignored: jump over the block
         LET sz == DecLongRaw(b, pos + c.n) IN
         IF sz.st # "ok" \/ IsNeg64(sz.x) THEN SErr
         ELSE IF ~U64FitsNat31(sz.x) \/ U64ToNat(sz.x) > Len(b) - (pos + c.n + sz.n - 1) THEN SErr
         ELSE SkipBlocks(G, ik, isMap, b, pos + c.n + sz.n + U64ToNat(sz.x), nread, jump, d, ms)
    ELSE LET neg  == IsNeg64(c.x)
             cntU == IF neg THEN Neg64(c.x) ELSE c.x
             sz   == IF neg THEN DecVarRaw(b, pos + c.n) ELSE [st |-> "ok", n |-> 0]
         IN  IF sz.st # "ok" THEN SErr
             ELSE IF ~U64FitsNat31(cntU) \/ U64ToNat(cntU) > ms - nread THEN SErr
             ELSE LET es == SkipEntries(G, ik, isMap, b, pos + c.n + sz.n, U64ToNat(cntU), d, ms) IN
                  IF es.st # "ok" THEN SErr
                  ELSE SkipBlocks(G, ik, isMap, b, es.pos, nread + U64ToNat(cntU), jump, d, ms)

SkipFields(G, fs, i, b, pos, d, ms) ==
    IF i > Len(fs) THEN SOk(pos)
    ELSE LET r == Skip(G, fs[i].t, b, pos, TRUE, d, ms) IN
         IF r.st # "ok" THEN SErr ELSE SkipFields(G, fs, i + 1, b, r.pos, d, ms)

Skip(G, k, b, pos, hinted, d, ms) ==
    LET n == G[k]  e == Eff(n) IN
    CASE e = "null" -> SOk(pos)
      [] e = "boolean" -> IF Avail(b, pos, 1) /\ b[pos] <= 1 THEN SOk(pos + 1) ELSE SErr
      [] e = "int" /\ hinted -> SkipVarint(b, pos, TRUE)
      [] (e = "long" \/ e = "enum") /\ hinted -> SkipVarint(b, pos, FALSE)
      [] e \in IntLike \cup LongLike \cup {"enum"} ->
            \* read as the typed value: Dec's checks apply
            LET r == Dec(G, k, b, pos, d, ms) IN IF r.st = "ok" THEN SOk(r.pos) ELSE SErr
      [] e = "float" -> SkipFixedLen(b, pos, 4)
      [] e = "double" -> SkipFixedLen(b, pos, 8)
      [] e = "bytes" -> SkipLenDelimited(b, pos)
      [] e = "string" /\ hinted -> SkipLenDelimited(b, pos)
      [] e \in StringLike -> LET r == Dec(G, k, b, pos, d, ms) IN IF r.st = "ok" THEN SOk(r.pos) ELSE SErr
      [] e = "fixed" -> SkipFixedLen(b, pos, n.size)
      [] e = "duration" -> SkipFixedLen(b, pos, 12)
      [] e \in DecimalLike -> LET r == Dec(G, k, b, pos, d, ms) IN IF r.st = "ok" THEN SOk(r.pos) ELSE SErr
      [] e = "array" -> IF d = 0 THEN SErr ELSE SkipBlocks(G, n.items, FALSE, b, pos, 0, hinted, d - 1, ms)
      [] e = "map" -> IF d = 0 THEN SErr ELSE SkipBlocks(G, n.values, TRUE, b, pos, 0, hinted, d - 1, ms)
      [] e = "record" -> IF d = 0 THEN SErr ELSE SkipFields(G, n.fields, 1, b, pos, d - 1, ms)
      [] e = "union" ->
            IF d = 0 THEN SErr
            ELSE LET r == ReadIndex(b, pos, Len(n.variants)) IN
                 IF r.st # "ok" THEN SErr
                 ELSE Skip(G, n.variants[r.n + 1], b, r.pos, FALSE, d - 1, ms)

SkipI(G, b) == Skip(G, 1, b, 1, TRUE, DefaultDepth, DefaultMaxSeq)

=============================================================================

INIT Init
NEXT Next
INVARIANT Emit
INVARIANT TabEqBit
CHECK_DEADLOCK FALSE

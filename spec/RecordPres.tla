----------------------------- MODULE RecordPres -----------------------------
(***************************************************************************)
(* Presentations of records for C13 / C14: a catalogue of field-value      *)
(* presentations per field schema, and the presentation built from a       *)
(* sequence of (possibly unknown / repeated / missing) field positions.    *)
(***************************************************************************)
EXTENDS SerImpl, SequencesExt

T_unknown == <<122, 122>>
PI64(n) == [p |-> "i64", v |-> IntToI64(n)]
PStr(t) == [p |-> "str", v |-> t]
Fail == [p |-> "fail"]

RECURSIVE Cands(_, _)
\* catalogue of presentations for the value of a field of schema node k
Cands(G, k) ==
    LET n == G[k]  e == Eff(n) IN
    CASE e = "long" -> << PI64(7), PI64(-300), PStr(<<120>>), Fail >>
      [] e = "string" -> << PStr(<<104, 105>>), PStr(<<>>), PI64(1) >>
      [] e = "null" -> << [p |-> "unit"], [p |-> "none"], PI64(1) >>
      [] e = "bytes" -> << [p |-> "bytes", v |-> <<1, 2>>],
                           [p |-> "seq", len |-> -1, es |-> <<[p |-> "u8", v |-> IntToI64(7)], [p |-> "u8", v |-> IntToI64(8)]>>],
                           [p |-> "seq", len |-> -1, es |-> <<[p |-> "u8", v |-> IntToI64(7)], Fail>>],
                           [p |-> "seq", len |-> -1, es |-> <<[p |-> "u8", v |-> IntToI64(7)], [p |-> "i32", v |-> IntToI64(300)]>>],
                           [p |-> "seq", len |-> 2, es |-> <<[p |-> "u8", v |-> IntToI64(7)], [p |-> "u8", v |-> IntToI64(9)]>>] >>
      [] e = "union" ->
            \* [null, T] or [T, null]: none, some(T), bare T
            LET other == CHOOSE i \in 1..2 : Eff(G[n.variants[i]]) # "null"
                oc    == Cands(G, n.variants[other])
            IN  << [p |-> "none"], [p |-> "some", x |-> oc[1]], oc[1], [p |-> "unit"], [p |-> "some", x |-> oc[Len(oc)]] >>
      [] e = "record" ->
            LET f1 == n.fields[1].n  f2 == n.fields[2].n
                nmS == ShortName(n.name)
                st(fs) == [p |-> "struct", name |-> nmS, fs |-> fs]
            IN  << st(<< <<f1, PI64(1)>>, <<f2, PStr(<<97>>)>> >>),
                   st(<< <<f2, PStr(<<98>>)>>, <<f1, PI64(2)>> >>),                 \* out of order: buffered
                   st(<< <<f1, PI64(3)>> >>),                                        \* nullable omitted
                   st(<< <<f2, [p |-> "none"]>>, <<f1, PI64(4)>> >>),
                   st(<< <<f2, PStr(<<99>>)>> >>),                                   \* required missing: error
                   st(<< <<f2, PStr(<<100>>)>>, <<f2, PStr(<<101>>)>>, <<f1, PI64(5)>> >>),  \* duplicate while buffered
                   st(<< <<f2, PStr(<<102>>)>>, <<f1, Fail>> >>),                     \* failure after a buffered field
                   [p |-> "map", len |-> 2, mode |-> "entry", kv |-> << <<PStr(f2), PStr(<<103>>)>>, <<PStr(f1), PI64(6)>> >>] >>
      [] e = "array" ->
            LET ic == Cands(G, n.items) IN
            << [p |-> "seq", len |-> 2, es |-> <<ic[2], ic[1]>>], [p |-> "seq", len |-> 0, es |-> <<>>],
               [p |-> "seq", len |-> -1, es |-> <<ic[3], ic[2], ic[4]>>], [p |-> "seq", len |-> 2, es |-> <<ic[2], ic[5]>>] >>
      [] OTHER -> << Fail >>

\* all sequences over 1..m of length <= maxLen
RECURSIVE SeqsUpTo(_, _)
SeqsUpTo(m, maxLen) ==
    IF maxLen = 0 THEN { <<>> }
    ELSE LET shorter == SeqsUpTo(m, maxLen - 1) IN
         shorter \cup { Append(s, x) : s \in {t \in shorter : Len(t) = maxLen - 1}, x \in 1..m }


\* the presentation of record schema G whose fields are presented in `order` (positions 1..nf, nf+1 = an unknown
\* field), field values rotating through Cands by `rot`, as a struct or as a map ("entry" / "kv")
RecPres(G, order, rot, form) ==
    LET root == G[1]
        nf   == Len(root.fields)
        fname(j) == IF j <= nf THEN root.fields[j].n ELSE T_unknown
        fval(pos, j) == IF j <= nf
                        THEN LET cs == Cands(G, root.fields[j].t) IN cs[((IF rot = 0 THEN 0 ELSE rot + pos) % Len(cs)) + 1]      \* rot = 0: the first (valid) candidate everywhere
                        ELSE PI64(9)
        fs   == [pos \in 1..Len(order) |-> << fname(order[pos]), fval(pos, order[pos]) >>]
    IN  IF form = "struct" THEN [p |-> "struct", name |-> ShortName(root.name), fs |-> fs]
        ELSE [p |-> "map", len |-> Len(fs), mode |-> form,
              kv |-> [pos \in 1..Len(fs) |-> << PStr(fs[pos][1]), fs[pos][2] >>]]

=============================================================================

SPECIFICATION Spec
CONSTANTS
  MaxBlocks = 4
  MaxItems = 3
  MaxCalls = 14
  MutNoLatch = FALSE
INVARIANT PrefixOnly
INVARIANT MustReport
INVARIANT Sticky
INVARIANT OnceBroken
INVARIANT StateSane
CHECK_DEADLOCK FALSE

------------------------------- MODULE MC_Crc -------------------------------
(* Sanity theorems of Crc.tla, discharged by TLC when the module is loaded. *)
EXTENDS Crc, TLC

OneBit64(k) == [i \in 1..4 |-> IF (k \div 16) + 1 = i THEN 2 ^ (k % 16) ELSE 0]      \* k in 0..63

\* CRC-32 check value of "123456789"
ASSUME Crc32BE(<<49, 50, 51, 52, 53, 54, 55, 56, 57>>) = <<203, 244, 57, 38>>
\* the Avro specification's example: fingerprint of "int" (with its quotes) is 8F 5C 39 3F 1A D5 75 72
ASSUME Fingerprint(<<34, 105, 110, 116, 34>>) = <<143, 92, 57, 63, 26, 213, 117, 114>>
\* first table entries as the specification's algorithm gives them: FP_TABLE[1] = 0x2CF1CBA6B75351FA
ASSUME Table(0) = Zero64 /\ Table(1) = <<20986, 46931, 52134, 11505>>
\* the table is GF(2)-linear
RECURSIVE XorOfBits(_, _)
XorOfBits(i, b) == IF b = 8 THEN Zero64
                   ELSE Xor64(IF (i \div (2 ^ b)) % 2 = 1 THEN Table(2 ^ b) ELSE Zero64, XorOfBits(i, b + 1))
ASSUME \A i \in 0..255 : Table(i) = XorOfBits(i, 0)
\* table-driven step = bit-serial step on a basis of {state} x {byte}
ASSUME \A k \in 0..63 : StepTab(OneBit64(k), 0) = StepBit(OneBit64(k), 0)
ASSUME \A b \in 0..7 : StepTab(Zero64, 2 ^ b) = StepBit(Zero64, 2 ^ b)
ASSUME StepTab(Zero64, 0) = StepBit(Zero64, 0)
\* and, redundantly, on whole strings
TestString(n) == [j \in 1..n |-> (37 * j + 11 * n) % 256]
ASSUME \A n \in 1..20 : Fp64Tab(TestString(n)) = Fp64Bit(TestString(n))

VARIABLE x
Init == x = 0
Next == UNCHANGED x
=============================================================================

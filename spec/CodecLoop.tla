------------------------------ MODULE CodecLoop ------------------------------
(***************************************************************************)
(* The per-codec "compress with FINISH, grow the output buffer, repeat"    *)
(* loops of the container writer (C05), against an abstract streaming      *)
(* compressor that follows each library's documented status protocol when  *)
(* called with the finish action:                                          *)
(*   deflate (flate2/miniz): Ok = more output pending; BufError = no        *)
(*                           progress possible; StreamEnd = all written    *)
(*   bzip2 (BZ_FINISH):      FinishOk = more output pending;                *)
(*                           StreamEnd = all written                       *)
(*   xz (LZMA_FINISH):       Ok = progress made, more to do; MemNeeded     *)
(*                           (LZMA_BUF_ERROR) = no progress possible;      *)
(*                           StreamEnd = all written                       *)
(* The compressor consumes any part of the remaining input and produces    *)
(* any part of what fits in the free space of the buffer (at least one     *)
(* byte of progress when space is available).                              *)
(*                                                                         *)
(* Arms: how the loop reacts to each status: "grow" (double the buffer and *)
(* continue), "done" (the block is complete), "err" (fail the block).      *)
(* Correct: when the loop says done, the whole stream is in the buffer and *)
(* the reported length is the stream length; a well-behaved compressor     *)
(* never makes the loop fail; the buffer is never indexed past capacity.   *)
(***************************************************************************)
EXTENDS Naturals

CONSTANTS Codec,        \* "deflate" | "bzip2" | "xz"
          Arms,         \* [status -> "grow" | "done" | "err"]
          MaxIn, MaxOut, Caps

VARIABLES inLeft, outLeft, cap, totalOut, reported, state

vars == <<inLeft, outLeft, cap, totalOut, reported, state>>

Init == /\ inLeft \in 0..MaxIn /\ outLeft \in 1..MaxOut /\ cap \in Caps
        /\ totalOut = 0 /\ reported = 0 /\ state = "loop"

StatusOf(inL, outL, progress) ==
    IF inL = 0 /\ outL = 0 THEN "StreamEnd"
    ELSE CASE Codec = "deflate" -> IF progress THEN "Ok" ELSE "BufError"
           [] Codec = "bzip2"   -> "FinishOk"
           [] Codec = "xz"      -> IF progress THEN "Ok" ELSE "MemNeeded"

Call ==
    /\ state = "loop"
    /\ LET space == cap - totalOut IN
       \E consumed \in 0..inLeft, produced \in 0..(IF space < outLeft THEN space ELSE outLeft) :
          \* output can only be finished once the input is consumed; progress is made whenever possible
          /\ (produced = outLeft => consumed = inLeft)
          /\ (space > 0 => (consumed > 0 \/ produced > 0))
          /\ LET inL == inLeft - consumed
                 outL == outLeft - produced
                 st == StatusOf(inL, outL, consumed > 0 \/ produced > 0)
                 arm == Arms[st]
             IN  /\ inLeft' = inL /\ outLeft' = outL /\ totalOut' = totalOut + produced
                 /\ cap' = IF arm = "grow" THEN cap * 2 ELSE cap
                 /\ state' = IF arm = "grow" THEN "loop" ELSE arm
                 /\ reported' = IF arm = "done" THEN totalOut + produced ELSE reported

Spec == Init /\ [][Call]_vars

WholeStream == state = "done" => (inLeft = 0 /\ outLeft = 0)
NeverFails  == state # "err"
InBounds    == totalOut <= cap

=============================================================================

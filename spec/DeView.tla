------------------------------- MODULE DeView -------------------------------
(***************************************************************************)
(* What a deserialization TARGET is shown of a decoded value, per family   *)
(* of serde hints (the typed half of C01 / C03):                           *)
(*   "default", "alt", "alt2"  - schema-directed targets (structs, enums for *)
(*                unions, seqs / tuples, Option): they see the value with  *)
(*                its union branches, enum indices, fixed / duration /     *)
(*                decimal payloads - the abstract value itself;            *)
(*   "any"      - self-describing targets (deserialize_any everywhere):    *)
(*                union wrappers vanish, an enum is its symbol text, fixed *)
(*                is bytes, a record is a map keyed by field name, a       *)
(*                duration is a map of three u32, a decimal is its text    *)
(*                with exactly `scale` fraction digits.                    *)
(* Shown(G, v, hints) is the oracle for what the harness's Capture must    *)
(* record; before this module the "any" projection was transcribed in the  *)
(* Python driver.                                                          *)
(***************************************************************************)
EXTENDS SerdeModel

U32OfLE(b, i) == << b[i] + 256 * b[i + 1], b[i + 2] + 256 * b[i + 3], 0, 0 >>

RECURSIVE Erase(_, _, _)
Erase(G, k, v) ==
    LET n == G[k] IN
    CASE v.t \in {"null", "bool", "int", "long", "f32", "f64", "bytes", "str"} -> v
      [] v.t = "fix" -> [t |-> "bytes", v |-> v.v]
      [] v.t = "dur" -> [t |-> "map", kv |-> << <<Txt_months, [t |-> "u32", v |-> U32OfLE(v.v, 1)]>>,
                                               <<Txt_days, [t |-> "u32", v |-> U32OfLE(v.v, 5)]>>,
                                               <<Txt_millis, [t |-> "u32", v |-> U32OfLE(v.v, 9)]>> >>]
      [] v.t = "enum" -> [t |-> "str", v |-> n.symbols[v.i + 1]]
      [] v.t = "dec" -> [t |-> "str", v |-> DecText(v.v, v.s)]
      [] v.t = "arr" -> [t |-> "arr", es |-> [i \in 1..Len(v.es) |-> Erase(G, n.items, v.es[i])]]
      [] v.t = "map" -> [t |-> "map", kv |-> [i \in 1..Len(v.kv) |-> <<v.kv[i][1], Erase(G, n.values, v.kv[i][2])>>]]
      [] v.t = "rec" -> [t |-> "map", kv |-> [i \in 1..Len(v.es) |-> <<n.fields[i].n, Erase(G, n.fields[i].t, v.es[i])>>]]
      [] v.t = "un" -> Erase(G, n.variants[v.b + 1], v.x)

(***************************************************************************)
(* Decimals under the integer hints of a typed target (deserialize_u64 /    *)
(* i64 / u128 / i128 on a decimal node): with scale 0 the unscaled value is *)
(* shown as the narrowest of the asked-for kind that holds it, as i128 when *)
(* it is negative or too large for it, and - for u64 only - as its text     *)
(* when it is positive and does not fit; with any other scale, as its text. *)
(* A shown value: [t |-> "dshown", via, w (8 limbs, two's complement), txt].*)
(***************************************************************************)
NoTxt == <<>>
DShown(via, w) == [t |-> "dshown", via |-> via, w |-> w, txt |-> NoTxt]
DText(v) == [t |-> "dshown", via |-> "str", w |-> W128Zero, txt |-> DecText(v.v, v.s)]
HighZero(w) == w[5] = 0 /\ w[6] = 0 /\ w[7] = 0 /\ w[8] = 0
FitsI64(w) == IF w[4] >= 32768 THEN w[5] = 65535 /\ w[6] = 65535 /\ w[7] = 65535 /\ w[8] = 65535 ELSE HighZero(w)
DecShown(v, mode) ==
    LET w == BE16ToW128(v.v)  neg == IsNeg128(w) IN
    IF v.s # 0 THEN DText(v)
    ELSE CASE mode = "u64" -> IF ~neg /\ HighZero(w) THEN DShown("u64", w) ELSE IF neg THEN DShown("i128", w) ELSE DText(v)
           [] mode = "i64" -> IF FitsI64(w) THEN DShown("i64", w) ELSE DShown("i128", w)
           [] mode = "u128" -> IF ~neg THEN DShown("u128", w) ELSE DShown("i128", w)
           [] OTHER -> DShown("i128", w)

RECURSIVE ShowDec(_, _)
ShowDec(v, mode) ==
    CASE v.t = "dec" -> DecShown(v, mode)
      [] v.t \in {"arr", "rec"} -> [v EXCEPT !.es = [i \in 1..Len(v.es) |-> ShowDec(v.es[i], mode)]]
      [] v.t = "map" -> [v EXCEPT !.kv = [i \in 1..Len(v.kv) |-> <<v.kv[i][1], ShowDec(v.kv[i][2], mode)>>]]
      [] v.t = "un" -> [v EXCEPT !.x = ShowDec(v.x, mode)]
      [] OTHER -> v

Shown(G, v, hints) ==
    CASE hints = "any" -> Erase(G, 1, v)
      [] hints = "dec_u64" -> ShowDec(v, "u64")
      [] hints = "dec_i64" -> ShowDec(v, "i64")
      [] hints = "dec_u128" -> ShowDec(v, "u128")
      [] hints = "dec_i128" -> ShowDec(v, "i128")
      [] OTHER -> v
=============================================================================

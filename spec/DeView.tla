------------------------------- MODULE DeView -------------------------------
(***************************************************************************)
(* What a deserialization TARGET is shown of a decoded value, per family   *)
(* of serde hints (the typed half of C01 / C03):                           *)
(*   "default", "alt"  - schema-directed targets (structs, enums for       *)
(*                unions, seqs / tuples, Option): they see the value with  *)
(*                its union branches, enum indices, fixed / duration /     *)
(*                decimal payloads - the abstract value itself;            *)
(*   "any"      - self-describing targets (deserialize_any everywhere):    *)
(*                union wrappers vanish, an enum is its symbol text, fixed *)
(*                is bytes, a record is a map keyed by field name, a       *)
(*                duration is a map of three u32, a decimal is its text    *)
(*                with exactly `scale` fraction digits.                    *)
(* Shown(G, v, hints) is the oracle for what the harness's Capture must    *)
(* record; before this module the "any" projection was transcribed in the  *)
(* Python driver.                                                          *)
(***************************************************************************)
EXTENDS SerdeModel

U32OfLE(b, i) == << b[i] + 256 * b[i + 1], b[i + 2] + 256 * b[i + 3], 0, 0 >>

RECURSIVE Erase(_, _, _)
Erase(G, k, v) ==
    LET n == G[k] IN
    CASE v.t \in {"null", "bool", "int", "long", "f32", "f64", "bytes", "str"} -> v
      [] v.t = "fix" -> [t |-> "bytes", v |-> v.v]
      [] v.t = "dur" -> [t |-> "map", kv |-> << <<Txt_months, [t |-> "u32", v |-> U32OfLE(v.v, 1)]>>,
                                               <<Txt_days, [t |-> "u32", v |-> U32OfLE(v.v, 5)]>>,
                                               <<Txt_millis, [t |-> "u32", v |-> U32OfLE(v.v, 9)]>> >>]
      [] v.t = "enum" -> [t |-> "str", v |-> n.symbols[v.i + 1]]
      [] v.t = "dec" -> [t |-> "str", v |-> DecText(v.v, v.s)]
      [] v.t = "arr" -> [t |-> "arr", es |-> [i \in 1..Len(v.es) |-> Erase(G, n.items, v.es[i])]]
      [] v.t = "map" -> [t |-> "map", kv |-> [i \in 1..Len(v.kv) |-> <<v.kv[i][1], Erase(G, n.values, v.kv[i][2])>>]]
      [] v.t = "rec" -> [t |-> "map", kv |-> [i \in 1..Len(v.es) |-> <<n.fields[i].n, Erase(G, n.fields[i].t, v.es[i])>>]]
      [] v.t = "un" -> Erase(G, n.variants[v.b + 1], v.x)

Shown(G, v, hints) == IF hints = "any" THEN Erase(G, 1, v) ELSE v
=============================================================================

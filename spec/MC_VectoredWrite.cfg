CONSTANTS
    HdrLens = {1, 2, 3}
    DataLens = {0, 1, 4}
    MaxAccept = 5
    MutAdvanceOffByOne = FALSE
SPECIFICATION Spec
INVARIANT NothingLostOrDuplicated
INVARIANT InOrder
INVARIANT OkMeansAll
CHECK_DEADLOCK FALSE

------------------------------ MODULE SerdePres ------------------------------
(***************************************************************************)
(* A catalogue of serde presentations for the (node kind x serde call x    *)
(* boundary value) matrix of C02.  Sequences, not sets: presentations are  *)
(* records of many shapes.                                                 *)
(***************************************************************************)
EXTENDS SerdeModel

T_A == <<65>>
T_B == <<66>>
T_Q == <<81>>
T_a == <<97>>
T_b == <<98>>
T_c == <<99>>
T_R == <<82>>
T_E == <<69>>
T_F == <<70>>
T_N == <<78>>
T_Int == <<73, 110, 116>>
T_Long == <<76, 111, 110, 103>>
T_String == <<83, 116, 114, 105, 110, 103>>
T_Bytes == <<66, 121, 116, 101, 115>>
T_Map == <<77, 97, 112>>
T_Array == <<65, 114, 114, 97, 121>>
T_Decimal == <<68, 101, 99, 105, 109, 97, 108>>
T_Duration == <<68, 117, 114, 97, 116, 105, 111, 110>>

IP(k, n) == [p |-> k, v |-> IntToI64(n)]            \* small signed value, 4 limbs
IU(k, l) == [p |-> k, v |-> l]                       \* explicit limbs
Z4 == <<0, 0, 0, 0>>
F4 == <<65535, 65535, 65535, 65535>>

IntPres ==
    << IP("i8", 0), IP("i8", 1), IP("i8", -1), IP("i8", 127), IP("i8", -128), IP("i8", 5), IP("i8", -3),
       IP("i16", 128), IP("i16", 255), IP("i16", 256), IP("i16", 300), IP("i16", 200), IP("i16", -129),
       IP("i16", 32767), IP("i16", -32768),
       IP("i32", 0), IP("i32", 1), IP("i32", -1), IP("i32", 2), IP("i32", 5), IP("i32", -3), IP("i32", 127), IP("i32", 128),
       IP("i32", 200), IP("i32", 255), IP("i32", 256), IP("i32", 300), IP("i32", 32768), IP("i32", -32769),
       IU("i32", <<65535, 32767, 0, 0>>), IU("i32", <<0, 32768, 65535, 65535>>),
       IP("i64", 0), IP("i64", 5), IP("i64", 128), IP("i64", -129),
       IU("i64", <<0, 32768, 0, 0>>), IU("i64", <<65535, 32767, 65535, 65535>>),
       IU("i64", <<65535, 65535, 65535, 32767>>), IU("i64", <<0, 0, 0, 32768>>),
       IP("u8", 0), IP("u8", 5), IP("u8", 128), IP("u8", 255),
       IP("u16", 256), IP("u16", 65535),
       IP("u32", 0), IP("u32", 5), IP("u32", 12), IU("u32", <<0, 32768, 0, 0>>), IU("u32", <<65535, 65535, 0, 0>>),
       IP("u64", 0), IP("u64", 5), IU("u64", <<65535, 65535, 65535, 32767>>), IU("u64", <<0, 0, 0, 32768>>),
       IU("u64", F4),
       [p |-> "i128", v |-> Z4 \o Z4], [p |-> "i128", v |-> <<128, 0, 0, 0>> \o Z4],
       [p |-> "i128", v |-> <<65407, 65535, 65535, 65535>> \o F4],                     \* -129
       [p |-> "i128", v |-> Z4 \o <<1, 0, 0, 0>>],                                      \* 2^64
       [p |-> "i128", v |-> Z4 \o <<65535, 65535, 65535, 65535>>],                      \* -(2^64)
       [p |-> "i128", v |-> Z4 \o <<0, 32768, 0, 0>>],                                  \* 2^95
       [p |-> "i128", v |-> Z4 \o <<0, 0, 1, 0>>],                                      \* 2^96
       [p |-> "i128", v |-> F4 \o <<65535, 65535, 65535, 32767>>],                      \* i128::MAX
       [p |-> "i128", v |-> Z4 \o <<0, 0, 0, 32768>>],                                  \* i128::MIN
       [p |-> "u128", v |-> Z4 \o Z4], [p |-> "u128", v |-> <<200, 0, 0, 0>> \o Z4],
       [p |-> "u128", v |-> Z4 \o <<0, 0, 0, 32768>>], [p |-> "u128", v |-> F4 \o F4] >>

FloatPres ==
    << [p |-> "f32", v |-> <<0, 0, 0, 0>>], [p |-> "f32", v |-> <<0, 0, 128, 63>>], [p |-> "f32", v |-> <<1, 0, 192, 127>>],
       [p |-> "f64", v |-> <<0, 0, 0, 0, 0, 0, 0, 0>>], [p |-> "f64", v |-> <<0, 0, 0, 0, 0, 0, 248, 63>>],
       [p |-> "f64", v |-> <<1, 0, 0, 0, 0, 0, 248, 127>>],
       [p |-> "f64", v |-> <<0, 0, 0, 0, 0, 0, 0, 128>>], [p |-> "f32", v |-> <<0, 0, 0, 128>>],       \* negative zero
       [p |-> "f64", v |-> <<154, 153, 153, 153, 153, 153, 217, 191>>] >>                              \* -0.4

S(t) == [p |-> "str", v |-> t]
BYT(t) == [p |-> "bytes", v |-> t]

TextPres ==
    << S(<<>>), S(T_A), S(T_B), S(T_Q), S(<<97, 98>>), S(<<97, 98, 99>>), S(<<49>>), S(<<49, 50, 56>>), S(<<51, 48, 48>>),
       S(<<49, 46, 53>>), S(<<45, 49, 46, 50, 56>>), S(<<49, 50, 51, 52, 53, 46, 54, 55, 56>>), S(<<49, 46, 53, 48>>),
       S(<<48>>), S(<<45, 48, 46, 48, 48>>), S(<<45, 48, 46, 52>>), S(<<45, 48, 46, 48, 48, 52>>), S(<<120, 121, 122>>), S(<<195, 169>>),
       S(<<49, 50, 51, 52, 53, 54, 55, 56, 57, 48, 49, 50>>),
       S(<<195, 169, 195, 169>>), S(<<97, 195, 169>>), S(<<226, 130, 172>>),      \* two letters in four bytes, two in three, one in three
       [p |-> "char", i |-> 65], [p |-> "char", i |-> 233], [p |-> "char", i |-> 128512],
       BYT(<<>>), BYT(<<65>>), BYT(<<255, 254>>), BYT(<<1, 2>>), BYT(<<1, 2, 3>>), BYT(<<195, 169>>),
       BYT(<<1, 0, 0, 0, 2, 0, 0, 0, 3, 0, 0, 0>>), BYT(<<0, 1, 2, 3, 4, 5, 6, 7, 8, 9, 10, 11, 12, 13, 14, 15>>) >>

UnitPres ==
    << [p |-> "unit"], [p |-> "none"], [p |-> "bool", i |-> 0], [p |-> "bool", i |-> 1],
       [p |-> "unit_struct", name |-> T_A], [p |-> "unit_struct", name |-> Txt_Null], [p |-> "unit_struct", name |-> T_Q],
       [p |-> "unit_variant", name |-> T_E, idx |-> 0, variant |-> T_A],
       [p |-> "unit_variant", name |-> T_E, idx |-> 1, variant |-> T_B],
       [p |-> "unit_variant", name |-> T_E, idx |-> 7, variant |-> T_Q],
       [p |-> "unit_variant", name |-> T_E, idx |-> 0, variant |-> Txt_Null],
       [p |-> "fail"] >>

WrapPres ==
    << [p |-> "some", x |-> IP("i32", 5)], [p |-> "some", x |-> S(T_A)], [p |-> "some", x |-> [p |-> "unit"]],
       [p |-> "some", x |-> [p |-> "none"]],
       [p |-> "newtype_struct", name |-> T_N, x |-> IP("i32", 5)],
       [p |-> "newtype_struct", name |-> T_R, x |-> IP("i32", 5)],
       [p |-> "newtype_struct", name |-> T_Int, x |-> IP("i64", 5)],
       [p |-> "newtype_variant", name |-> T_N, idx |-> 0, variant |-> T_Int, x |-> IP("i32", 5)],
       [p |-> "newtype_variant", name |-> T_N, idx |-> 0, variant |-> T_Int, x |-> IP("i64", 5)],
       [p |-> "newtype_variant", name |-> T_N, idx |-> 1, variant |-> T_Long, x |-> IP("i32", 5)],
       [p |-> "newtype_variant", name |-> T_N, idx |-> 1, variant |-> T_String, x |-> S(T_A)],
       [p |-> "newtype_variant", name |-> T_N, idx |-> 1, variant |-> T_Bytes, x |-> BYT(<<1, 2>>)],
       [p |-> "newtype_variant", name |-> T_N, idx |-> 1, variant |-> T_F, x |-> BYT(<<1, 2>>)],
       [p |-> "newtype_variant", name |-> T_N, idx |-> 1, variant |-> T_E, x |-> S(T_A)],
       [p |-> "newtype_variant", name |-> T_N, idx |-> 1, variant |-> T_Decimal, x |-> S(<<49, 46, 53>>)],
       [p |-> "newtype_variant", name |-> T_N, idx |-> 1, variant |-> T_Duration, x |-> BYT(<<1, 0, 0, 0, 2, 0, 0, 0, 3, 0, 0, 0>>)],
       [p |-> "newtype_variant", name |-> T_N, idx |-> 1, variant |-> Txt_Null, x |-> [p |-> "unit"]],
       [p |-> "newtype_variant", name |-> T_N, idx |-> 1, variant |-> T_Q, x |-> IP("i32", 5)] >>

U8(n) == IP("u8", n)
U32(n) == IP("u32", n)
SeqPres ==
    << [p |-> "seq", len |-> 0, es |-> <<>>], [p |-> "seq", len |-> -1, es |-> <<>>],
       [p |-> "seq", len |-> 2, es |-> <<IP("i32", 1), IP("i32", 2)>>],
       [p |-> "seq", len |-> -1, es |-> <<IP("i32", 1), IP("i32", 2)>>],
       [p |-> "seq", len |-> 3, es |-> <<IP("i32", 1), IP("i32", 2)>>],           \* fewer than advertised
       [p |-> "seq", len |-> 1, es |-> <<IP("i32", 1), IP("i32", 2)>>],           \* more than advertised
       [p |-> "seq", len |-> 2, es |-> <<IP("i32", 1), S(T_A)>>],                 \* element of the wrong kind
       [p |-> "seq", len |-> 2, es |-> <<IP("i32", 1), [p |-> "fail"]>>],
       [p |-> "seq", len |-> 2, es |-> <<U8(1), U8(2)>>], [p |-> "seq", len |-> -1, es |-> <<U8(1), U8(2)>>],
       [p |-> "seq", len |-> 3, es |-> <<U8(1), U8(2)>>], [p |-> "seq", len |-> 1, es |-> <<U8(1), U8(2)>>],
       [p |-> "seq", len |-> 2, es |-> <<U8(1), IP("i32", 300)>>], [p |-> "seq", len |-> -1, es |-> <<U8(1), IP("i32", 300)>>],
       [p |-> "seq", len |-> -1, es |-> <<U8(1), [p |-> "fail"]>>],
       \* every integer width as a would-be byte: negative i8 / i16 / i64 elements and an i16 above 255 are not bytes
       [p |-> "seq", len |-> 3, es |-> <<IP("i8", 0), IP("i8", 1), IP("i8", -1)>>], [p |-> "seq", len |-> -1, es |-> <<IP("i8", 5), IP("i8", -128)>>],
       [p |-> "seq", len |-> 2, es |-> <<IP("i8", 5), IP("i8", 127)>>], [p |-> "seq", len |-> 2, es |-> <<IP("i16", 1), IP("i16", -1)>>],
       [p |-> "seq", len |-> 2, es |-> <<IP("i16", 1), IP("i16", 256)>>], [p |-> "seq", len |-> 2, es |-> <<IP("i64", 1), IP("i64", -1)>>],
       [p |-> "seq", len |-> 2, es |-> <<IP("u16", 1), IP("u16", 255)>>], [p |-> "tuple", es |-> <<IP("i8", 1), IP("i8", -1)>>],
       [p |-> "seq", len |-> 2, es |-> <<IP("u64", 1), IP("u64", 255)>>], [p |-> "seq", len |-> 2, es |-> <<IP("u64", 1), IP("u64", 256)>>],
       [p |-> "seq", len |-> 2, es |-> <<IP("u32", 7), IP("u32", 256)>>],
       [p |-> "seq", len |-> 2, es |-> <<[p |-> "i128", v |-> <<200, 0, 0, 0>> \o Z4], [p |-> "u128", v |-> <<255, 0, 0, 0>> \o Z4]>>],
       [p |-> "seq", len |-> 2, es |-> <<[p |-> "i128", v |-> F4 \o F4], [p |-> "u128", v |-> <<1, 0, 0, 0>> \o Z4]>>],      \* -1 is not a byte
       [p |-> "seq", len |-> 2, es |-> <<[p |-> "u128", v |-> <<0, 1, 0, 0>> \o Z4], [p |-> "u128", v |-> <<1, 0, 0, 0>> \o Z4]>>],   \* 65536 is not a byte
       [p |-> "seq", len |-> 2, es |-> <<[p |-> "i128", v |-> Z4 \o <<1, 0, 0, 0>>], [p |-> "i128", v |-> <<1, 0, 0, 0>> \o Z4]>>],   \* 2^64 is not a byte
       [p |-> "seq", len |-> 3, es |-> <<U8(1), U8(2), U8(3)>>],
       [p |-> "seq", len |-> 3, es |-> <<U32(1), U32(2), U32(3)>>], [p |-> "seq", len |-> -1, es |-> <<U32(1), U32(2), U32(3)>>],
       [p |-> "seq", len |-> 2, es |-> <<U32(1), U32(2)>>], [p |-> "seq", len |-> -1, es |-> <<U32(1), U32(2), U32(3), U32(4)>>],
       [p |-> "tuple", es |-> <<U32(1), U32(2), U32(3)>>], [p |-> "tuple", es |-> <<IP("i32", 1), IP("i32", 2)>>],
       [p |-> "tuple", es |-> <<U8(1), U8(2)>>],
       [p |-> "tuple_struct", name |-> T_N, es |-> <<IP("i32", 1), IP("i32", 2)>>],
       [p |-> "tuple_variant", name |-> T_N, idx |-> 0, variant |-> T_Array, es |-> <<IP("i32", 1), IP("i32", 2)>>],
       [p |-> "tuple_variant", name |-> T_N, idx |-> 0, variant |-> T_Q, es |-> <<IP("i32", 1), IP("i32", 2)>>] >>

KV(k, v) == <<S(k), v>>
MapPres ==
    << [p |-> "map", len |-> 0, mode |-> "entry", kv |-> <<>>], [p |-> "map", len |-> -1, mode |-> "kv", kv |-> <<>>],
       [p |-> "map", len |-> 2, mode |-> "entry", kv |-> <<KV(T_a, IP("i32", 1)), KV(T_b, IP("i32", 2))>>],
       [p |-> "map", len |-> -1, mode |-> "kv", kv |-> <<KV(T_b, IP("i32", 2)), KV(T_a, IP("i32", 1))>>],
       [p |-> "map", len |-> 3, mode |-> "entry", kv |-> <<KV(T_a, IP("i32", 1)), KV(T_b, IP("i32", 2))>>],
       [p |-> "map", len |-> 1, mode |-> "kv", kv |-> <<KV(T_a, IP("i32", 1)), KV(T_b, IP("i32", 2))>>],
       [p |-> "map", len |-> 2, mode |-> "entry", kv |-> <<KV(T_a, IP("i32", 1)), KV(T_a, IP("i32", 2))>>],     \* duplicate key
       [p |-> "map", len |-> 2, mode |-> "entry", kv |-> <<KV(T_a, IP("i32", 1)), KV(T_b, S(T_A))>>],
       [p |-> "map", len |-> 2, mode |-> "entry", kv |-> <<KV(T_a, IP("i32", 1)), KV(T_b, [p |-> "none"])>>],
       [p |-> "map", len |-> 1, mode |-> "entry", kv |-> <<KV(T_a, IP("i32", 1))>>],
       [p |-> "map", len |-> 1, mode |-> "entry", kv |-> <<KV(T_b, S(T_A))>>],
       [p |-> "map", len |-> 3, mode |-> "entry", kv |-> <<KV(T_a, IP("i32", 1)), KV(T_b, S(T_A)), KV(T_c, IP("i32", 3))>>],
       [p |-> "map", len |-> 2, mode |-> "entry", kv |-> << <<IP("i32", 1), IP("i32", 1)>>, KV(T_b, IP("i32", 2)) >>],   \* non-string key
       [p |-> "map", len |-> 1, mode |-> "entry", kv |-> << <<BYT(<<255, 254>>), IP("i32", 1)>> >>],                     \* bytes key, not UTF-8
       [p |-> "map", len |-> 1, mode |-> "entry", kv |-> << <<BYT(T_a), IP("i32", 1)>> >>],
       [p |-> "map", len |-> 3, mode |-> "entry", kv |-> <<KV(Txt_months, U32(1)), KV(Txt_days, U32(2)), KV(Txt_millis, U32(3))>>],
       [p |-> "map", len |-> -1, mode |-> "kv", kv |-> <<KV(Txt_days, U32(2)), KV(Txt_millis, U32(3)), KV(Txt_months, U32(1))>>],
       [p |-> "map", len |-> 2, mode |-> "entry", kv |-> <<KV(Txt_months, U32(1)), KV(Txt_days, U32(2))>>],
       [p |-> "map", len |-> 3, mode |-> "entry", kv |-> <<KV(Txt_months, U32(1)), KV(Txt_days, U32(2)), KV(Txt_days, U32(3))>>] >>

FS(k, v) == <<k, v>>
StructPres ==
    << [p |-> "struct", name |-> T_R, fs |-> <<FS(T_a, IP("i32", 1)), FS(T_b, S(T_A))>>],
       [p |-> "struct", name |-> T_R, fs |-> <<FS(T_b, S(T_A)), FS(T_a, IP("i32", 1))>>],
       [p |-> "struct", name |-> T_R, fs |-> <<FS(T_a, IP("i32", 1))>>],                                 \* b omitted
       [p |-> "struct", name |-> T_R, fs |-> <<FS(T_b, S(T_A))>>],                                       \* a omitted
       [p |-> "struct", name |-> T_R, fs |-> <<FS(T_a, IP("i32", 1)), FS(T_b, [p |-> "none"])>>],
       [p |-> "struct", name |-> T_R, fs |-> <<FS(T_a, IP("i32", 1)), FS(T_a, IP("i32", 2)), FS(T_b, S(T_A))>>],
       [p |-> "struct", name |-> T_R, fs |-> <<FS(T_a, IP("i32", 1)), FS(T_b, S(T_A)), FS(T_c, IP("i32", 3))>>],
       [p |-> "struct", name |-> T_R, fs |-> <<FS(T_a, S(T_A)), FS(T_b, S(T_A))>>],
       [p |-> "struct", name |-> T_R, fs |-> <<FS(T_a, IP("i32", 1)), FS(T_b, [p |-> "fail"])>>],
       [p |-> "struct", name |-> T_Q, fs |-> <<FS(T_a, IP("i32", 1)), FS(T_b, S(T_A))>>],
       [p |-> "struct", name |-> T_Q, fs |-> <<FS(T_a, IP("i32", 1)), FS(T_b, IP("i32", 2))>>],
       [p |-> "struct", name |-> T_Q, fs |-> <<>>],
       [p |-> "struct_variant", name |-> T_N, idx |-> 0, variant |-> T_R, fs |-> <<FS(T_a, IP("i32", 1)), FS(T_b, S(T_A))>>],
       [p |-> "struct_variant", name |-> T_N, idx |-> 0, variant |-> T_Map, fs |-> <<FS(T_a, IP("i32", 1)), FS(T_b, IP("i32", 2))>>],
       [p |-> "struct", name |-> T_Q, fs |-> <<FS(Txt_months, U32(1)), FS(Txt_days, U32(2)), FS(Txt_millis, U32(3))>>],
       [p |-> "struct", name |-> T_Q, fs |-> <<FS(Txt_millis, U32(3)), FS(Txt_months, U32(1)), FS(Txt_days, U32(2))>>],
       [p |-> "struct", name |-> T_Q, fs |-> <<FS(Txt_months, IP("i32", 1)), FS(Txt_days, U32(2)), FS(Txt_millis, U32(3))>>],
       [p |-> "struct", name |-> T_Q, fs |-> <<FS(Txt_months, U32(1)), FS(Txt_days, U32(2))>>] >>

AllPres == IntPres \o FloatPres \o TextPres \o UnitPres \o WrapPres \o SeqPres \o MapPres \o StructPres

=============================================================================

----------------------------- MODULE Trace_SerPool -----------------------------
(***************************************************************************)
(* Trace validation of serialization sessions that REUSE one serializer    *)
(* configuration (C13, C14).  Events:                                      *)
(*  "reset": a fresh configuration (new session);                          *)
(*  "call" : one to_datum on the session's configuration:                  *)
(*           [si, pres, slow, budget (-1 = unlimited sink), res, bytes].   *)
(*           Allowed iff the outcome is what the STATELESS specification   *)
(*           allows for (schema, presentation, sink budget) - the bytes    *)
(*           depend only on the value and the schema, whatever happened    *)
(*           before on this configuration:                                 *)
(*             must-err  => err;                                           *)
(*             ok        => bytes encode a denoted value (any layout) and  *)
(*                          fit the sink budget;                           *)
(*             must-ok and the sink accepts the whole encoding => ok;      *)
(*             a panic / abort is never allowed;                           *)
(*  "h_pool": (hooks) lengths of the buffers currently pooled in the real  *)
(*           configuration: all must be 0.                                 *)
(* The model's own pools (SerImpl) are threaded through the calls and must *)
(* stay clean as well.                                                     *)
(***************************************************************************)
EXTENDS SerImpl, Json, IOUtils, TLC

Rec   == ndJsonDeserialize(IOEnv.VERIF_TRACE)
Scope == ndJsonDeserialize(IOEnv.VERIF_SCOPE)

VARIABLES l, pool

CallAllowed(e) ==
    LET G == Scope[e.si].nodes
        d == Den(G, 1, e.pres, e.slow)
    IN  CASE e.res = "err" ->
               \/ d.m # "ok"
               \* the sink refused part of the encoding.  Which block layout the serializer writes is its own business (a
               \* sequence of unknown length goes out one block per element): the error is allowed whenever SOME valid layout of
               \* the value does not fit the budget - the longest one is policy 4 (one block per element, with byte sizes)
               \/ (e.budget >= 0 /\ \A v \in d.vs : e.budget < Len(EncWith(G, 1, v, [p |-> 4, lvl |-> 0])))
          [] e.res = "ok" ->
               /\ d.m # "err"
               /\ (d.any \/ \E v \in d.vs : IsEncodingOf(G, e.bytes, v))
               /\ (e.budget < 0 \/ Len(e.bytes) <= e.budget)
          [] OTHER -> FALSE

Init == l = 1 /\ pool = EmptyPool
Next ==
    /\ l <= Len(Rec)
    /\ LET e == Rec[l] IN
       \/ /\ e.ev = "reset" /\ pool' = EmptyPool
       \/ /\ e.ev = "call" /\ CallAllowed(e)
          /\ pool' = Call(Scope[e.si].nodes, e.pres, pool, e.budget, e.slow).pool
       \/ /\ e.ev = "h_pool" /\ \A i \in 1..Len(e.lens) : e.lens[i] = 0
          /\ UNCHANGED pool
    /\ l' = l + 1

ModelPoolClean == PoolClean(pool)

Accepted ==
    \/ TLCGet("stats").diameter - 1 = Len(Rec)
    \/ (PrintT(<<"REJECT", TLCGet("stats").diameter>>) /\ FALSE)

=============================================================================

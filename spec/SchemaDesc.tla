----------------------------- MODULE SchemaDesc -----------------------------
(***************************************************************************)
(* Schema documents, name resolution, canonical descriptions, Parsing      *)
(* Canonical Form (C07, C08, C09, C18).                                    *)
(*                                                                         *)
(* Document AST (what a JSON schema document says; the harness renders it  *)
(* to text with varying lexical styles):                                   *)
(*   [d |-> "prim", k]                 "int"                               *)
(*   [d |-> "ref", t |-> text]         "a.b.X", "X", ".X"                  *)
(*   [d |-> "union", es |-> <<D>>]     [ ... ]                             *)
(*   [d |-> "obj", k, lt, hasPrec, prec, hasScale, scale,                  *)
(*      hasName, name, hasNs, ns,                                          *)
(*      hasItems, items, hasValues, values, hasFields, fields (<<[n, t]>>),*)
(*      hasSymbols, symbols, hasSize, size]   {"type": k, ...}             *)
(*                                                                         *)
(* Canonical description (Desc) of a schema: the tree obtained by walking  *)
(* the schema from its root in field / branch order, writing each named    *)
(* type in full at its first occurrence and as [c |-> "ref", name] after:  *)
(*   [c |-> "prim", k, lt, prec, scale]   [c |-> "array", lt, items]       *)
(*   [c |-> "map", lt, values]            [c |-> "union", es]              *)
(*   [c |-> "record", name, lt, fields]   [c |-> "enum", name, lt, symbols]*)
(*   [c |-> "fixed", name, lt, size, prec, scale]   [c |-> "ref", name]    *)
(* Two schemas are the same schema (isomorphic graphs, same fullnames,     *)
(* field order, symbols, sizes, logical types and parameters) iff their    *)
(* canonical descriptions are equal.                                       *)
(*                                                                         *)
(*   Resolve(doc)    : document -> Desc or error, name resolution exactly  *)
(*                     as the Avro specification words it;                 *)
(*   GraphDesc(G)    : node vector -> Desc, or "cycle" / "dangling";       *)
(*   Pcf(desc)       : the Parsing Canonical Form text.                    *)
(***************************************************************************)
EXTENDS AvroSchema, TLC

NoNs == <<>>
Dot == 46

JoinName(ns, short) == IF ns = NoNs THEN short ELSE ns \o <<Dot>> \o short

RECURSIVE LastDotIdx(_, _)
LastDotIdx(t, i) == IF i = 0 THEN 0 ELSE IF t[i] = Dot THEN i ELSE LastDotIdx(t, i - 1)
HasDot(t) == LastDotIdx(t, Len(t)) # 0
NsOf(full) == LET i == LastDotIdx(full, Len(full)) IN IF i <= 1 THEN NoNs ELSE SubSeq(full, 1, i - 1)
ShortOf(full) == SubSeq(full, LastDotIdx(full, Len(full)) + 1, Len(full))

\* fullname of a definition: dotted name > namespace attribute (empty = null namespace) > enclosing namespace
FullOfDef(o, encl) ==
    IF HasDot(o.name) THEN JoinName(NsOf(o.name), ShortOf(o.name))
    ELSE IF o.hasNs THEN JoinName(o.ns, o.name)
    ELSE JoinName(encl, o.name)
\* fullname a reference designates: dotted (a leading dot = null namespace), otherwise in the enclosing namespace
FullOfRef(t, encl) == IF HasDot(t) THEN JoinName(NsOf(t), ShortOf(t)) ELSE JoinName(encl, t)

NamedK == {"record", "enum", "fixed"}

(***************************************************************************)
(* Pass 1: reference form.  Every definition is replaced by a reference to *)
(* its fullname, its body (children in reference form) goes to `defs`      *)
(* (sequence of [name, body], document order).                             *)
(* Result: [ok, r (reference-form tree), defs].                            *)
(***************************************************************************)
RECURSIVE ToRefForm(_, _)
RECURSIVE ListToRefForm(_, _, _)
RECURSIVE FieldsToRefForm(_, _, _)

RFail == [ok |-> FALSE, r |-> [c |-> "bad"], defs |-> <<>>]

ListToRefForm(es, i, encl) ==
    IF i > Len(es) THEN [ok |-> TRUE, rs |-> <<>>, defs |-> <<>>]
    ELSE LET h == ToRefForm(es[i], encl) IN
         IF ~h.ok THEN [ok |-> FALSE, rs |-> <<>>, defs |-> <<>>]
         ELSE LET t == ListToRefForm(es, i + 1, encl) IN
              [ok |-> t.ok, rs |-> <<h.r>> \o t.rs, defs |-> h.defs \o t.defs]

FieldsToRefForm(fs, i, encl) ==
    IF i > Len(fs) THEN [ok |-> TRUE, rs |-> <<>>, defs |-> <<>>]
    ELSE LET h == ToRefForm(fs[i].t, encl) IN
         IF ~h.ok THEN [ok |-> FALSE, rs |-> <<>>, defs |-> <<>>]
         ELSE LET t == FieldsToRefForm(fs, i + 1, encl) IN
              [ok |-> t.ok, rs |-> << [n |-> fs[i].n, t |-> h.r] >> \o t.rs, defs |-> h.defs \o t.defs]

ToRefForm(doc, encl) ==
    CASE doc.d = "prim" -> [ok |-> TRUE, r |-> [c |-> "prim", k |-> doc.k, lt |-> "none", prec |-> -1, scale |-> -1], defs |-> <<>>]
      [] doc.d = "ref" -> [ok |-> TRUE, r |-> [c |-> "ref", name |-> FullOfRef(doc.t, encl)], defs |-> <<>>]
      [] doc.d = "union" ->
            LET l == ListToRefForm(doc.es, 1, encl) IN
            IF ~l.ok THEN RFail ELSE [ok |-> TRUE, r |-> [c |-> "union", es |-> l.rs], defs |-> l.defs]
      [] doc.d = "obj" ->
            LET decimalOk == doc.lt # "decimal" \/ doc.hasPrec               \* precision is required, scale defaults to 0
                prec  == IF doc.lt = "decimal" THEN doc.prec ELSE -1
                scale == IF doc.lt = "decimal" THEN (IF doc.hasScale THEN doc.scale ELSE 0) ELSE -1
            IN
            IF ~decimalOk THEN RFail
            ELSE CASE doc.k \in Primitives ->
                        [ok |-> TRUE, r |-> [c |-> "prim", k |-> doc.k, lt |-> doc.lt, prec |-> prec, scale |-> scale], defs |-> <<>>]
                   [] doc.k = "array" ->
                        IF ~doc.hasItems THEN RFail
                        ELSE LET h == ToRefForm(doc.items, encl) IN
                             IF ~h.ok THEN RFail ELSE [ok |-> TRUE, r |-> [c |-> "array", lt |-> doc.lt, items |-> h.r], defs |-> h.defs]
                   [] doc.k = "map" ->
                        IF ~doc.hasValues THEN RFail
                        ELSE LET h == ToRefForm(doc.values, encl) IN
                             IF ~h.ok THEN RFail ELSE [ok |-> TRUE, r |-> [c |-> "map", lt |-> doc.lt, values |-> h.r], defs |-> h.defs]
                   [] doc.k = "record" ->
                        IF ~doc.hasName \/ ~doc.hasFields THEN RFail
                        ELSE LET full == FullOfDef(doc, encl)
                                 fs   == FieldsToRefForm(doc.fields, 1, NsOf(full))      \* fields live in the record's namespace
                             IN  IF ~fs.ok THEN RFail
                                 ELSE [ok |-> TRUE, r |-> [c |-> "ref", name |-> full],
                                       defs |-> << [name |-> full, body |-> [c |-> "record", name |-> full, lt |-> doc.lt, fields |-> fs.rs]] >> \o fs.defs]
                   [] doc.k = "enum" ->
                        IF ~doc.hasName \/ ~doc.hasSymbols THEN RFail
                        ELSE LET full == FullOfDef(doc, encl) IN
                             [ok |-> TRUE, r |-> [c |-> "ref", name |-> full],
                              defs |-> << [name |-> full, body |-> [c |-> "enum", name |-> full, lt |-> doc.lt, symbols |-> doc.symbols]] >>]
                   [] doc.k = "fixed" ->
                        IF ~doc.hasName \/ ~doc.hasSize THEN RFail
                        ELSE LET full == FullOfDef(doc, encl) IN
                             [ok |-> TRUE, r |-> [c |-> "ref", name |-> full],
                              defs |-> << [name |-> full, body |-> [c |-> "fixed", name |-> full, lt |-> doc.lt, size |-> doc.size,
                                                                   prec |-> prec, scale |-> scale]] >>]
                   [] OTHER -> RFail

(***************************************************************************)
(* Pass 2: expansion.  env: sequence of [name, body]; `seen`: names        *)
(* already written in full.  A reference to an unknown name is an error.   *)
(* Returns [ok, d, seen].  Fuel makes non-termination a checkable outcome  *)
(* (it cannot happen here: every expansion adds a name to `seen`).         *)
(***************************************************************************)
RECURSIVE EnvLookup(_, _, _)
EnvLookup(env, nm, i) == IF i > Len(env) THEN 0 ELSE IF env[i].name = nm THEN i ELSE EnvLookup(env, nm, i + 1)

RECURSIVE Expand(_, _, _)
RECURSIVE ExpandList(_, _, _, _)
RECURSIVE ExpandFields(_, _, _, _)

XFail(seen) == [ok |-> FALSE, d |-> [c |-> "bad"], seen |-> seen]

ExpandList(es, i, env, seen) ==
    IF i > Len(es) THEN [ok |-> TRUE, ds |-> <<>>, seen |-> seen]
    ELSE LET h == Expand(es[i], env, seen) IN
         IF ~h.ok THEN [ok |-> FALSE, ds |-> <<>>, seen |-> seen]
         ELSE LET t == ExpandList(es, i + 1, env, h.seen) IN [ok |-> t.ok, ds |-> <<h.d>> \o t.ds, seen |-> t.seen]

ExpandFields(fs, i, env, seen) ==
    IF i > Len(fs) THEN [ok |-> TRUE, ds |-> <<>>, seen |-> seen]
    ELSE LET h == Expand(fs[i].t, env, seen) IN
         IF ~h.ok THEN [ok |-> FALSE, ds |-> <<>>, seen |-> seen]
         ELSE LET t == ExpandFields(fs, i + 1, env, h.seen) IN
              [ok |-> t.ok, ds |-> << [n |-> fs[i].n, t |-> h.d] >> \o t.ds, seen |-> t.seen]

Expand(r, env, seen) ==
    CASE r.c = "prim" -> [ok |-> TRUE, d |-> r, seen |-> seen]
      [] r.c = "union" -> LET l == ExpandList(r.es, 1, env, seen) IN
                          IF ~l.ok THEN XFail(seen) ELSE [ok |-> TRUE, d |-> [c |-> "union", es |-> l.ds], seen |-> l.seen]
      [] r.c = "array" -> LET h == Expand(r.items, env, seen) IN
                          IF ~h.ok THEN XFail(seen) ELSE [ok |-> TRUE, d |-> [c |-> "array", lt |-> r.lt, items |-> h.d], seen |-> h.seen]
      [] r.c = "map" -> LET h == Expand(r.values, env, seen) IN
                        IF ~h.ok THEN XFail(seen) ELSE [ok |-> TRUE, d |-> [c |-> "map", lt |-> r.lt, values |-> h.d], seen |-> h.seen]
      [] r.c = "ref" ->
            IF r.name \in seen THEN [ok |-> TRUE, d |-> r, seen |-> seen]
            ELSE LET i == EnvLookup(env, r.name, 1) IN
                 IF i = 0 THEN XFail(seen)                                   \* unknown reference
                 ELSE LET b == env[i].body  seen1 == seen \cup {r.name} IN
                      IF b.c = "record" THEN
                          LET fs == ExpandFields(b.fields, 1, env, seen1) IN
                          IF ~fs.ok THEN XFail(seen)
                          ELSE [ok |-> TRUE, d |-> [c |-> "record", name |-> b.name, lt |-> b.lt, fields |-> fs.ds], seen |-> fs.seen]
                      ELSE [ok |-> TRUE, d |-> b, seen |-> seen1]
      [] OTHER -> XFail(seen)

DistinctNames(defs) == \A i, j \in 1..Len(defs) : defs[i].name = defs[j].name => i = j

\* a record that contains itself through record fields only (no union / array / map on the way)
RECURSIVE ReachesDirect(_, _, _, _)
ReachesDirect(env, from, target, fuel) ==
    IF fuel = 0 THEN FALSE
    ELSE LET i == EnvLookup(env, from, 1) IN
         IF i = 0 \/ env[i].body.c # "record" THEN FALSE
         ELSE \E f \in 1..Len(env[i].body.fields) :
                LET t == env[i].body.fields[f].t IN
                t.c = "ref" /\ (t.name = target \/ ReachesDirect(env, t.name, target, fuel - 1))
UnconditionalCycle(env) ==
    \E i \in 1..Len(env) : env[i].body.c = "record" /\ ReachesDirect(env, env[i].name, env[i].name, Len(env) + 1)

Resolve(doc) ==
    LET p == ToRefForm(doc, NoNs) IN
    IF ~p.ok THEN [ok |-> FALSE, d |-> [c |-> "bad"], why |-> "missing attribute"]
    ELSE IF ~DistinctNames(p.defs) THEN [ok |-> FALSE, d |-> [c |-> "bad"], why |-> "duplicate definition"]
    ELSE LET x == Expand(p.r, p.defs, {}) IN
         IF ~x.ok THEN [ok |-> FALSE, d |-> [c |-> "bad"], why |-> "unknown reference"]
         ELSE IF UnconditionalCycle(p.defs) THEN [ok |-> FALSE, d |-> [c |-> "bad"], why |-> "unconditional record cycle"]
         ELSE [ok |-> TRUE, d |-> x.d, why |-> "ok"]

(***************************************************************************)
(* Canonical description of a node vector (builder API).                   *)
(* Result [st \in {"ok", "cycle", "dangling", "empty"}, d].                *)
(* A cycle through unnamed nodes only cannot be written down ("cycle");    *)
(* named nodes stop the recursion (written once, then by reference).       *)
(* `path`: unnamed nodes on the current path.                              *)
(***************************************************************************)
RECURSIVE GD(_, _, _, _)
RECURSIVE GDList(_, _, _, _, _)
RECURSIVE GDFields(_, _, _, _, _)

GFail(st, seen) == [st |-> st, d |-> [c |-> "bad"], seen |-> seen]

LtOf(n) == n.lt
PrecOf(n) == IF n.lt = "decimal" THEN n.prec ELSE -1
ScaleOf(n) == IF n.lt = "decimal" THEN n.scale ELSE -1

GDList(G, ks, i, seen, path) ==
    IF i > Len(ks) THEN [st |-> "ok", ds |-> <<>>, seen |-> seen]
    ELSE LET h == GD(G, ks[i], seen, path) IN
         IF h.st # "ok" THEN [st |-> h.st, ds |-> <<>>, seen |-> seen]
         ELSE LET t == GDList(G, ks, i + 1, h.seen, path) IN [st |-> t.st, ds |-> <<h.d>> \o t.ds, seen |-> t.seen]

GDFields(G, fs, i, seen, path) ==
    IF i > Len(fs) THEN [st |-> "ok", ds |-> <<>>, seen |-> seen]
    ELSE LET h == GD(G, fs[i].t, seen, path) IN
         IF h.st # "ok" THEN [st |-> h.st, ds |-> <<>>, seen |-> seen]
         ELSE LET t == GDFields(G, fs, i + 1, h.seen, path) IN
              [st |-> t.st, ds |-> << [n |-> fs[i].n, t |-> h.d] >> \o t.ds, seen |-> t.seen]

GD(G, k, seen, path) ==
    IF k < 1 \/ k > Len(G) THEN GFail("dangling", seen)
    ELSE LET n == G[k] IN
    CASE n.k \in Primitives ->
            [st |-> "ok", d |-> [c |-> "prim", k |-> n.k, lt |-> LtOf(n), prec |-> PrecOf(n), scale |-> ScaleOf(n)], seen |-> seen]
      [] n.k \in {"array", "map", "union"} ->
            IF k \in path THEN GFail("cycle", seen)
            ELSE LET p1 == path \cup {k} IN
                 (CASE n.k = "array" -> LET h == GD(G, n.items, seen, p1) IN
                                       IF h.st # "ok" THEN GFail(h.st, seen)
                                       ELSE [st |-> "ok", d |-> [c |-> "array", lt |-> LtOf(n), items |-> h.d], seen |-> h.seen]
                   [] n.k = "map" -> LET h == GD(G, n.values, seen, p1) IN
                                     IF h.st # "ok" THEN GFail(h.st, seen)
                                     ELSE [st |-> "ok", d |-> [c |-> "map", lt |-> LtOf(n), values |-> h.d], seen |-> h.seen]
                   [] n.k = "union" -> LET l == GDList(G, n.variants, 1, seen, p1) IN
                                       IF l.st # "ok" THEN GFail(l.st, seen)
                                       ELSE [st |-> "ok", d |-> [c |-> "union", es |-> l.ds], seen |-> l.seen])
      [] n.k \in NamedK ->
            \* named nodes are identified by their position in the vector: two nodes carrying the same fullname are a
            \* different matter (the document they render to has a duplicate definition)
            IF k \in seen THEN [st |-> "ok", d |-> [c |-> "ref", name |-> n.name], seen |-> seen]
            ELSE LET s1 == seen \cup {k} IN
                 CASE n.k = "record" -> LET fs == GDFields(G, n.fields, 1, s1, {}) IN     \* a named node breaks unnamed paths
                                        IF fs.st # "ok" THEN GFail(fs.st, seen)
                                        ELSE [st |-> "ok", d |-> [c |-> "record", name |-> n.name, lt |-> LtOf(n), fields |-> fs.ds], seen |-> fs.seen]
                   [] n.k = "enum" -> [st |-> "ok", d |-> [c |-> "enum", name |-> n.name, lt |-> LtOf(n), symbols |-> n.symbols], seen |-> s1]
                   [] n.k = "fixed" -> [st |-> "ok", d |-> [c |-> "fixed", name |-> n.name, lt |-> LtOf(n), size |-> n.size,
                                                           prec |-> PrecOf(n), scale |-> ScaleOf(n)], seen |-> s1]

GraphDesc(G) == IF Len(G) = 0 THEN [st |-> "empty", d |-> [c |-> "bad"]]
                ELSE LET r == GD(G, 1, {}, {}) IN [st |-> r.st, d |-> r.d]

\* named nodes (reachable or not) with equal fullnames
RECURSIVE NamesOfDesc(_)
RECURSIVE NamesOfList(_, _)
NamesOfList(ds, i) == IF i > Len(ds) THEN <<>> ELSE NamesOfDesc(ds[i]) \o NamesOfList(ds, i + 1)
NamesOfDesc(d) ==
    CASE d.c = "array" -> NamesOfDesc(d.items)
      [] d.c = "map" -> NamesOfDesc(d.values)
      [] d.c = "union" -> NamesOfList(d.es, 1)
      [] d.c = "record" -> <<d.name>> \o NamesOfList([i \in 1..Len(d.fields) |-> d.fields[i].t], 1)
      [] d.c \in {"enum", "fixed"} -> <<d.name>>
      [] OTHER -> <<>>
UniqueFullnames(d) == LET ns == NamesOfDesc(d) IN \A i, j \in 1..Len(ns) : ns[i] = ns[j] => i = j

\* a record that contains itself through record fields only, on a canonical description: a field chain that reaches a
\* reference to a record still being written (see DESIGN.md for why looking at the ancestors is complete)
RECURSIVE DescUncond(_, _)
DescUncond(d, anc) ==
    CASE d.c = "record" -> \E i \in 1..Len(d.fields) :
                              LET t == d.fields[i].t IN
                              \/ (t.c = "ref" /\ t.name \in (anc \cup {d.name}))
                              \/ (t.c = "record" /\ DescUncond(t, anc \cup {d.name}))
      [] OTHER -> FALSE
RECURSIVE AnyUncond(_)
RECURSIVE AnyUncondList(_, _)
AnyUncondList(ds, i) == i <= Len(ds) /\ (AnyUncond(ds[i]) \/ AnyUncondList(ds, i + 1))
AnyUncond(d) ==
    CASE d.c = "record" -> DescUncond(d, {}) \/ AnyUncondList([i \in 1..Len(d.fields) |-> d.fields[i].t], 1)
      [] d.c = "array" -> AnyUncond(d.items)
      [] d.c = "map" -> AnyUncond(d.values)
      [] d.c = "union" -> AnyUncondList(d.es, 1)
      [] OTHER -> FALSE

\* The same question on the node vector itself: is there a record that contains itself through record-typed fields only?
\* (Looking at a canonical description's ancestors is NOT complete: a record first written inside a union and later referred to
\* by name from a plain field - N1 {f1: [N1, N2 {a: N1}], f2: N2} - closes the cycle N1 -> N2 -> N1 without N2 being an
\* ancestor at the place of the reference.  Found by the 3-node enumeration of the thorough tier.)
RecEdges(G, i) == IF i \in 1..Len(G) /\ G[i].k = "record"
                  THEN {G[i].fields[j].t : j \in 1..Len(G[i].fields)} \cap {x \in 1..Len(G) : G[x].k = "record"}
                  ELSE {}
RECURSIVE RecReach(_, _, _)
RecReach(G, S, fuel) == IF fuel = 0 THEN S ELSE LET T == S \cup UNION {RecEdges(G, i) : i \in S} IN IF T = S THEN S ELSE RecReach(G, T, fuel - 1)
UncondCycle(G) == \E k \in 1..Len(G) : G[k].k = "record" /\ k \in RecReach(G, RecEdges(G, k), Len(G))

(***************************************************************************)
(* Parsing Canonical Form of a canonical description, as text (byte codes).*)
(* [STRIP] only name/type/fields/symbols/items/values/size, [ORDER] in     *)
(* that order, [FULLNAMES], [PRIMITIVES] as strings, no whitespace;        *)
(* logical types are dropped.                                              *)
(***************************************************************************)
Q == <<34>>
Str(t) == Q \o t \o Q
Lit_name    == <<123, 34, 110, 97, 109, 101, 34, 58>>                          \* {"name":
Lit_type    == <<44, 34, 116, 121, 112, 101, 34, 58>>                          \* ,"type":
Lit_fields  == <<44, 34, 102, 105, 101, 108, 100, 115, 34, 58, 91>>            \* ,"fields":[
Lit_symbols == <<44, 34, 115, 121, 109, 98, 111, 108, 115, 34, 58, 91>>        \* ,"symbols":[
Lit_size    == <<44, 34, 115, 105, 122, 101, 34, 58>>                          \* ,"size":
Lit_array   == <<123, 34, 116, 121, 112, 101, 34, 58, 34, 97, 114, 114, 97, 121, 34, 44, 34, 105, 116, 101, 109, 115, 34, 58>>   \* {"type":"array","items":
Lit_map     == <<123, 34, 116, 121, 112, 101, 34, 58, 34, 109, 97, 112, 34, 44, 34, 118, 97, 108, 117, 101, 115, 34, 58>>       \* {"type":"map","values":
Txt_record == <<114, 101, 99, 111, 114, 100>>
Txt_enum   == <<101, 110, 117, 109>>
Txt_fixed  == <<102, 105, 120, 101, 100>>

KindText(k) ==
    CASE k = "null" -> <<110, 117, 108, 108>>
      [] k = "boolean" -> <<98, 111, 111, 108, 101, 97, 110>>
      [] k = "int" -> <<105, 110, 116>>
      [] k = "long" -> <<108, 111, 110, 103>>
      [] k = "float" -> <<102, 108, 111, 97, 116>>
      [] k = "double" -> <<100, 111, 117, 98, 108, 101>>
      [] k = "bytes" -> <<98, 121, 116, 101, 115>>
      [] k = "string" -> <<115, 116, 114, 105, 110, 103>>

RECURSIVE NatText(_)
NatText(n) == IF n < 10 THEN <<48 + n>> ELSE NatText(n \div 10) \o <<48 + (n % 10)>>

(* Sizes beyond TLC's 32-bit integers.  A `size` s >= 0 is itself; s < 0 stands for the number whose decimal text is    *)
(* BigPrefix[(-s) \div 1000] followed by the three digits of (-s) % 1000 - windows of a thousand numbers around 2^31,    *)
(* 2^32, 2^53, 2^63 and 2^64 (the driver translates in both directions; nothing here does arithmetic on a size).         *)
BigPrefix == << <<50, 49, 52, 55, 52, 56, 51>>,                                                    \* 2147483 ...  (2^31 = ...648)
                <<52, 50, 57, 52, 57, 54, 55>>,                                                    \* 4294967 ...  (2^32 = ...296)
                <<57, 48, 48, 55, 49, 57, 57, 50, 53, 52, 55, 52, 48>>,                            \* 9007199254740 ...  (2^53 = ...992)
                <<57, 50, 50, 51, 51, 55, 50, 48, 51, 54, 56, 53, 52, 55, 55, 53>>,                \* 9223372036854775 ...  (2^63 = ...808)
                <<49, 56, 52, 52, 54, 55, 52, 52, 48, 55, 51, 55, 48, 57, 53, 53, 49>> >>          \* 18446744073709551 ...  (2^64 - 1 = ...615)
SizeText(s) == IF s >= 0 THEN NatText(s)
               ELSE LET m == 0 - s  k == m % 1000 IN BigPrefix[m \div 1000] \o <<48 + (k \div 100), 48 + ((k \div 10) % 10), 48 + (k % 10)>>

RECURSIVE Pcf(_)
RECURSIVE PcfList(_, _)
RECURSIVE PcfFields(_, _)
PcfList(ds, i) == IF i > Len(ds) THEN <<>> ELSE (IF i > 1 THEN <<44>> ELSE <<>>) \o Pcf(ds[i]) \o PcfList(ds, i + 1)
PcfFields(fs, i) ==
    IF i > Len(fs) THEN <<>>
    ELSE (IF i > 1 THEN <<44>> ELSE <<>>) \o Lit_name \o Str(fs[i].n) \o Lit_type \o Pcf(fs[i].t) \o <<125>> \o PcfFields(fs, i + 1)
RECURSIVE PcfSymbols(_, _)
PcfSymbols(ss, i) == IF i > Len(ss) THEN <<>> ELSE (IF i > 1 THEN <<44>> ELSE <<>>) \o Str(ss[i]) \o PcfSymbols(ss, i + 1)

Pcf(d) ==
    CASE d.c = "prim" -> Str(KindText(d.k))
      [] d.c = "ref" -> Str(d.name)
      [] d.c = "union" -> <<91>> \o PcfList(d.es, 1) \o <<93>>
      [] d.c = "array" -> Lit_array \o Pcf(d.items) \o <<125>>
      [] d.c = "map" -> Lit_map \o Pcf(d.values) \o <<125>>
      [] d.c = "record" -> Lit_name \o Str(d.name) \o Lit_type \o Str(Txt_record) \o Lit_fields \o PcfFields(d.fields, 1) \o <<93, 125>>
      [] d.c = "enum" -> Lit_name \o Str(d.name) \o Lit_type \o Str(Txt_enum) \o Lit_symbols \o PcfSymbols(d.symbols, 1) \o <<93, 125>>
      [] d.c = "fixed" -> Lit_name \o Str(d.name) \o Lit_type \o Str(Txt_fixed) \o Lit_size \o SizeText(d.size) \o <<125>>

=============================================================================

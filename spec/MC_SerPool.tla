------------------------------ MODULE MC_SerPool ------------------------------
(***************************************************************************)
(* C14 (design level): the pools kept in a serializer configuration across *)
(* calls.  State = the pools.  One action = one call of the serializer on  *)
(* the shared configuration: any presentation of the record catalogue      *)
(* (MC_Record: every field order / omission / duplicate / unknown, nested  *)
(* out-of-order records, sequences buffered as bytes, failing values) with *)
(* a sink that accepts `budget` bytes (every failure point).               *)
(*   PoolAlwaysClean : every pooled buffer is empty, no emptiness          *)
(*                     assertion ever failed;                              *)
(*   ReuseEqFresh    : each call on the used pools behaves exactly as on   *)
(*                     fresh ones and refines RecordAbs.                   *)
(* With MutDropNoClear / MutFlushNoClear = TRUE the invariants must be     *)
(* violated (non-vacuity; see MC_SerPool_mut*.cfg).                        *)
(***************************************************************************)
EXTENDS RecordPres, Json, IOUtils

Scope   == ndJsonDeserialize(IOEnv.VERIF_SCOPE)
NShards == atoi(IOEnv.VERIF_NSHARDS)
Shard   == atoi(IOEnv.VERIF_SHARD)

VARIABLES pool, lastOk

Budgets == {-1, 0, 1, 2, 3, 4, 6, 9}

PInit == pool = EmptyPool /\ lastOk = TRUE
PNext ==
    \E i \in {j \in 1..Len(Scope) : j % NShards = Shard} :
      LET nf == Len(Scope[i].nodes[1].fields) IN
      \E order \in SeqsUpTo(nf + 1, nf), rot \in 0..2, budget \in Budgets :
        LET G == Scope[i].nodes
            p == RecPres(G, order, rot, "struct")
        IN  /\ pool' = Call(G, p, pool, budget, TRUE).pool
            /\ lastOk' = CallRefinesAbs(G, p, pool, budget, TRUE)

PoolAlwaysClean == PoolClean(pool)
ReuseEqFresh == lastOk

PSpec == PInit /\ [][PNext]_<<pool, lastOk>>
=============================================================================

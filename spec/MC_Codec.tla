------------------------------ MODULE MC_Codec ------------------------------
(***************************************************************************)
(* Bounded check of the codec specification against itself, and scenario   *)
(* generation for replay on the implementation (C01, C03, C12).            *)
(*                                                                         *)
(* For every schema of the scope (read from VERIF_SCOPE, one JSON object   *)
(* per line: [sid, nodes]) and every enumerated conforming value v:        *)
(*   - v conforms;                                                         *)
(*   - Dec(Enc(v)) = v, consuming exactly the encoding;                    *)
(*   - every block-layout variant decodes to v as well;                    *)
(*   - every single-point malformation and every proper prefix of the      *)
(*     encoding is rejected by the specification's decoder;                *)
(*   - each canonical presentation of v (SerdeModel!Canon, three styles)   *)
(*     must serialize and denotes exactly v.                               *)
(* Each visited state is printed as one JSON line ("SCN") carrying the     *)
(* value, its canonical encoding and the distinct layout variants: the     *)
(* stimuli, with their expected outcome, replayed on the real code.        *)
(***************************************************************************)
EXTENDS AvroValues, DeView, AvroSkip, Json, IOUtils, SequencesExt

Scope   == ndJsonDeserialize(IOEnv.VERIF_SCOPE)
NShards == atoi(IOEnv.VERIF_NSHARDS)
Shard   == atoi(IOEnv.VERIF_SHARD)
Fuel    == atoi(IOEnv.VERIF_FUEL)

VARIABLE c

MkCase(i, v) ==
    LET G   == Scope[i].nodes
        enc == Enc(G, 1, v)
    IN  [si |-> i, sid |-> Scope[i].sid, v |-> v, anyv |-> Erase(G, 1, v), enc |-> enc,
         lays |-> SetToSeq({EncWith(G, 1, v, L) : L \in LayoutChoices} \ {enc}),
         mal |-> SetToSeq(Mal(G, 1, v)),
         pres |-> [named |-> Canon(G, 1, v, "named"), rust |-> Canon(G, 1, v, "rust"), bare |-> Canon(G, 1, v, "bare")]]

Init == c = [si |-> 0]
Next == /\ c.si = 0
        /\ \E i \in {j \in 1..Len(Scope) : j % NShards = Shard} :
             \E v \in Vals(Scope[i].nodes, 1, Fuel) : c' = MkCase(i, v)

CaseOk ==
    c.si = 0 \/
    LET G == Scope[c.si].nodes IN
    /\ Conforms(G, 1, c.v)
    /\ IsEncodingOf(G, c.enc, c.v)
    /\ \A j \in 1..Len(c.lays) : IsEncodingOf(G, c.lays[j], c.v)
    /\ \A j \in 1..Len(c.mal) : DecAll(G, c.mal[j]).st = "err"
    /\ \A j \in 0..(Len(c.enc) - 1) : DecAll(G, SubSeq(c.enc, 1, j)).st = "err"      \* premature end of input
    \* skipping (implementation-shaped, incl. jumping over sized blocks) ends where decoding ends (C12)
    /\ SkipI(G, c.enc) = SOk(Len(c.enc) + 1)
    /\ \A j \in 1..Len(c.lays) : SkipI(G, c.lays[j]) = SOk(Len(c.lays[j]) + 1)
    \* every canonical presentation must serialize, and denotes exactly v (C01 <-> SerdeModel)
    /\ \A st \in {"named", "rust", "bare"} :
          LET d == Den(G, 1, c.pres[st], FALSE) IN d.m = "ok" /\ d.vs = {c.v} /\ ~d.any

Emit == c.si = 0 \/ PrintT(<<"SCN", ToJson(c)>>)

=============================================================================
